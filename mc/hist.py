"""History explorer (DESIGN §3.H): breadth-first over operation sequences on
real objects.

A *state* is the event history that reaches it.  `build(spec, hist)` replays
the history on a FRESH real object; the invariant (observation of the n-th
operation == observation of the same operation on a brand-new instance, plus
the spec's own invariants) is evaluated after every event.  `canon_state(obj)`
is a deep canonical form of `obj.__dict__` (recursively, including the lexer
and the token stream of a parser) and is used to COUNT distinct object states;
no two histories are ever merged on it - every sequence up to the depth bound
is executed (merging on a hand-written state abstraction would assume exactly
what C12 tests).

A spec is any object with

    name            str
    ops             list of JSON-able operation descriptions
    fresh()         -> a new real object
    apply(obj, i)   -> (observation, keepalive)   # run ops[i] on obj
    invariants(obj, hist, obs, keep) -> [(sig, detail), ...]   # optional extras

Specs are created inside worker processes from (module, factory, args), so
nothing unpicklable crosses a process boundary.

The reference ("brand-new instance") observations are NOT taken in the
processes that run the histories: `baseline()` computes each of them in its own
pristine child process (mc/pristine.py) before any other pycparser code has
run, and the table is shipped to the workers with their tasks.  Otherwise
module-level state (a cache keyed by directive text, literal spelling, ...)
would be in the reference as well and could never be seen.
"""
from __future__ import annotations

import importlib
import itertools
import types

from . import core, obs as O


# ---------------------------------------------------------------------------
# deep canonical form of an object's state
# ---------------------------------------------------------------------------
_PRIM = (str, bytes, int, float, bool, type(None), complex)


def canon_state(x, memo=None):
    """Deep canonical form of the mutable state reachable from x.

    Objects are expanded through __dict__ and __slots__ (along the MRO);
    cycles / sharing are rendered as back references numbered in visiting
    order (so aliasing is part of the state), bound methods as (name, owner),
    functions and classes by qualified name."""
    if memo is None:
        memo = {}
    if isinstance(x, _PRIM):
        return x
    k = id(x)
    if k in memo:
        return ("ref", memo[k])
    if isinstance(x, (type, types.FunctionType, types.BuiltinFunctionType)):
        return ("fn", getattr(x, "__module__", "?"), getattr(x, "__qualname__", repr(x)))
    if isinstance(x, types.MethodType):
        return ("method", x.__func__.__qualname__, canon_state(x.__self__, memo))
    if isinstance(x, tuple):  # immutable: sharing is not state
        return ("tuple",) + tuple(canon_state(e, memo) for e in x)
    memo[k] = len(memo)
    if isinstance(x, list):
        return ("list",) + tuple(canon_state(e, memo) for e in x)
    if isinstance(x, dict):
        items = sorted(x.items(), key=lambda kv: repr(kv[0]))
        return ("dict",) + tuple((canon_state(a, memo), canon_state(b, memo)) for a, b in items)
    if isinstance(x, (set, frozenset)):
        return ("set",) + tuple(sorted((canon_state(e, memo) for e in x), key=repr))
    if hasattr(x, "pattern") and hasattr(x, "flags") and hasattr(x, "match"):
        return ("re", x.pattern, x.flags)
    fields = []
    d = getattr(x, "__dict__", None)
    if isinstance(d, dict):
        for name in sorted(d):
            fields.append((name, canon_state(d[name], memo)))
    seen = set()
    for cls in type(x).__mro__:
        sl = cls.__dict__.get("__slots__", ())
        if isinstance(sl, str):
            sl = (sl,)
        for name in sl:
            if name in ("__weakref__", "__dict__") or name in seen:
                continue
            seen.add(name)
            try:
                v = getattr(x, name)
            except AttributeError:
                continue
            fields.append((name, canon_state(v, memo)))
    return ("obj", type(x).__module__ + "." + type(x).__qualname__, tuple(fields))


def state_digest(obj) -> str:
    return O.digest(canon_state(obj))


# ---------------------------------------------------------------------------
# the explorer
# ---------------------------------------------------------------------------
_SPECS = {}


def get_spec(ref):
    """ref = (module, factory, args) -> spec (one instance per process)."""
    ref = (ref[0], ref[1], tuple(ref[2]))
    s = _SPECS.get(ref)
    if s is None:
        mod = importlib.import_module(ref[0])
        s = getattr(mod, ref[1])(*ref[2])
        s._expected = {}
        _SPECS[ref] = s
    return s


def expected(spec, i):
    """Observation of ops[i] on a brand-new instance IN A PRISTINE PROCESS
    (the reference).  The table is computed by `baseline()` before anything
    else has run and shipped to the workers with their tasks; it is never
    computed lazily in a process that has already executed other operations
    (a module-level cache would pollute reference and run alike)."""
    try:
        return spec._expected[i]
    except KeyError:
        raise RuntimeError(f"{spec.name}: no pristine baseline for operation {i}") from None


def install_baseline(ref, table):
    spec = get_spec(ref)
    spec._expected = dict(table)
    return spec


def _baseline_work(task):
    ref, i = task
    spec = get_spec(ref)
    # a spec may name a simpler instance as the reference of its objects
    mk = getattr(spec, "reference_fresh", None) or spec.fresh
    return spec.apply(mk(), i)[0]


def baseline(ref, nops, only=None):
    """{op index: observation} with every entry computed in its own pristine
    child process (twice, in two children), plus the list of operations whose
    two pristine observations differ: [(i, obs1, obs2)]."""
    from . import pristine

    idx = list(range(nops)) if only is None else sorted(set(only))
    res = pristine.pristine_map(_baseline_work, [(ref, i) for i in idx])
    table, unstable = {}, []
    for i, (a, b) in zip(idx, res):
        table[i] = a
        if a != b:
            unstable.append((i, a, b))
    return table, unstable


def build(spec, hist, check=True):
    """Replay `hist` (a sequence of op indices) on a fresh real object.
    Returns (obj, observations, keepalives, violations); violations is a list
    of (event index, signature, detail).  The invariant is evaluated after
    every event."""
    obj = spec.fresh()
    obs, keep, viol = [], [], []
    extra = getattr(spec, "invariants", None)
    bad = []
    for n, i in enumerate(hist):
        o, k = spec.apply(obj, i)
        obs.append(o)
        keep.append(k)
        if not check:
            continue
        e = expected(spec, i)
        bad.append(o != e)
        if o != e:
            viol.append((n, f"{spec.name}:reuse:{O.obs_sig(e, o)}", O.obs_detail(e, o)))
        # same operation earlier in this history => equal results (implied by
        # the comparison with a fresh instance unless "fresh" itself is not
        # stable; reported on its own only in that case)
        for m in range(n):
            if hist[m] == i and obs[m] != o and not bad[m] and not bad[n]:
                viol.append((n, f"{spec.name}:same-op-twice:{O.obs_sig(obs[m], o)}",
                             O.obs_detail(obs[m], o)))
                break
        if extra is not None:
            for sig, detail in extra(obj, hist[: n + 1], obs, keep):
                viol.append((n, f"{spec.name}:{sig}", detail))
    return obj, obs, keep, viol


def _explore_prefix(task):
    """All histories that start with `prefix` (inclusive) up to `depth`."""
    ref, prefix, depth, table = task[:4]
    alphabet, min_len = (task[4], task[5]) if len(task) > 4 else (None, 1)
    spec = get_spec(ref) if table is None else install_baseline(ref, table)
    alphabet = list(range(len(spec.ops))) if alphabet is None else list(alphabet)
    prefix = tuple(prefix)
    histories = applied = same_twice = 0
    states = set()
    last_state = {}  # last op -> set of end-state digests (evidence only)
    fails = []
    outcome_kinds = {}
    for extra_len in range(0, depth - len(prefix) + 1):
        if len(prefix) + extra_len < min_len:
            continue
        for tail in itertools.product(alphabet, repeat=extra_len):
            h = prefix + tail
            if not h:
                continue
            obj, obs, keep, viol = build(spec, h)
            histories += 1
            applied += len(h)
            if h[-1] in h[:-1]:
                same_twice += 1
            d = state_digest(obj)
            states.add(d)
            last_state.setdefault(h[-1], set()).add(d)
            k = obs[-1][0] if obs[-1][0] != "exc" else obs[-1][1]
            outcome_kinds[k] = outcome_kinds.get(k, 0) + 1
            for n, sig, detail in viol:
                # a violation at an earlier event was already reported by the
                # (shorter) history that ends there
                if n == len(h) - 1 and len(fails) < 50:
                    fails.append((sig, {"spec": list(ref), "history": list(h),
                                        "ops": [spec.ops[i] for i in h]}, detail))
    return {
        "histories": histories,
        "applied": applied,
        "same_twice": same_twice,
        "states": states,
        "last_state": last_state,
        "fails": fails,
        "outcome_kinds": outcome_kinds,
    }


def explore(ref, depth, table, plen=2, name=None, others=(), alphabet=None, min_len=1):
    """All histories of length 1..depth over the spec's operations, smallest
    first.  `table` is the pristine baseline from `baseline()` (it also gives
    the number of operations); it travels with every task.  The spec itself
    is only ever built inside worker processes.  Work is partitioned by the
    first `plen` operations (enumeration index, not time) and merged in index
    order.  Returns a summary dict."""
    nops = len(table)
    if sorted(table) != list(range(nops)):
        raise RuntimeError(f"{ref}: baseline covers {sorted(table)}")
    # `alphabet` restricts the operations used (indices), `min_len` skips the
    # shorter histories (already run by an exploration over a larger alphabet)
    alpha = list(range(nops)) if alphabet is None else list(alphabet)
    plen = min(plen, depth)
    tasks = []
    # histories shorter than plen: one task per length-1.. prefix, no extension
    for l in range(max(1, min_len), plen):
        for p in itertools.product(alpha, repeat=l):
            tasks.append((ref, p, l, table, alpha, min_len))
    for p in itertools.product(alpha, repeat=plen):
        tasks.append((ref, p, depth, table, alpha, min_len))
    res = core.pmap(_explore_prefix, tasks)
    out = {"histories": 0, "applied": 0, "same_twice": 0, "states": set(),
           "last_state": {}, "fails": [], "outcome_kinds": {}}
    for r in res:
        out["histories"] += r["histories"]
        out["applied"] += r["applied"]
        out["same_twice"] += r["same_twice"]
        out["states"] |= r["states"]
        for k, v in r["last_state"].items():
            out["last_state"].setdefault(k, set()).update(v)
        out["fails"].extend(r["fails"])
        for k, v in r["outcome_kinds"].items():
            out["outcome_kinds"][k] = out["outcome_kinds"].get(k, 0) + v
    # smallest-first so that the first recorded case per signature is minimal
    out["fails"].sort(key=lambda f: (len(f[1]["history"]), f[1]["history"]))
    out["fails"] = confirm(ref, table, out["fails"], others)
    out["expected_distinct"] = len({O.digest(table[i]) for i in range(nops)})
    out["nops"] = nops
    return out


def _rotation_work(task):
    ref, table, h = task
    spec = install_baseline(ref, table)
    obj, obs, keep, viol = build(spec, tuple(h))
    return [O.digest(o) for o in obs], [(n, sig, detail) for n, sig, detail in viol][:5]


def long_histories(ref, table, hs):
    """A few fixed LONG histories (address reuse by the allocator needs churn
    that sequences <= 3 do not give).  Each one runs in its own pristine
    process, twice (two processes): CPython's allocation sequence is then
    fixed, so the observations must be identical - that is asserted - and the
    verdict is reproducible.  Returns (fails, events applied)."""
    from . import pristine

    res = pristine.pristine_map(_rotation_work, [(ref, table, list(h)) for h in hs])
    fails, applied = [], 0
    for h, (a, b) in zip(hs, res):
        applied += len(h)
        case = {"spec": list(ref), "history": list(h), "long": True}
        if a != b:
            fails.append((f"{ref[1]}:long-history-not-reproducible", case,
                          "the same long history gave different observations in two pristine processes"))
        for n, sig, detail in a[1][:1]:
            fails.append((sig, dict(case, at=n), f"at event {n} of a history of {len(h)}: {detail}"))
    return fails, applied


def _confirm_work(task):
    """In a pristine process: first the prelude (each operation on its own
    fresh instance - other instances used earlier in the process; an entry is
    an operation index of the same spec, or (ref, table, index) for an
    instance of another spec, e.g. of another class), then the history on one
    fresh instance.  Returns the violations of its last event."""
    ref, table, prelude, h = task
    for k in prelude:
        if isinstance(k, int):
            sp = install_baseline(ref, table)
        else:
            sp, k = install_baseline(k[0], k[1]), k[2]
        sp.apply(sp.fresh(), k)
    spec = install_baseline(ref, table)
    obj, obs, keep, viol = build(spec, tuple(h))
    return [(sig, detail) for n, sig, detail in viol if n == len(h) - 1]


def confirm(ref, table, fails, others=()):
    """Worker processes run many histories, so a failure seen there may owe
    something to what the process did earlier (module- or class-level state).
    For the smallest case of every signature, look for a self-contained
    reproduction in a pristine process: the history alone, else the history
    after one other operation executed on a separate fresh instance - of the
    same spec, or of one of `others` [(ref, table)] (instances of other
    classes).  The case records the prelude it needs (`prelude`), or
    `self_contained: false` if none of these reproduces it (it is reported
    all the same)."""
    from . import pristine

    nops = len(table)
    seen = set()
    out = []
    for sig, case, detail in fails:
        if sig in seen:
            out.append((sig, case, detail))
            continue
        seen.add(sig)
        h = case["history"]
        cands = [[]] + [[k] for k in range(nops)]
        cands += [[(r2, t2, k)] for r2, t2 in others for k in range(len(t2))]
        res = pristine.pristine_map(_confirm_work, [(ref, table, pre, h) for pre in cands], repeat=1)
        case = dict(case)
        case["self_contained"] = False
        for pre, (viol,) in zip(cands, res):
            if viol:
                shown = [k if isinstance(k, int) else [list(k[0]), k[2]] for k in pre]
                case["prelude"] = shown
                case["self_contained"] = True
                if pre:
                    detail = (f"{detail} [needs process state: reproduced in a pristine process after "
                              f"operation {shown} ran on ANOTHER fresh instance; there: {viol[0][0]}]")
                break
        out.append((sig, case, detail))
    return out


# ---------------------------------------------------------------------------
# self check of the engine on a toy object with a planted history dependence
# ---------------------------------------------------------------------------
class _ToySpec:
    """Accumulator whose `put(v)` forgets to reset a flag when leaky=True."""

    def __init__(self, leaky):
        self.name = "toy-leaky" if leaky else "toy-clean"
        self.leaky = leaky
        self.ops = [{"put": 0}, {"put": 1}, {"put": 2}]

    def fresh(self):
        class Toy:
            def __init__(self):
                self.seen_two = False
                self.last = None

        return Toy()

    def apply(self, obj, i):
        v = self.ops[i]["put"]
        if not self.leaky:
            obj.seen_two = False
        if v == 2:
            obj.seen_two = True
        obj.last = v
        return ("text", f"{v}:{obj.seen_two}"), None


def toy_spec(leaky):
    return _ToySpec(bool(leaky))


def selfcheck():
    """The engine must (a) stay silent on a history-independent toy, (b) find
    the planted dependence in the leaky toy with a minimal history of length
    2, (c) give identical observations when one history is replayed twice."""
    tabs = {}
    for leaky in (0, 1):
        r = ("mc.hist", "toy_spec", (leaky,))
        sp = get_spec(r)
        # the toy runs no pycparser code: its baseline may be taken in-process
        tabs[leaky] = {i: sp.apply(sp.fresh(), i)[0] for i in range(len(sp.ops))}
    clean = _explore_prefix((("mc.hist", "toy_spec", (0,)), (), 3, tabs[0]))
    leaky = _explore_prefix((("mc.hist", "toy_spec", (1,)), (), 3, tabs[1]))
    ok = clean["histories"] == 3 + 9 + 27 and not clean["fails"]
    ok = ok and leaky["fails"] and min(len(f[1]["history"]) for f in leaky["fails"]) == 2
    s = get_spec(("mc.hist", "toy_spec", (1,)))
    a = build(s, (2, 0, 1))
    b = build(s, (2, 0, 1))
    ok = ok and a[1] == b[1] and state_digest(a[0]) == state_digest(b[0])
    return bool(ok)

"""gcc as a per-case oracle: compile a translation unit to assembly text."""
from __future__ import annotations

import re
import subprocess


def asm(text, opt="-O0", std="-std=c11"):
    """(ok, normalised assembly | diagnostics)."""
    try:
        r = subprocess.run(
            ["gcc", std, opt, "-S", "-w", "-fno-asynchronous-unwind-tables", "-x", "c", "-", "-o", "-"],
            input=text, capture_output=True, text=True, timeout=300,
        )
    except subprocess.TimeoutExpired:
        return False, "timeout"
    if r.returncode != 0:
        return False, r.stderr
    out = []
    for line in r.stdout.split("\n"):
        if line.startswith("\t.file") or line.startswith("\t.ident") or line == "\tnop":
            continue  # nop placement at -O0 depends on which statements share a source line
        out.append(line)
    return True, "\n".join(out)


def syntax_ok(text, std="-std=c11", pedantic=False):
    args = ["gcc", std, "-fsyntax-only", "-w", "-x", "c", "-"]
    if pedantic:
        args.insert(2, "-pedantic-errors")
        args.remove("-w")
    r = subprocess.run(args, input=text, capture_output=True, text=True, timeout=300)
    return r.returncode == 0, r.stderr


_NORM = [
    (re.compile(r"<stdin>:\d+:\d+: "), ""),
    (re.compile(r"[‘'`]([^’']*)[’']"), "'_'"),
    (re.compile(r"\b\d+\b"), "N"),
]


def first_diag(stderr):
    """First error line with identifiers and numbers normalised."""
    for line in stderr.split("\n"):
        if "error" in line:
            s = line
            for rx, rep in _NORM:
                s = rx.sub(rep, s)
            return s.strip()[:100]
    return stderr.strip().split("\n")[0][:100] if stderr.strip() else "?"


_TOK = re.compile(
    r"""\s*((?:u8|u|U|L)?'(?:\\.|[^\\'\n])*'|(?:u8|u|U|L)?"(?:\\.|[^\\"\n])*"|"""  # literals
    r"""\.?[0-9](?:[eEpP][+-]|[0-9A-Za-z_.])*|"""                                  # pp-number
    r"""[A-Za-z_$][A-Za-z_$0-9]*|"""
    r"""\.\.\.|<<=|>>=|\+\+|--|->|&&|\|\||<<|>>|<=|>=|==|!=|[-+*/%&|^]=|\S)""",
    re.S,
)


def c_tokens(text):
    """Independent, simple C tokenizer (good enough for generated programs)."""
    out = []
    for m in _TOK.finditer(text):
        t = m.group(1)
        if t is not None and not t.isspace():
            out.append(t)
    return out


def one_token_per_line(text):
    return "\n".join(c_tokens(text)) + "\n"


def tokdiff_sig(orig, gen, tok_class):
    """First token difference between two texts, parentheses ignored:
    '<class of previous token>|<orig token class>/<gen token class>'."""
    a = [t for t in c_tokens(orig) if t not in "()"]
    b = [t for t in c_tokens(gen) if t not in "()"]
    for i in range(max(len(a), len(b))):
        x = a[i] if i < len(a) else ""
        y = b[i] if i < len(b) else ""
        if x != y:
            prev = tok_class(a[i - 1]) if i else "BOF"
            return f"tokdiff:{prev}|{tok_class(x)}/{tok_class(y)}"
    return None

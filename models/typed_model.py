"""Typed sub-model (DESIGN §4.8): bounded enumeration of *type-correct* C11
function bodies and file-scope declarations, so that every term is a program
gcc accepts.  Used by C08 (gcc -S on original vs regenerated text) and by C01
(everything gcc accepts must be accepted by pycparser).

Written from the C standard's typing rules; knows nothing about pycparser.
"""
from __future__ import annotations

import itertools

PRELUDE = (
    "typedef int T;\n"
    "struct S { int m; int n; };\n"
    "enum E { K0, K1, K2 };\n"
    "int g(int);\n"
    "int v[4];\n"
)
PARAMS = "int a, int b, int c, int d, int *p, int *r, struct S s, struct S t, struct S *q"

LEAVES = {"i": ["a", "b", "c", "d"], "p": ["p", "r"], "s": ["s", "t"], "q": ["q"]}

BINOPS = {
    12: ["*", "/", "%"], 11: ["+", "-"], 10: ["<<", ">>"], 9: ["<", ">", "<=", ">="],
    8: ["==", "!="], 7: ["&"], 6: ["^"], 5: ["|"], 4: ["&&"], 3: ["||"],
}
BIN_LEVEL = {op: lvl for lvl, ops in BINOPS.items() for op in ops}
ASSIGN_OPS = ["=", "*=", "/=", "%=", "+=", "-=", "<<=", ">>=", "&=", "^=", "|="]

# one representative operator per class (for the reduced alphabet)
BIN_REPR = ["*", "+", "<<", "<", "==", "&", "^", "|", "&&", "||"]
ASSIGN_REPR = ["=", "+="]


# ---------------------------------------------------------------------------
# typed expression terms
#   ('leaf', ty) ('const', text) ('bin', op, l, r) ('asg', op, l, r)
#   ('cond', c, t, f) ('comma', l, r) ('pre', op, e) ('post', op, e)
#   ('sizeof_e', e) ('sizeof_t', tname) ('alignof', tname) ('cast', tname, e)
#   ('idx', base, e) ('call', e) ('mem', op, e, member) ('clit', kind, e)
# a generator entry is (term, type, is_lvalue)
# ---------------------------------------------------------------------------
def exprs(k, full=True, _memo={}):
    """All typed expression terms with exactly k operator nodes:
    list of (term, type, is_lvalue)."""
    key = (k, full)
    if key in _memo:
        return _memo[key]
    binops = [op for ops in BINOPS.values() for op in ops] if full else BIN_REPR
    asgops = ASSIGN_OPS if full else ASSIGN_REPR
    out = []
    if k == 0:
        out = [(("leaf", "i"), "i", True), (("leaf", "p"), "p", True),
               (("leaf", "s"), "s", True), (("leaf", "q"), "q", True)]
        _memo[key] = out
        return out
    sub = [exprs(j, full) for j in range(k)]

    def of(j, ty=None, lv=None):
        return [e for e in sub[j] if (ty is None or e[1] in ty) and (lv is None or e[2] == lv or (lv is False))]

    # unary-shaped (one child with k-1 ops)
    for (e, ty, lv) in sub[k - 1]:
        if ty == "i":
            for op in (["-", "+", "~", "!"] if full else ["-", "!"]):
                out.append((("pre", op, e), "i", False))
            out.append((("cast", "long", e), "i", False))
            if full:
                out.append((("cast", "unsigned char", e), "i", False))
            out.append((("call", e), "i", False))
            out.append((("clit", "int", e), "i", True))
            out.append((("clit", "S.n", e), "s", True))
            if lv:
                for op in ("++", "--"):
                    out.append((("pre", op, e), "i", False))
                    out.append((("post", op, e), "i", False))
                out.append((("pre", "&", e), "p", False))
        if ty == "p":
            out.append((("pre", "*", e), "i", True))
            out.append((("pre", "!", e), "i", False))
            out.append((("cast", "int *", e), "p", False))
            if full:
                out.append((("cast", "const int *", e), "p", False))
            if lv:
                out.append((("pre", "++", e), "p", False))
                out.append((("post", "--", e), "p", False))
        if ty == "s":
            out.append((("mem", ".", e, "m"), "i", lv))
            if lv:
                out.append((("pre", "&", e), "q", False))
        if ty == "q":
            out.append((("mem", "->", e, "n"), "i", True))
            out.append((("pre", "*", e), "s", True))
        out.append((("sizeof_e", e), "i", False))
    if k == 1:
        for tn in ("int", "struct S", "int *", "T", "int [3]", "int (*)(int)"):
            out.append((("sizeof_t", tn), "i", False))
        out.append((("alignof", "struct S"), "i", False))
        if full:
            out.append((("alignof", "long"), "i", False))
    # binary-shaped
    for j in range(0, k):
        r_ops = k - 1 - j
        L = sub[j]
        Rr = sub[r_ops]
        for (l, lt, llv) in L:
            for (r, rt, rlv) in Rr:
                if lt == "i" and rt == "i":
                    for op in binops:
                        out.append((("bin", op, l, r), "i", False))
                    if llv:
                        for op in asgops:
                            out.append((("asg", op, l, r), "i", False))
                    out.append((("comma", l, r), "i", False))
                elif lt == "p" and rt == "i":
                    out.append((("bin", "+", l, r), "p", False))
                    out.append((("bin", "-", l, r), "p", False))
                    out.append((("idx", l, r), "i", True))
                    if llv:
                        out.append((("asg", "+=", l, r), "p", False))
                    if full:
                        out.append((("bin", "&&", l, r), "i", False))
                elif lt == "p" and rt == "p":
                    out.append((("bin", "-", l, r), "i", False))
                    out.append((("bin", "<", l, r), "i", False))
                    out.append((("bin", "==", l, r), "i", False))
                    if llv:
                        out.append((("asg", "=", l, r), "p", False))
                elif lt == "s" and rt == "s":
                    if llv:
                        out.append((("asg", "=", l, r), "s", False))
                elif lt == "i" and rt in ("p", "s"):
                    out.append((("comma", l, r), rt, False))
                elif lt == "i" and rt == "q":
                    pass
    # ternary-shaped
    if k >= 1:
        for j1 in range(0, k):
            for j2 in range(0, k - j1):
                j3 = k - 1 - j1 - j2
                if j3 < 0:
                    continue
                for (c, ct, _) in sub[j1]:
                    if ct != "i":
                        continue
                    for (t, tt, _) in sub[j2]:
                        for (f, ft, _) in sub[j3]:
                            if tt == ft and tt in ("i", "p", "s"):
                                out.append((("cond", c, t, f), tt, False))
    _memo[key] = out
    return out


# C99 6.5 grammar levels (Appendix A of DESIGN.md)
def level(t):
    k = t[0]
    if k in ("leaf", "const"):
        return 16
    if k in ("idx", "call", "mem", "post", "clit"):
        return 15
    if k in ("pre", "sizeof_e", "sizeof_t", "alignof"):
        return 14
    if k == "cast":
        return 13
    if k == "bin":
        return BIN_LEVEL[t[1]]
    if k == "cond":
        return 2
    if k == "asg":
        return 1
    if k == "comma":
        return 0
    raise ValueError(k)


class _Namer:
    def __init__(self):
        self.n = {k: 0 for k in LEAVES}

    def next(self, ty):
        names = LEAVES[ty]
        i = self.n[ty]
        self.n[ty] = i + 1
        return names[i % len(names)]


def render_expr(t, need=0, namer=None):
    """Minimal parenthesisation: parenthesise exactly where the operand's level
    is below what the production requires."""
    if namer is None:
        namer = _Namer()
    k = t[0]
    lv = level(t)
    R = lambda x, n: render_expr(x, n, namer)  # noqa
    if k == "leaf":
        s = namer.next(t[1])
    elif k == "const":
        s = t[1]
    elif k == "bin":
        s = f"{R(t[2], lv)} {t[1]} {R(t[3], lv + 1)}"
    elif k == "asg":
        s = f"{R(t[2], 14)} {t[1]} {R(t[3], 1)}"
    elif k == "cond":
        s = f"{R(t[1], 3)} ? {R(t[2], 0)} : {R(t[3], 2)}"
    elif k == "comma":
        s = f"{R(t[1], 0)}, {R(t[2], 1)}"
    elif k == "pre":
        if t[1] in ("++", "--"):
            s = f"{t[1]}{R(t[2], 14)}"
        else:
            inner = R(t[2], 13)
            # avoid pasting '- -a' into '--a', '+ +a' into '++a', '& &a' into '&&a'
            sep = " " if inner[:1] == t[1][-1] else ""
            s = f"{t[1]}{sep}{inner}"
    elif k == "post":
        s = f"{R(t[2], 15)}{t[1]}"
    elif k == "sizeof_e":
        s = f"sizeof {R(t[1], 14)}"
    elif k == "sizeof_t":
        s = f"sizeof({t[1]})"
    elif k == "alignof":
        s = f"_Alignof({t[1]})"
    elif k == "cast":
        s = f"({t[1]}){R(t[2], 13)}"
    elif k == "idx":
        s = f"{R(t[1], 15)}[{R(t[2], 0)}]"
    elif k == "call":
        s = f"g({R(t[1], 1)})"
    elif k == "mem":
        s = f"{R(t[2], 15)}{t[1]}{t[3]}"
    elif k == "clit":
        if t[1] == "int":
            s = f"(int){{{R(t[2], 1)}}}"
        else:
            s = f"(struct S){{.n = {R(t[2], 1)}}}"
    else:
        raise ValueError(k)
    if lv < need:
        return "(" + s + ")"
    return s


def expr_sig(t):
    """Anonymised shape of a term: operator classes only."""
    k = t[0]
    if k in ("leaf", "const"):
        return "_"
    if k == "bin":
        return f"bin{BIN_LEVEL[t[1]]}({expr_sig(t[2])},{expr_sig(t[3])})"
    if k == "asg":
        return f"asg({expr_sig(t[2])},{expr_sig(t[3])})"
    if k == "cond":
        return f"cond({expr_sig(t[1])},{expr_sig(t[2])},{expr_sig(t[3])})"
    if k == "comma":
        return f"comma({expr_sig(t[1])},{expr_sig(t[2])})"
    if k in ("pre", "post"):
        return f"{k}{t[1]}({expr_sig(t[2])})"
    if k in ("sizeof_t", "alignof"):
        return f"{k}"
    if k == "cast":
        return f"cast({expr_sig(t[2])})"
    if k == "mem":
        return f"mem{t[1]}({expr_sig(t[2])})"
    if k == "clit":
        return f"clit:{t[1]}({expr_sig(t[2])})"
    if k == "idx":
        return f"idx({expr_sig(t[1])},{expr_sig(t[2])})"
    return f"{k}(" + ",".join(expr_sig(x) for x in t[1:] if isinstance(x, tuple)) + ")"


def expr_functions(max_ops, full):
    """Function bodies 'return E;' / 'E;' for every typed expression term with
    <= max_ops operators: list of (sig, body_text)."""
    out = []
    for k in range(1, max_ops + 1):
        for (t, ty, lv) in exprs(k, full):
            txt = render_expr(t, 0)
            if ty == "i":
                body = f"return {txt};"
            else:
                body = f"{txt}; return 0;"
            out.append((expr_sig(t), body))
    return out


# ---------------------------------------------------------------------------
# typed statements
# ---------------------------------------------------------------------------
class _Ctr:
    def __init__(self):
        self.case = 0
        self.var = 0
        self.label = 0


def _leaf_stmts(in_loop, in_switch, full):
    s = [("expr", "a = b;"), ("empty", ";"), ("ret", "return a;"), ("goto", "goto L0;")]
    if full:
        s += [("call", "g(a);"), ("comma", "a++, b--;"), ("clit", "(int){1};"), ("post", "a++;")]
    if in_loop or in_switch:
        s.append(("break", "break;"))
    if in_loop:
        s.append(("continue", "continue;"))
    return s


# '\xa7' starts a new naming unit (fresh number for the '@' that follow)
DECL_ITEMS = [
    ("decl", "\xa7int x@ = a;"),
    ("decl2", "\xa7int *y@ = &a, z@[2] = {1, 2};"),
    ("decl-struct", "\xa7struct S w@ = {.m = a, .n = 2};"),
    ("decl-static", "\xa7static int u@;"),
    ("decl-idx", "\xa7int e@[3] = {[K1] = 2, [0] = 1};"),
    ("sassert", "_Static_assert(1, \"m\");"),
    ("decl-fnptr", "\xa7int (*h@)(int) = g;"),
    ("decl-tag2", "\xa7struct P@ { int f; } k@, *l@;"),
    ("decl-qual", "\xa7const volatile int cv@ = 1;"),
    ("decl-align", "\xa7_Alignas(16) int al@;"),
    ("typedef", "\xa7typedef int *TP@; TP@ tp@ = p;"),
]


def stmts(depth, in_loop=False, in_switch=False, full=True, _memo={}):
    """All typed statement templates of nesting depth <= depth: list of
    (sig, text-with-@-placeholders).  '@' is replaced by a per-occurrence
    counter, 'CASE@' likewise, so that names/case values never clash."""
    key = (depth, in_loop, in_switch, full)
    if key in _memo:
        return _memo[key]
    out = list(_leaf_stmts(in_loop, in_switch, full))
    if in_switch:
        pass
    if depth > 0:
        sub = stmts(depth - 1, in_loop, in_switch, full)
        subl = stmts(depth - 1, True, in_switch, full)
        subs = stmts(depth - 1, in_loop, True, full)
        decls = DECL_ITEMS if full else DECL_ITEMS[:3]
        out.append(("block0", "{ }"))
        for sg, t in sub:
            out.append((f"block({sg})", "{ " + t + " }"))
            out.append((f"if({sg})", f"if (a < b) {t}"))
            out.append((f"label({sg})", f"\xa7M@: {t}"))
            out.append((f"ifelse-dangling({sg})", "if (a) { if (b) " + t + " } else c = 1;"))
        for sg, t in subl:
            out.append((f"while({sg})", f"while (a < b) {t}"))
            out.append((f"do({sg})", f"do {t} while (a < b);"))
            out.append((f"for({sg})", f"for (a = 0; a < b; a++) {t}"))
            out.append((f"fordecl({sg})", f"\xa7for (int i@ = 0, *j@ = p; i@ < b; i@++) {t}"))
            if full:
                out.append((f"for0({sg})", f"for (;;) {t}"))
        for sg, t in subs:
            out.append((f"switch-case({sg})", "switch (a) { case #: " + t + " }"))
            out.append((f"switch-bare({sg})", "switch (a) case #: " + t))
            out.append((f"switch-chain({sg})", "switch (a) { case #: case #: " + t + " case #: b = 1; break; }"))
            out.append((f"switch-fall({sg})", "switch (a) { case #: c = 1; " + t + " case #: d = 2; }"))
            # three stacked labels followed by several statements
            out.append((f"switch-chain3({sg})", "switch (a) { case #: case #: case #: " + t + " d = 2; c = 3; break; case #: c = 1; }"))
        for sg, t in sub:
            if "case" not in sg and "default" not in sg:
                out.append((f"switch-default({sg})", "switch (a) { case #: c = 1; default: case #: " + t + " }"))
        if in_switch:
            for sg, t in sub:
                out.append((f"case({sg})", f"case #: {t}"))
        # pairs
        small = stmts(0, in_loop, in_switch, False)
        for (sg1, t1), (sg2, t2) in itertools.product(sub if depth == 1 else small, small):
            out.append((f"block({sg1};{sg2})", "{ " + t1 + " " + t2 + " }"))
            out.append((f"ifelse({sg1};{sg2})", f"if (a < b) {t1} else {t2}"))
        for dsg, d in decls:
            for sg, t in (sub if depth == 1 else small):
                out.append((f"block({dsg};{sg})", "{ " + d + " " + t + " }"))
                out.append((f"block({sg};{dsg})", "{ " + t + " " + d + " }"))
    # 'default' twice in one switch would be an error: templates above use at most one
    _memo[key] = out
    return out


def instantiate(template):
    """Replace '@' (number of the current naming unit, started by '\xa7') and
    '#' (fresh case constant)."""
    out = []
    n = 0
    c = 0
    stack = []
    for ch in template:
        if ch == "\xa7":
            n += 1
            stack.append(n)
        elif ch == "@":
            out.append(str(stack[-1]))
        elif ch == "#":
            c += 1
            out.append(str(c))
        else:
            out.append(ch)
    return "".join(out)


def stmt_functions(depth, full):
    out = []
    for sg, t in stmts(depth, False, False, full):
        body = instantiate(t)
        # 'M@:' labels and 'goto L0' need L0 to exist
        out.append((sg, body + " L0: return 0;"))
    return out


# ---------------------------------------------------------------------------
# typed declarations (file scope): derivation sequences
# ---------------------------------------------------------------------------
DERIV = {
    "P": ("ptr", ""), "Pc": ("ptr", "const"), "Pv": ("ptr", "volatile"),
    "A2": ("arr", "2"), "A3": ("arr", "3"), "FV": ("fn", "void"), "FI": ("fn", "int, char"),
    "FP": ("fn", "int *x, T y"),
}


def valid_seq(seq):
    """seq lists derivations from the declared name outwards."""
    for i, d in enumerate(seq):
        k = DERIV[d][0]
        if i + 1 < len(seq):
            nk = DERIV[seq[i + 1]][0]
            if k == "fn" and nk in ("fn", "arr"):
                return False
            if k == "arr" and nk == "fn":
                return False
    return True


def render_declarator(name, seq):
    """C99 6.7.5 inside-out rule."""
    s = name
    for i, d in enumerate(seq):
        k, arg = DERIV[d]
        if k == "arr":
            s = f"{s}[{arg}]"
        elif k == "fn":
            s = f"{s}({arg})"
        else:
            s = "*" + (arg + " " if arg else "") + s
            if i + 1 < len(seq) and DERIV[seq[i + 1]][0] in ("arr", "fn"):
                s = "(" + s + ")"
    return s


def use_chain(name, seq):
    """Expressions whose sizeof exposes every level of the declared type."""
    uses = []
    e = name
    for d in seq:
        k, arg = DERIV[d]
        if k == "fn":
            args = {"void": "", "int, char": "0, 0", "int *x, T y": "0, 0"}[arg]
            e = f"({e})({args})"
        else:
            uses.append(f"sizeof ({e})")
            e = f"*({e})"
    uses.append(f"sizeof ({e})")
    return uses


def decl_items(maxlen, full):
    """File-scope items: (sig, text).  Each declares an entity and a companion
    array of sizeofs that exposes every derivation level to the compiler."""
    out = []
    keys = list(DERIV) if full else ["P", "Pc", "A2", "FV", "FI"]
    bases = ["int", "struct S", "unsigned long", "T"] if full else ["int", "struct S"]
    n = 0
    for L in range(0, maxlen + 1):
        for seq in itertools.product(keys, repeat=L):
            if not valid_seq(seq):
                continue
            for base in bases:
                n += 1
                name = f"x{n}"
                d = render_declarator(name, seq)
                top_fn = bool(seq) and DERIV[seq[0]][0] == "fn"
                uses = use_chain(name, seq)
                if top_fn:
                    uses = uses[0:0] + [u for u in uses]
                    # a function designator has no size: start from the call
                    text = f"{base} {d};\n"
                else:
                    text = f"{base} {d};\n"
                text += f"unsigned long k{n}[] = {{ {', '.join(uses)} }};\n"
                out.append(("decl:" + base.split()[0] + ":" + "-".join(DERIV[x][0] for x in seq), text))
    return out


EXTRA_DECLS = [
    ("spec-order", "static const int so1 = 1; const static int so2 = 2; int static const so3 = 3;"),
    ("align-file", "_Alignas(16) int al1; _Alignas(8) _Alignas(32) int al2; _Alignas(long) char al3;"),
    ("tag-two-declarators", "struct TT { int f; char g; } tt1, *tt2;"),
    ("enum-values", "enum EE { E0 = 3, E1, E2 = E0 + 5, } ee1 = E2;"),
    ("bitfields", "struct BF { int a : 3; unsigned : 2; int b : 5; int : 0; int c; } bf1 = {1, 2, 3};"),
    ("anon-members", "struct AN { union { int i; float f; }; struct { char c; }; int z; } an1 = { .i = 1, .c = 2, .z = 3 };"),
    ("union", "union UU { int i; char c[8]; } uu1 = { .c = {1, 2} };"),
    ("designated-nested", "struct S ds1[3] = { [1].m = 2, [2] = { .n = 3 }, [0] = {1, 2} };"),
    ("array-designator-enum", "int ad1[4] = { [K1] = 2, [K2] = 3 };"),
    ("string-init", "char st1[] = \"ab\" \"cd\"; const char *st2 = \"x\\ty\";"),
    ("string-concat-after-hex-escape", "char he1[] = \"\\x1\" \"2\"; char he2[] = \"\\1\" \"2\"; char he3[] = \"a\\x41\" \"bc\";"),
    ("fn-ptr-array", "int (*fpa1[2])(int) = { g, g };"),
    ("fn-returning-ptr-to-array", "int (*frp1(int x))[4] { return &v; }"),
    ("thread-local", "_Thread_local int tl1; static _Thread_local int tl2 = 2;"),
    ("noreturn-inline", "static inline int in1(int x) { return x; } _Noreturn void nr1(void);"),
    ("atomic", "_Atomic int at1; _Atomic(int) at2; int * _Atomic at3; _Atomic(int *) at4;"),
    ("atomic-derived-multi", "_Atomic(int *) at5, at6, *at7; struct AT { _Atomic(int *) h, t; const _Atomic(char *) u, v[2]; } at8; typedef _Atomic(int (*)(void)) AF1, AF2; AF2 at9;"),
    ("atomic-derived-multi-quals", "const _Atomic(int *) at10 = 0, at11 = 0; _Atomic(const int *) at12, at13; int atf(void) { at12 = 0; at13 = 0; return sizeof(at11) + sizeof(at13); }"),
    ("suffix-runs", "int cube[2][3][4]; int (*pcube)[2][3][4]; int (*ftab[2][3][4])(int); unsigned long zc1 = sizeof(cube), zc2 = sizeof(*pcube), zc3 = sizeof(ftab), zc4 = sizeof(int (*)[5][6][7]), zc5 = sizeof(cube[0]), zc6 = sizeof(cube[0][0]);"),
    ("switch-items-before-first-case", "int sw1(int x) { switch (x) { int tmp; case 1: tmp = 1; x = tmp; break; default: tmp = 2; x = tmp + 1; } return x; } int sw2(int x) { switch (x) { again: case 0: x++; if (x < 3) goto again; break; case 7: x = 1; } return x; }"),
    ("designated-comma-values", "struct DP { int a, b; }; int dcv(int x) { struct DP p = { .a = (x++, x), 7 }; int v[3] = { [1] = (x, 2), 3 }; return p.a + p.b * 10 + v[1] * 100 + v[2] * 1000; }"),
    ("alignas-several", "_Alignas(4) _Alignas(16) char ca16; struct AS { char pad; _Alignas(2) _Alignas(8) char m; } sas; unsigned long zas = sizeof(struct AS) + _Alignof(struct AS);"),
    ("const-ptr-chain", "const int * const * volatile cp1;"),
    ("extern-array", "extern int ea1[]; int ea1[5];"),
    ("kr-def", "int kr1(x, y) int x; char y; { return x + y; }"),
    ("variadic", "int va1(int n, ...) { return n; }"),
    ("compound-literal-file", "int *cl1 = (int[]){1, 2, 3};"),
    ("sizeof-expr-array", "int se1[sizeof(int) * 2 + 1]; int se2[sizeof se1 / sizeof se1[0]];"),
    ("ternary-const", "int tc1 = 1 ? 2 : 3 ? 4 : 5;"),
    ("cast-chain", "long cc1 = (long)(int)(char)300; int cc2 = (int)-1 + (unsigned char)~0;"),
    ("float-consts", "double fc1 = 1.5e3 + 0x1.8p1 + .5f + 2.L; float fc2 = 1e-3f;"),
    ("char-consts", "int ch1 = 'a' + '\\n' + '\\x41' + '\\101'; int ch2 = L'a';"),
    ("int-suffixes", "unsigned long long is1 = 1ULL + 2lu + 3LL + 0x10u + 077l + 0b11;"),
    ("neg-shift-prec", "int ns1 = 1 << 2 + 3; int ns2 = (1 << 2) + 3; int ns3 = 1 - 2 - 3; int ns4 = 1 - (2 - 3);"),
    ("struct-ptr-fn", "struct S *(*sp1)(struct S *, int (*)(void));"),
]


def _string_prefix_runs():
    """Adjacent string literals where one encoding prefix occurs in some
    positions and the others are narrow (C11 6.4.5p5: the whole run takes the
    prefix): every arrangement of 2 and 3 pieces per prefix.  Observed through
    the data gcc emits and through sizeof."""
    import itertools

    out = []
    k = 0
    for pre in ("L", "u", "U", "u8"):
        for n in (2, 3):
            for mask in itertools.product((False, True), repeat=n):
                if not any(mask):
                    continue
                k += 1
                run = " ".join((pre if m else "") + '"' + "abc"[i] + '"' for i, m in enumerate(mask))
                tag = pre + ":" + "".join("P" if m else "n" for m in mask)
                out.append((f"string-prefix-run:{tag}",
                            f"const void *spr{k} = {run}; unsigned long spz{k} = sizeof({run});"))
    return out


EXTRA_DECLS += _string_prefix_runs()


def flat_chains():
    """Unparenthesised chains a OP1 b OP2 c OP3 d over one operator per
    precedence level (all 1000 triples): the grouping is decided by precedence
    and associativity alone."""
    out = []
    for o1 in BIN_REPR:
        for o2 in BIN_REPR:
            for o3 in BIN_REPR:
                out.append((f"chain:{BIN_LEVEL[o1]}-{BIN_LEVEL[o2]}-{BIN_LEVEL[o3]}",
                            f"return a {o1} b {o2} c {o3} d;"))
    # assignment chains with mixed operators, conditional chains
    for o1 in ("=", "+=", "<<="):
        for o2 in ("=", "-=", "|="):
            out.append((f"asgchain:{o1}:{o2}", f"a {o1} b {o2} c; return a;"))
    out.append(("condchain", "return a ? b : c ? d : a ? b : c;"))
    out.append(("condchain2", "return a ? b ? c : d : a;"))
    return out


# whole translation units that must not be re-laid out (directives): compared
# one by one, original text as is
PRAGMA_TUS = [
    ("pragma-weak-last-line-no-newline", "int wk(void) { return 1; }\nint user(void) { return wk(); }\n#pragma weak wk"),
    ("pragma-weak-with-newline", "int wk(void) { return 1; }\n#pragma weak wk\nint user(void) { return wk(); }\n"),
    ("pragma-pack", "#pragma pack(1)\nstruct PK { char c; int i; } pk = { 1, 2 };\n#pragma pack()\nstruct NP { char c; int i; } np = { 1, 2 };\nunsigned long sz[] = { sizeof(struct PK), sizeof(struct NP) };\n"),
    ("pragma-pack-operator", "_Pragma(\"pack(1)\")\nstruct PK2 { char c; int i; } pk2 = { 1, 2 };\nunsigned long sz2 = sizeof(struct PK2);\n"),
    ("pragma-in-function", "int f(int n) { int s = 0;\n#pragma GCC unroll 4\n for (int i = 0; i < n; i++) s += i; return s; }\n"),
    ("pragma-in-struct", "struct PS { char c;\n#pragma pack(1)\n int i; } ps;\n#pragma pack()\nunsigned long sz3 = sizeof(struct PS);\n"),
    ("line-directives", "int a1;\n#line 100 \"x.h\"\nint a2 = 2;\n# 7 \"y.h\" 1\nint a3(void) { return a2; }\n"),
]

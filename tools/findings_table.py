#!/venv/bin/python
"""Rewrites the findings table of DESIGN.md (between the FINDINGS markers)
from /verif/known_findings.json."""
import json, re

d = json.load(open("/verif/known_findings.json"))["findings"]
rows = []
for f in d:
    ex = f["example"].replace("\n", "\\n").replace("|", "\\|")
    if len(ex) > 70:
        ex = ex[:67] + "..."
    what = f["what"].replace("|", "/").replace("\n", " ")
    st = "**open**" if f["status"] == "open" else "fixed " + str(f.get("commit"))
    rows.append(f"| {f['property']} | `{ex}` | {what} | {st} |")
nfix = sum(1 for f in d if f["status"] == "fixed")
nopen = sum(1 for f in d if f["status"] == "open")
commits = sorted({f.get("commit") for f in d if f["status"] == "fixed"})
tbl = ["<!-- FINDINGS:BEGIN -->",
       f"{nfix} entries repaired by {len(commits)} `fix:` commits in /repo (suite unedited, 135 passed after each), {nopen} open known findings.",
       "",
       "| check | minimal failing input | what fails | handling |",
       "|-------|-----------------------|------------|----------|"] + rows + ["<!-- FINDINGS:END -->"]
p = "/verif/DESIGN.md"
s = open(p).read()
if "<!-- FINDINGS:BEGIN -->" in s:
    s = re.sub(r"<!-- FINDINGS:BEGIN -->.*<!-- FINDINGS:END -->", lambda m: "\n".join(tbl), s, flags=re.S)
else:
    a = s.index("28 genuine defects were repaired")
    b = s.index("### 13.5")
    s = s[:a] + "\n".join(tbl) + "\n\n" + s[b:]
open(p, "w").write(s)
print(nfix, "fixed,", nopen, "open,", len(commits), "commits")

#!/venv/bin/python
"""Which lines of pycparser's parser / lexer / generator / transforms does the
shared program pool (quick tier) never execute?  Seeded changes usually hide on
a branch no pool program takes: run this after changing the pool models, read
the function lines it lists (error paths and class bodies are expected there),
and add an accepted program for every reachable non-error branch to
models/pool_adapters.py EXTRA.  Not a check: it decides nothing."""
import sys, os, types, json, time
sys.path.insert(0,'/verif'); sys.path.insert(0,'/repo')
os.environ.setdefault('VERIF_NPROC','8')
from mc import core
core.bootstrap()
from mc import progpool
import pycparser
from pycparser import c_parser, c_lexer, c_generator, ast_transforms, c_ast
FILES={m.__file__ for m in (c_parser,c_lexer,c_generator,ast_transforms)}
def all_lines(mod):
    src=open(mod.__file__).read()
    code=compile(src,mod.__file__,'exec')
    out=set()
    def walk(co):
        for _,_,ln in co.co_lines():
            if ln: out.add(ln)
        for c in co.co_consts:
            if isinstance(c,types.CodeType): walk(c)
    walk(code); return out
hit={f:set() for f in FILES}
def tracer(frame,event,arg):
    f=frame.f_code.co_filename
    if f not in hit: return None
    def local(frame,event,arg):
        if event=='line': hit[f].add(frame.f_lineno)
        return local
    hit[f].add(frame.f_lineno)
    return local
pool=progpool.build_pool('quick')
print('pool',len(pool),file=sys.stderr)
from pycparser.c_parser import CParser
from pycparser.c_generator import CGenerator
t=time.time()
sys.settrace(tracer)
for i,(o,text) in enumerate(pool):
    try:
        a=CParser().parse(text,'f.c')
        CGenerator().visit(a); CGenerator(reduce_parentheses=True).visit(a)
    except Exception as e:
        pass
sys.settrace(None)
print('time',time.time()-t,file=sys.stderr)
res={}
for m in (c_parser,c_lexer,c_generator,ast_transforms):
    al=all_lines(m); miss=sorted(al-hit[m.__file__])
    res[os.path.basename(m.__file__)]=miss
    print(os.path.basename(m.__file__),'lines',len(al),'missed',len(miss))
json.dump(res,open('/tmp/cov_miss.json','w'))

# ---- report ----
miss=json.load(open('/tmp/cov_miss.json'))
for fn,ms in miss.items():
    path='/repo/pycparser/'+fn
    src=open(path).read().split('\n')
    code=compile(open(path).read(),path,'exec')
    inner={}
    def walk(co,top):
        for c in co.co_consts:
            if isinstance(c,types.CodeType):
                for _,_,ln in c.co_lines():
                    if ln: inner.setdefault(ln,c.co_qualname)
                walk(c,False)
    walk(code,True)
    ms=[l for l in ms if l in inner]
    print('=====',fn,len(ms))
    last=None
    for l in ms:
        q=inner[l]
        if q!=last: print('  --',q); last=q
        print('    %d: %s'%(l,src[l-1].strip()[:110]))

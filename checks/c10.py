"""C10 - literals are accepted iff well-formed and classified by their spelling.

(A) every string <= L over the 17-character literal alphabet, lexed alone,
    followed by a blank and followed by ';', judged by the three-valued
    reference lexer (models/lexref.py);
(B) tables: integer bodies x every suffix spelling (legal and illegal), float
    bodies x suffixes, every escape body in character constants and string
    literals with each prefix, multi-character constants over {a u l}, universal
    character names;
(D) every run of 1-3 adjacent string literals over {narrow, L, u, U, u8} x
    bodies with escapes at the seams, as initializer / call argument /
    _Static_assert message: the Constant carries the first prefix that occurs
    (whole) and the bodies in order;
(E) every literal kind (each table integer / float the reference accepts,
    character constants and strings with each prefix) in every expression
    position (initialisers, array bounds, constant expressions, statement
    starts, conditions, for clauses, operands of every operator): accepted,
    and the Constant has the same type and spelling everywhere;
(C) every MUST-ACCEPT literal of (A) and (B) through CParser.parse:
    Constant.value == spelling, Constant.type == the type the suffix / prefix
    implies.
"""
from __future__ import annotations

import itertools

from mc import core
from pycparser import c_lexer, c_parser  # noqa: F401  (imported before the pool forks)
from mc.lexrun import run_lexer
from models import lexref, lexvocab

PID = "C10"
BS = chr(92)
ALPHABET = lexvocab.C10_ALPHABET
SUFFIXES = ["", " ", ";"]
# appending a blank or ';' cannot change how the reference scans s when the
# last item is one of these (checked exhaustively for all strings <= 5 while
# developing; quoted literals that are still open are rescanned)
_STABLE_WHY = {"pp-number", "bad-octal", "illegal-char", "comment"}


def expected_constant_type(tok_type, spelling):
    if tok_type in lexref.INT_TYPES:
        return lexref.integer_type_words(spelling)
    if tok_type in lexref.FLOAT_TYPES:
        return lexref.floating_type_words(spelling)
    if tok_type == "INT_CONST_CHAR":
        return "int"
    if tok_type.endswith("CHAR_CONST"):
        return "char"
    if tok_type.endswith("STRING_LITERAL"):
        return "string"
    raise ValueError(tok_type)


import re as _re

_UNI_DIGIT_ESCAPE = _re.compile(r"\\[0-9]+[^\x00-\x7f]")


def _unicode_digit_escape(text):
    """A backslash-digits escape directly followed by a non-ASCII decimal digit
    inside a character constant (separately signed)."""
    m = _UNI_DIGIT_ESCAPE.search(text)
    return m is not None and m.group(0)[-1].isdigit() and "'" in text[:m.start()]


def _ucn_char(it):
    """A character constant (single or multi-character) containing a UCN."""
    return it.why == "ucn" and it.type is not None and not it.type.endswith("STRING_LITERAL")


def judge_text(text, items=None):
    """Run the real lexer on text and judge it. -> (fails, items, toks, errs)."""
    r = run_lexer(text, "")
    if items is None:
        items = lexref.scan(text)
    if r.exc is not None:
        return [("lexer:exception:" + r.exc,
                 f"{text!r}: {r.exc_repr} after {len(r.toks)} tokens")], items, [], []
    if not r.terminated:
        return [("no-termination", f"{r.calls} calls")], items, [], []
    if "\n" in text:
        from mc.lexrun import line_starts
        ls = line_starts(text)
        toks = [(t[0], t[1], ls[t[2] - 1] + t[3] - 1) for t in r.toks]
        errs = [ls[e[1] - 1] + e[2] - 1 for e in r.errs]
    else:
        toks = [(t[0], t[1], t[3] - 1) for t in r.toks]
        errs = [e[2] - 1 for e in r.errs]
    fails = lexref.judge(text, toks, errs, items=items)
    if fails:
        k = 0
        while k < len(items) and items[k].verdict == lexref.ACCEPT:
            k += 1
        cand = items[: k + 1]
        if any(_ucn_char(it) for it in cand):
            # separately signed: universal character name in a character constant
            fails = [("ucn-in-char-const", fails[0][1])]
        elif _unicode_digit_escape(text):
            fails = [("unicode-digit-in-decimal-escape", fails[0][1])]
    return fails, items, toks, errs


def parser_robust(spelling):
    """Whatever single literal token the lexer makes of a string, the parser
    must answer with a FileAST or a ParseError."""
    out = core.parse_outcome("int x = " + spelling + ";")
    if out[0] == "exc":
        return [("parser:exception:" + out[1].split("@")[0], f"{spelling!r}: {out[1]} {out[2]}")]
    return []


def parser_check(spelling, tok_type):
    """The Constant node built from a MUST-ACCEPT literal."""
    from pycparser import c_ast

    text = "int x = " + spelling + ";"
    out = core.parse_outcome(text)
    if out[0] == "exc":
        return [("parser:exception:" + out[1].split("@")[0], f"{spelling!r}: {out[1]} {out[2]}")]
    if out[0] != "ok":
        return [(f"{tok_type}:parser-rejects", str(out[1:])[:200])]
    try:
        node = out[1].ext[0].init
    except Exception as e:  # noqa
        return [(f"{tok_type}:no-constant", repr(e))]
    if not isinstance(node, c_ast.Constant):
        return [(f"{tok_type}:no-constant", type(node).__name__)]
    fails = []
    if node.value != spelling:
        fails.append((f"{tok_type}:constant-value", f"spelling {spelling!r} value {node.value!r}"))
    want = expected_constant_type(tok_type, spelling)
    if node.type != want:
        fails.append((f"{tok_type}:constant-type",
                      f"{spelling!r}: Constant.type {node.type!r}, suffix/prefix implies {want!r}"))
    return fails


def _is_literalish(it):
    if it.verdict == lexref.ACCEPT:
        return it.type in lexref.LITERAL_TYPES
    return it.why not in ("illegal-char", "hash", "non-ascii")


def _account(items, hist):
    for it in items:
        k = (it.verdict + ":" + (it.type or it.why))
        hist[k] = hist.get(k, 0) + 1


def _judge_variants(s, hist, acc, parse=True):
    """Judge s alone / + blank / + ';' (and the parser part)."""
    items = lexref.scan(s)
    _account(items, hist)
    if any(_is_literalish(it) for it in items):
        acc["nontrivial"] += 1
    for suf in SUFFIXES:
        t = s + suf
        if suf == "":
            its = items
        elif items and (items[-1].verdict == lexref.ACCEPT or items[-1].why in _STABLE_WHY):
            its = items if suf == " " else items + [
                lexref.Item(lexref.ACCEPT, "SEMI", ";", len(s), len(s) + 1)]
        else:
            its = None
        fl, _, toks, errs = judge_text(t, its)
        acc["lexed"] += 1
        for sig, det in fl:
            _record(acc, sig, {"text": t}, det)
        if suf == "":
            one_literal = (len(toks) == 1 and not errs and toks[0][0] in lexref.LITERAL_TYPES
                           and toks[0][1] == s)
    must_accept = (len(items) == 1 and items[0].verdict == lexref.ACCEPT
                   and items[0].type in lexref.LITERAL_TYPES and items[0].start == 0
                   and items[0].end == len(s))
    if parse and one_literal and not must_accept:
        # not a MUST-ACCEPT literal, but the lexer made exactly one literal
        # token of it: the parser must still answer FileAST or ParseError
        acc["parsed_any"] += 1
        for sig, det in parser_robust(s):
            _record(acc, sig, {"text": s, "parser": "robust"}, det)
    if parse and len(items) == 1 and items[0].verdict == lexref.ACCEPT \
            and items[0].type in lexref.LITERAL_TYPES and items[0].start == 0 \
            and items[0].end == len(s):
        acc["parsed"] += 1
        acc["ctypes"].add(expected_constant_type(items[0].type, s))
        for sig, det in parser_check(s, items[0].type):
            if _ucn_char(items[0]):
                sig = "ucn-in-char-const"
            elif _unicode_digit_escape(s):
                sig = "unicode-digit-in-decimal-escape"
            _record(acc, sig, {"text": s, "parser": True, "type": items[0].type}, det)


def _record(acc, sig, case, det):
    if sig not in acc["sigs"] or len(acc["fails"]) < 30:
        acc["fails"].append((sig, case, det))
    acc["sigs"].add(sig)


def _new_acc():
    return {"nontrivial": 0, "lexed": 0, "parsed": 0, "parsed_any": 0, "strings": 0, "fails": [],
            "sigs": set(), "ctypes": set()}


def _charex_work(task):
    prefix, L = task
    acc = _new_acc()
    hist = {}
    s0 = (lexref.STATS["chars"], lexref.STATS["items"], lexref.STATS["scans"])
    for l in range(0, L - len(prefix) + 1):
        for rest in itertools.product(ALPHABET, repeat=l):
            s = prefix + "".join(rest)
            if not s:
                continue
            acc["strings"] += 1
            _judge_variants(s, hist, acc)
    return _fin(acc, hist, s0)


def _fin(acc, hist, s0):
    acc["hist"] = hist
    acc["ref_chars"] = lexref.STATS["chars"] - s0[0]
    acc["ref_items"] = lexref.STATS["items"] - s0[1]
    acc["ref_scans"] = lexref.STATS["scans"] - s0[2]
    del acc["sigs"]
    return acc


# ---------------------------------------------------------------------------
# (B) tables
# ---------------------------------------------------------------------------
PREFIXES = ["", "L", "u8", "u", "U"]


def escape_bodies():
    out = []
    for c in range(0x20, 0x7F):
        out.append(BS + chr(c))
    for l in (1, 2, 3):
        for h in itertools.product("09aF", repeat=l):
            out.append(BS + "x" + "".join(h))
    for l in (1, 2, 3, 4):
        for o in itertools.product("0178", repeat=l):
            out.append(BS + "".join(o))
    # universal character names (explicit table: outside the length bound of A)
    out += [BS + "u00e9", BS + "u00E9", BS + "U000000e9", BS + "u00e", BS + "U00e9",
            BS + "u0000", BS + "ud800", BS + "u0024"]
    return out


# non-ASCII characters that Python's \d / \w / str.isdigit / str.isalpha
# accept: decimal digits of other scripts and other "alphanumerics"
NON_ASCII = [chr(0x0663), chr(0x0968), chr(0xFF15), chr(0x1D7D3), chr(0x00B2), chr(0x00E9),
             chr(0x2160)]


def non_ascii_family():
    """Every well-formed numeric literal of the tables (and escapes in
    character / string literals, identifiers, #line numbers) with ONE digit or
    letter position replaced by a non-ASCII digit / alphanumeric.  Such a
    spelling is not a well-formed literal of that kind for the reference: it
    may be split or reported, never returned as one literal token."""
    templates = []
    for b in lexvocab.INT_BODIES:
        for suf in lexvocab.INT_SUFFIXES:
            templates.append(b + suf)
    for b in lexvocab.FLOAT_BODIES + ["2.5e-12", "0x1p5", ".5e3f", "1e3"]:
        for suf in lexvocab.FLOAT_SUFFIXES:
            templates.append(b + suf)
    for p in PREFIXES:
        for q in ("'", '"'):
            templates += [p + q + BS + "x41" + q, p + q + BS + "101" + q, p + q + BS + "0" + q]
    templates += ["x3", "e1", "a", "_1", "# 3", "#line 13 " + '"f"', "# 1 " + '"f" 3']
    out = []
    seen = set()
    for t in templates:
        if lexref.classify(t)[0] != lexref.ACCEPT and not t.startswith("#"):
            continue
        for i, ch in enumerate(t):
            if not (ch.isdigit() or ch.isalpha()):
                continue
            for r in NON_ASCII:
                sp = t[:i] + r + t[i + 1:]
                if sp not in seen:
                    seen.add(sp)
                    out.append(("non-ascii", sp))
        for r in NON_ASCII:           # and appended / prepended
            for sp in (t + r, r + t):
                if sp not in seen:
                    seen.add(sp)
                    out.append(("non-ascii", sp))
    return out


LONG_LENGTHS = [4094, 4095, 4096, 4097, 5000, 70000]


def long_string_family():
    """Well-formed string literals with very long bodies, for each prefix:
    plain characters and escapes-only bodies (MUST-ACCEPT: one token, one
    Constant with the exact spelling)."""
    out = []
    for p in PREFIXES:
        for n in LONG_LENGTHS:
            out.append(("long-string", p + '"' + "a" * n + '"'))
            out.append(("long-string", p + '"' + "ab c" * (n // 4) + "d" * (n % 4) + '"'))
        for n in (1364, 1365, 1366, 1367, 5000, 70000):
            out.append(("long-string", p + '"' + (BS + "x41") * n + '"'))
            out.append(("long-string", p + '"' + (BS + "101") * n + '"'))
            out.append(("long-string", p + '"' + (BS + "n") * n + '"'))
    return out


def table_literals():
    lits = []
    for b in lexvocab.INT_BODIES:
        for s in lexvocab.INT_SUFFIXES + lexvocab.BAD_INT_SUFFIXES:
            lits.append(("int", b + s))
    for b in lexvocab.FLOAT_BODIES:
        for s in lexvocab.FLOAT_SUFFIXES + lexvocab.BAD_FLOAT_SUFFIXES:
            lits.append(("float", b + s))
    for e in escape_bodies():
        for p in PREFIXES:
            for q in ("'", '"'):
                for body in (e, e + "a", "a" + e):
                    lits.append(("escape", p + q + body + q))
    for l in (1, 2, 3, 4, 5):
        for m in itertools.product("aul", repeat=l):
            lits.append(("multichar", "'" + "".join(m) + "'"))
            if l <= 2:
                for p in PREFIXES[1:]:
                    lits.append(("multichar", p + "'" + "".join(m) + "'"))
    lits += non_ascii_family()
    # comments (a compatible preprocessor removes them; the lexer must report)
    for t in ("/*", "//", "/**/", "a/*b*/", "1//2", "1/ /2", "/ *", "'/*'", '"//"'):
        lits.append(("comment", t))
    return lits


def _table_work(chunk):
    acc = _new_acc()
    hist = {}
    s0 = (lexref.STATS["chars"], lexref.STATS["items"], lexref.STATS["scans"])
    for _, s in chunk:
        acc["strings"] += 1
        _judge_variants(s, hist, acc)
    return _fin(acc, hist, s0)


# ---------------------------------------------------------------------------
# (D) runs of adjacent string literals (translation phase 6)
# ---------------------------------------------------------------------------
RUN_BODIES = ["a", "", "x" + BS + '"', BS + '"y', BS + BS, "8z", BS + "1"]
RUN_CONTEXTS = {
    "initializer": ("char *s = ", ";", lambda ast: ast.ext[0].init),
    "argument": ("int x = f(", ");", lambda ast: ast.ext[0].init.args.exprs[0]),
    "static-assert": ("_Static_assert(1, ", ");", lambda ast: ast.ext[0].message),
}


def string_runs():
    """Every run of 1..3 string literals over the five kinds x RUN_BODIES.
    -> (list of (prefix, body), unambiguous?) ; a run with two DIFFERENT
    encoding prefixes is outside what C defines (C11 6.4.5p5: implementation-
    defined) and is only required not to crash."""
    lits = [(p, b) for p in PREFIXES for b in RUN_BODIES]
    for n in (1, 2, 3):
        for run in itertools.product(lits, repeat=n):
            yield run, len({p for p, _ in run if p}) <= 1


def check_string_run(run, unambiguous, ctx, sep):
    """The Constant built from a run carries the first prefix that occurs
    (whole prefix) and the bodies in order; type 'string'."""
    from pycparser import c_ast

    pre, post, pick = RUN_CONTEXTS[ctx]
    text = pre + sep.join(p + '"' + b + '"' for p, b in run) + post
    out = core.parse_outcome(text)
    if out[0] == "exc":
        return [("parser:exception:" + out[1].split("@")[0], f"{text!r}: {out[1]} {out[2]}")], text
    if not unambiguous:
        return [], text
    if out[0] != "ok":
        return [("STRING_RUN:parser-rejects", f"{text!r}: {out[1:]}"[:300])], text
    try:
        node = pick(out[1])
    except Exception as e:  # noqa
        node = e
    if not isinstance(node, c_ast.Constant):
        return [("STRING_RUN:no-constant", f"{text!r}: {node!r}"[:300])], text
    prefix = next((p for p, _ in run if p), "")
    want = prefix + '"' + "".join(b for _, b in run) + '"'
    fails = []
    if node.type != "string":
        fails.append(("STRING_RUN:constant-type", f"{text!r}: Constant.type {node.type!r}"))
    if node.value != want:
        got_prefix = node.value.partition('"')[0]
        clause = "prefix" if got_prefix != prefix else "body"
        fails.append((f"STRING_RUN:{clause}", f"{text!r}: Constant.value {node.value!r}, expected {want!r}"))
    return fails, text


def _runs_work(chunk):
    n = 0
    fails = []
    sigs = set()
    prefixes = set()
    for run, unamb in chunk:
        for ctx in RUN_CONTEXTS:
            for sep in (" ", ""):
                fl, text = check_string_run(run, unamb, ctx, sep)
                n += 1
                if unamb:
                    prefixes.add(next((p for p, _ in run if p), ""))
                for sig, det in fl:
                    if sig not in sigs or len(fails) < 20:
                        fails.append((sig, {"string_run": [list(x) for x in run], "context": ctx,
                                            "sep": sep, "unambiguous": unamb, "text": text}, det))
                    sigs.add(sig)
    return n, fails, prefixes


# ---------------------------------------------------------------------------
# (E) every literal kind in every expression position
# ---------------------------------------------------------------------------
# (name, class, template with @ for the literal, other constants in the
#  template, may the literal be a string here?)  A string literal is put only
# where an expression of pointer/array type may stand.
_F = "void f(void) { %s }"
POSITIONS = [
    ("initializer", "initializer", "int v = @;", (), True),
    ("brace-initializer", "initializer", "int v[] = { @ };", (), True),
    ("nested-brace-initializer", "initializer", "int v[][n] = { { a, @ } };", (), True),
    ("designated-initializer", "initializer", "struct S v = { .m = @ };", (), True),
    ("designator-index", "designator", "int v[n] = { [@] = a };", (), False),
    ("compound-literal", "initializer", _F % "p = (T){ @ };", (), True),
    ("array-bound", "array-bound", "int a[@];", (), False),
    ("array-bound-2d", "array-bound", "int a[n][@];", (), False),
    ("array-bound-parameter", "array-bound", "void g(int a[@]);", (), False),
    ("array-bound-abstract", "array-bound", "void g(int [@]);", (), False),
    ("array-bound-static", "array-bound", "void g(int a[static @]);", (), False),
    ("array-bound-qualified", "array-bound", "void g(int a[const @]);", (), False),
    ("array-bound-typename", "array-bound", "int v = sizeof(int [@]);", (), False),
    ("array-bound-member", "array-bound", "struct S { int m[@]; };", (), False),
    ("bit-field-width", "constant-expression", "struct S { int m : @; };", (), False),
    ("enumerator-value", "constant-expression", "enum E { K = @ };", (), False),
    ("case-label", "constant-expression", _F % "switch (a) { case @: ; }", (), False),
    ("alignas-argument", "constant-expression", "_Alignas(@) int v;", (), False),
    ("static-assert-condition", "constant-expression", '_Static_assert(@, "m");', (("string", '"m"'),), False),
    ("static-assert-message", "static-assert-message", "_Static_assert(a, @);", (), "only"),
    ("expression-statement", "statement-start", _F % "@;", (), True),
    ("statement-after-declaration", "statement-start", _F % "int y; @;", (), True),
    ("if-body", "statement-start", _F % "if (a) @;", (), True),
    ("else-body", "statement-start", _F % "if (a) ; else @;", (), True),
    ("while-body", "statement-start", _F % "while (a) @;", (), True),
    ("do-body", "statement-start", _F % "do @; while (a);", (), True),
    ("for-body", "statement-start", _F % "for (;;) @;", (), True),
    ("label-body", "statement-start", _F % "L: @;", (), True),
    ("case-body", "statement-start", _F % "switch (a) { case b: @; }", (), True),
    ("default-body", "statement-start", _F % "switch (a) { default: @; }", (), True),
    ("if-condition", "condition", _F % "if (@) ;", (), True),
    ("while-condition", "condition", _F % "while (@) ;", (), True),
    ("do-condition", "condition", _F % "do ; while (@);", (), True),
    ("switch-condition", "condition", _F % "switch (@) ;", (), False),
    ("for-clause-1", "for-clause", _F % "for (@;;) ;", (), True),
    ("for-clause-2", "for-clause", _F % "for (;@;) ;", (), True),
    ("for-clause-3", "for-clause", _F % "for (;;@) ;", (), True),
    ("return", "operand", _F % "return @;", (), True),
    ("argument", "operand", _F % "g(@);", (), True),
    ("second-argument", "operand", _F % "g(a, @);", (), True),
    ("subscript", "operand", _F % "a[@];", (), False),
    ("subscripted", "operand", _F % "@[a];", (), True),
    ("parenthesised", "operand", _F % "(@);", (), True),
    ("cast-operand", "operand", _F % "(T) @;", (), True),
    ("sizeof-operand", "operand", _F % "sizeof @;", (), True),
    ("sizeof-parenthesised", "operand", _F % "sizeof (@);", (), True),
    ("unary-minus", "operand", _F % "-@;", (), False),
    ("unary-plus", "operand", _F % "+@;", (), False),
    ("unary-not", "operand", _F % "~@;", (), False),
    ("unary-lnot", "operand", _F % "!@;", (), True),
    ("unary-deref", "operand", _F % "*@;", (), True),
    ("unary-address", "operand", _F % "&@;", (), True),
    ("assignment-rhs", "operand", _F % "a = @;", (), True),
    ("compound-assignment-rhs", "operand", _F % "a += @;", (), False),
    ("comma-left", "operand", _F % "@, a;", (), True),
    ("comma-right", "operand", _F % "a, @;", (), True),
    ("ternary-condition", "operand", _F % "@ ? a : b;", (), True),
    ("ternary-middle", "operand", _F % "a ? @ : b;", (), True),
    ("ternary-right", "operand", _F % "a ? b : @;", (), True),
]
for _op in ("*", "/", "%", "+", "-", "<<", ">>", "<", ">", "<=", ">=", "==", "!=", "&", "^", "|", "&&", "||"):
    POSITIONS.append((f"binary-left {_op}", "operand", _F % f"@ {_op} a;", (), _op in ("+", "-", "==", "!=", "&&", "||", "<", ">", "<=", ">=")))
    POSITIONS.append((f"binary-right {_op}", "operand", _F % f"a {_op} @;", (), _op in ("+", "==", "!=", "&&", "||", "<", ">", "<=", ">=")))
del _op

POSITION_PREFIX = "typedef int T; "


def position_literals():
    """One well-formed spelling per token type and suffix / prefix class (every
    table integer and float the reference accepts, character constants and
    string literals with each prefix)."""
    out = []
    for b in lexvocab.INT_BODIES:
        for suf in lexvocab.INT_SUFFIXES:
            out.append(b + suf)
    for b in lexvocab.FLOAT_BODIES:
        for suf in lexvocab.FLOAT_SUFFIXES:
            out.append(b + suf)
    for p in PREFIXES:
        out += [p + "'a'", p + "'" + BS + "n'", p + "'" + BS + "x41'", p + '"abc"', p + '""']
    out += ["'ab'", "'ul'", "'abcd'"]
    res = []
    for sp in out:
        v, t, _ = lexref.classify(sp)
        if v == lexref.ACCEPT and t in lexref.LITERAL_TYPES:
            res.append((sp, t))
    return res


def _constants(node, acc):
    from pycparser import c_ast

    if isinstance(node, c_ast.Constant):
        acc.append((node.type, node.value))
    if isinstance(node, c_ast.Node):
        for sl in node.__slots__:
            if sl not in ("coord", "__weakref__"):
                _constants(getattr(node, sl), acc)
    elif isinstance(node, (list, tuple)):
        for x in node:
            _constants(x, acc)


def check_position(spelling, tok_type, pos):
    name, cls, template, extra, _ = pos
    text = POSITION_PREFIX + template.replace("@", spelling)
    out = core.parse_outcome(text)
    if out[0] == "exc":
        return [("parser:exception:" + out[1].split("@")[0], f"{text!r}: {out[1]} {out[2]}")], text
    if out[0] != "ok":
        return [(f"{tok_type}:rejected@{cls}", f"{name}: {text!r}: {out[1:]}"[:300])], text
    got = []
    _constants(out[1], got)
    want = [(expected_constant_type(tok_type, spelling), spelling)] + list(extra)
    if sorted(got) != sorted(want):
        return [(f"{tok_type}:constant-differs@{cls}",
                 f"{name}: {text!r}: Constants {got!r}, expected {want!r}")], text
    return [], text


def _position_work(chunk):
    n = 0
    fails = []
    sigs = set()
    reached = set()
    for sp, t in chunk:
        is_str = t.endswith("STRING_LITERAL")
        for pos in POSITIONS:
            if (is_str and not pos[4]) or (not is_str and pos[4] == "only"):
                continue
            fl, text = check_position(sp, t, pos)
            n += 1
            reached.add((t, pos[1]))
            for sig, det in fl:
                if sig not in sigs or len(fails) < 20:
                    fails.append((sig, {"position": pos[0], "literal": sp, "type": t, "text": text}, det))
                sigs.add(sig)
    return n, fails, reached


# ---------------------------------------------------------------------------
def run(tier):
    R = core.Run(PID, tier, "model_checking")
    quick = tier == "quick"
    L = 5 if quick else 6
    hist = {}
    tot = {k: 0 for k in ("nontrivial", "lexed", "parsed", "parsed_any", "strings", "ref_chars",
                          "ref_items", "ref_scans")}
    ctypes = set()

    def merge(acc):
        for k in tot:
            tot[k] += acc[k]
        for k, v in acc["hist"].items():
            hist[k] = hist.get(k, 0) + v
        ctypes.update(acc["ctypes"])
        R.fail_many(acc["fails"])

    # (A): one task per 2-character prefix (+ the 1-character strings)
    tasks = [(a + b, L) for a in ALPHABET for b in ALPHABET]
    tasks += [(a, 1) for a in ALPHABET]
    for acc in core.pmap(_charex_work, tasks, chunksize=1):
        merge(acc)
    charex_strings = tot["strings"]
    # (B)
    table = table_literals()
    long_strings = long_string_family()
    # longest first, two per task (a 70 000-character literal costs seconds)
    long_strings.sort(key=lambda x: -len(x[1]))
    for acc in core.pmap(_table_work, core.chunked(long_strings, 2) + core.chunked(table, 400), chunksize=1):
        merge(acc)
    table = table + long_strings

    # (D)
    runs = list(string_runs())
    runs_n = 0
    run_prefixes = set()
    for n, fl, pf in core.pmap(_runs_work, core.chunked(runs, 500), chunksize=1):
        runs_n += n
        run_prefixes |= pf
        R.fail_many(fl)
    if runs_n != len(runs) * 6 or len(run_prefixes) != 5:
        R.fail("vacuous:string-runs", {"runs": runs_n, "prefixes": sorted(run_prefixes)},
               "string-run part not explored")

    # (E)
    plits = position_literals()
    pos_n = 0
    pos_reached = set()
    for n, fl, rc in core.pmap(_position_work, core.chunked(plits, 8), chunksize=1):
        pos_n += n
        pos_reached |= rc
        R.fail_many(fl)
    if pos_n < len(plits) * 30 or len({t for t, _ in pos_reached}) < 17 or \
            len({c for _, c in pos_reached}) < 8:
        R.fail("vacuous:positions", {"parses": pos_n}, "expression-position part not explored")

    # vacuity guards
    if charex_strings != sum(17 ** l for l in range(1, L + 1)):
        R.fail("vacuous:too-few-strings", {"strings": charex_strings}, "explored less than the stated bound")
    acc_types = {k.split(":", 1)[1] for k in hist if k.startswith("accept:")}
    rej = {k.split(":", 1)[1] for k in hist if k.startswith("reject:")}
    dc = {k.split(":", 1)[1] for k in hist if k.startswith("dontcare:")}
    need_rej = {"bad-octal", "empty-char", "unterminated-char", "lone-quote", "bad-escape",
                "illegal-char", "comment"}
    if len(acc_types & lexref.LITERAL_TYPES) < 17 or not need_rej <= rej or \
            not {"pp-number", "lenient-escape"} <= dc or len(ctypes) < 11:
        R.fail("vacuous:reference-dead",
               {"accept": sorted(acc_types), "reject": sorted(rej), "dontcare": sorted(dc),
                "ctypes": sorted(ctypes)},
               "the reference does not reach all its verdict classes")
    if "dontcare:non-ascii" not in hist or not any(len(t) > 70000 for _, t in table):
        R.fail("vacuous:non-ascii-or-long-strings", {}, "non-ASCII / long-string families not explored")
    if tot["parsed"] < 10000:
        R.fail("vacuous:parser-part", {"parsed": tot["parsed"]}, "too few literals went through the parser")

    R.set("states", tot["ref_items"])
    R.set("transitions", tot["ref_chars"])
    R.set("traces_validated_against_impl", tot["lexed"] + tot["parsed"] + tot["parsed_any"] + runs_n + pos_n)
    R.set("evaluations", tot["lexed"] + tot["parsed"] + tot["parsed_any"] + runs_n + pos_n)
    R.set("position_parses", pos_n)
    R.set("position_literals", len(plits))
    R.set("positions", [p[0] for p in POSITIONS])
    R.set("string_run_parses", runs_n)
    R.set("string_runs", len(runs))
    R.set("parser_runs_on_lenient_single_literals", tot["parsed_any"])
    R.set("distinct_nontrivial", tot["nontrivial"])
    R.set("distinct_outcomes", len(hist))
    R.set("strings_classified", tot["strings"])
    R.set("charex_strings", charex_strings)
    R.set("table_literals", len(table))
    R.set("lexer_runs", tot["lexed"])
    R.set("parser_runs", tot["parsed"])
    R.set("reference_scans", tot["ref_scans"])
    R.set("reference_item_histogram", dict(sorted(hist.items())))
    R.set("constant_types_expected", sorted(ctypes))
    R.set("bounds", {"alphabet": ALPHABET, "length<=": L, "suffix_variants": SUFFIXES,
                     "int_bodies": lexvocab.INT_BODIES,
                     "int_suffixes": lexvocab.INT_SUFFIXES + lexvocab.BAD_INT_SUFFIXES,
                     "float_bodies": lexvocab.FLOAT_BODIES,
                     "float_suffixes": lexvocab.FLOAT_SUFFIXES + lexvocab.BAD_FLOAT_SUFFIXES,
                     "escape_bodies": len(escape_bodies()), "prefixes": PREFIXES,
                     "multichar_bodies<=": 5, "non_ascii_replacements": ["U+%04X" % ord(c) for c in NON_ASCII],
                     "long_string_body_lengths": LONG_LENGTHS, "string_run_length<=": 3, "string_run_bodies": RUN_BODIES,
                     "string_run_contexts": sorted(RUN_CONTEXTS), "string_run_separators": [" ", ""]})
    R.assumptions += [
        "DONT-CARE zone (never alarmed): pycparser's documented lenient escapes, decimal escapes, \\x without digits, "
        "pp-numbers that are no constant (1e, 1lul, 0x1e+1, 08e), > 4 c-chars, prefixed multi-character constants",
        "bad octal is MUST-REJECT only where the digits cannot be the integer part of a float (08, 08u; not 08e, 08.5.)",
        "MUST-REJECT demands an error report inside the malformed text and no token starting at its core; what the lexer "
        "does with the rest of the line after an unterminated literal is not judged",
    ]
    samples = [{"text": t} for t in ("0x1.8p", "1e+", "08", "'" + BS + "8'", "'ul'", "1lul", "0x.8P+1L",
                                     "L''", '"' + BS + '+"', "1.f", "u8'" + BS + "x41'", "1uLL;")]
    return R.finish(
        samples,
        "every string <= L over the 17-character alphabet (alone, + blank, + ';'), the suffix / escape / "
        "multi-character tables, judged three-valued; every MUST-ACCEPT single literal also through "
        "CParser.parse (Constant value/type), and every other string the lexer turns into exactly one literal token "
        "must give FileAST or ParseError. states = reference-lexer items classified, transitions = characters consumed by the "
        "reference scanner, traces = lexer runs + parser runs compared. non-trivial = strings containing at "
        "least one literal-like item (constant, quoted literal, pp-number, comment) for the reference",
    )


def replay(rep):
    c = rep["case"]
    t = c["text"]
    print("input:", repr(t))
    if "position" in c:
        pos = next(p for p in POSITIONS if p[0] == c["position"])
        fl, _ = check_position(c["literal"], c["type"], pos)
        for sig, det in fl:
            print("FAIL", sig, det)
        print("oracle:", "violated" if fl else "fine")
        return 1 if fl else 0
    if "string_run" in c:
        fl, _ = check_string_run([tuple(x) for x in c["string_run"]], c["unambiguous"],
                                 c["context"], c["sep"])
        for sig, det in fl:
            print("FAIL", sig, det)
        print("oracle:", "violated" if fl else "fine")
        return 1 if fl else 0
    if c.get("parser") == "robust":
        fl = parser_robust(t)
        print("parse:", core.parse_outcome("int x = " + t + ";")[:2])
    elif c.get("parser"):
        fl = parser_check(t, c["type"])
        print("parse:", core.parse_outcome("int x = " + t + ";")[0])
    else:
        fl, items, _, _ = judge_text(t)
        print("reference:", items)
        rr = run_lexer(t, "")
        print("lexer:", rr.events, "exception:", rr.exc, rr.exc_repr)
    for sig, det in fl:
        print("FAIL", sig, det)
    print("oracle:", "violated" if fl else "fine")
    return 1 if fl else 0

"""Sentences of the expression / declaration / statement reference models as
pool programs (DESIGN §4.9 POOL-E/D/S)."""
from __future__ import annotations


def expr_programs(tier):
    from models import expr_model as em

    out = []
    trees = list(em.trees(1))
    trees += list(em.trees(2, ops=em.OPS_REP, min_ops=2))
    if tier != "quick":
        trees = list(em.trees(2))
    for t in trees:
        out.append("typedef int T ; void f ( void ) { " + em.render(t) + " ; }")
    # every expression context (the context decides which top level needs
    # parentheses): one-operator trees and comma/assignment/conditional tops
    pre = "typedef int T ; "
    ctxs = {
        "init": (pre + "int X = ", " ;", em.L_ASSIGN),
        "cond": (pre + "void F ( void ) { if ( ", " ) ; }", em.L_COMMA),
        "while": (pre + "void F ( void ) { while ( ", " ) ; }", em.L_COMMA),
        "for": (pre + "void F ( void ) { for ( ", " ; ; ) ; }", em.L_COMMA),
        "return": (pre + "int F ( void ) { return ", " ; }", em.L_COMMA),
        "arg": (pre + "void F ( void ) { G ( ", " ) ; }", em.L_ASSIGN),
        "subscript": (pre + "void F ( void ) { V [ ", " ] ; }", em.L_COMMA),
        "array_bound": (pre + "int V [ ", " ] ;", em.L_ASSIGN),
        "case": (pre + "void F ( void ) { switch ( X ) { case ", " : ; } }", em.L_COND),
        "bitwidth": (pre + "struct S { int M : ", " ; } ;", em.L_COND),
        "enum_value": (pre + "enum N { K = ", " } ;", em.L_COND),
        "designator": (pre + "int V [ 9 ] = { [ ", " ] = 1 } ;", em.L_COND),
        "alignas": (pre + "_Alignas ( ", " ) int V ;", em.L_COND),
        "sassert": (pre + "_Static_assert ( ", " , \"m\" ) ;", em.L_COND),
        "cond_mid": (pre + "int X = a ? ", " : b ;", em.L_COMMA),
    }
    small = list(em.trees(1))
    for name, (a, b, lvl) in ctxs.items():
        for t in small:
            out.append(a + em.render(t, "minimal", lvl) + b)
    return out


def decl_programs(tier):
    from models import decl_model as dm

    out = []
    maxlen = 2 if tier == "quick" else 3
    seqs = {False: list(dm.sequences(maxlen)), True: list(dm.sequences(maxlen, param=True))}
    for ctx in dm.CONTEXTS:
        param = ctx in dm.PARAM_CONTEXTS
        for seq in seqs[param]:
            for spec in (dm.S_INT, dm.S_T):
                name = None if ctx in dm.ABSTRACT_CONTEXTS else "x"
                try:
                    toks, _ = dm.place_entity(ctx, name, seq, spec)
                except Exception:
                    continue
                out.append(dm.text(toks))
    return out


def stmt_programs(tier):
    from models import stmt_model as sm

    out = []
    for t in sm.trees(1, sm.FULL):
        out.append(sm.body_text(t))
    for t in sm.trees(2, sm.REDUCED):
        out.append(sm.body_text(t))
    if tier != "quick":
        for t in sm.trees(2, sm.MID):
            out.append(sm.body_text(t))
    return out


EXTRA = [
    "_Atomic(int) x, y;",
    "_Atomic(int *) p, q;",
    "const _Atomic(long) *p, q[2];",
    "struct B { int : 3; unsigned : 0; const char c : 2, : 1; long : 5; };",
    "struct B1 { int : 3; }; struct B2 { unsigned long : 7; int a; };",
    "typedef _Atomic(int) A, B;",
    "void f(int, int T) { T * p; }",
    "int k(a, b) int a; char b; { return a; }",
    "struct S { int x; } a, *b;",
    "enum E { A = 1, B, } e;",
    "int f(void){ if (({ 1; })) return ({ 2; }); while (({ 0; })) ; for (({ 1; }); ({ 2; }); ({ 3; })) ; int x = ({ 4; }); return x; }",
    "#pragma omp parallel  \nint x;\nvoid f(void){\n#pragma unroll 4\t\n for(;;) ;\n#pragma  spaced   out \n}\nstruct S {\n#pragma pack(1) \n int a; };",
    "const _Atomic(int *) p; _Atomic(int) * const q; volatile _Atomic(struct S *) r[2];",
    # GNU statement expressions in every operand position (one program each, so
    # that one rejected position cannot take the others out of the domain)
    'int a[4]; struct S { int m; } s; int g(int, int); int f(int x){ a[({ 1; })]; return x; }',
    'int a[4]; struct S { int m; } s; int g(int, int); int f(int x){ sizeof(({ 2; })); return x; }',
    'int a[4]; struct S { int m; } s; int g(int, int); int f(int x){ sizeof ({ 2; }); return x; }',
    'int a[4]; struct S { int m; } s; int g(int, int); int f(int x){ x = ({ 4; }); return x; }',
    'int a[4]; struct S { int m; } s; int g(int, int); int f(int x){ x ? ({1;}) : 2; return x; }',
    'int a[4]; struct S { int m; } s; int g(int, int); int f(int x){ ({1;}) ? 1 : 2; return x; }',
    'int a[4]; struct S { int m; } s; int g(int, int); int f(int x){ x ? 1 : ({2;}); return x; }',
    'int a[4]; struct S { int m; } s; int g(int, int); int f(int x){ ({1;}) + 2; return x; }',
    'int a[4]; struct S { int m; } s; int g(int, int); int f(int x){ 2 + ({1;}); return x; }',
    'int a[4]; struct S { int m; } s; int g(int, int); int f(int x){ (int)({3;}); return x; }',
    'int a[4]; struct S { int m; } s; int g(int, int); int f(int x){ -({4;}); return x; }',
    'int a[4]; struct S { int m; } s; int g(int, int); int f(int x){ ({x;})++; return x; }',
    'int a[4]; struct S { int m; } s; int g(int, int); int f(int x){ ({s;}).m; return x; }',
    'int a[4]; struct S { int m; } s; int g(int, int); int f(int x){ ({g;})(1, 2); return x; }',
    'int a[4]; struct S { int m; } s; int g(int, int); int f(int x){ g(({1;}), 2); return x; }',
    'int a[4]; struct S { int m; } s; int g(int, int); int f(int x){ (({1;}), 2); return x; }',
    'int a[4]; struct S { int m; } s; int g(int, int); int f(int x){ (2, ({1;})); return x; }',
    'int a[4]; struct S { int m; } s; int g(int, int); int f(int x){ ({a;})[2]; return x; }',
    'int a[4]; struct S { int m; } s; int g(int, int); int f(int x){ (struct S){({1;})}; return x; }',
    'int a[4]; struct S { int m; } s; int g(int, int); int f(int x){ *({a;}); return x; }',
    'int a[4]; struct S { int m; } s; int g(int, int); int f(int x){ x += ({1;}); return x; }',
    'int a[4]; struct S { int m; } s; int g(int, int); int f(int x){ (({1;})) = 2; return x; }',
    'int a[4]; struct S { int m; } s; int g(int, int); int f(int x){ !({ int y = 2; y; }); return x; }',
    'int f(void){ int a[({1;})]; }',
    'enum E { A = ({1;}) };',
    'struct S { int b : ({1;}); };',
    '_Static_assert(({1;}), "s");',
    '_Alignas(({1;})) int z;',
    'int a[] = { [({1;})] = 1, [(({2;}))] = 2 };',
    'int y[2] = { ({4;}), 1 };',
    'int f(int x){ switch (x) { case ({1;}): ; } do ; while (({1;})); switch (({1;})) ; ({1;}); }',
    # coverage completion (tools/pool_coverage.py): accepted programs that reach the
    # parser / generator branches no other pool program reached
    "typedef char T; void f(void){ unsigned T; T = 1; } void g(int T, unsigned T2) { T = T2; }",
    "typedef int T; void f(void){ int T; { const unsigned T; } } T x;",
    "typedef int T; struct S { int T; }; struct Q { unsigned T; char c; } q;",
    "struct S { _Static_assert(1, \"m\"); int a; _Static_assert(sizeof(int) > 1, \"n\"); };",
    "struct S { struct { int x; }; union { int y; float z; }; int; const int; } s;",
    "void f(int a[const static 3], int b[static const 3], int c[restrict static 2], int d[const]);",
    "void f(void){ for (_Static_assert(1, \"m\"); ; ) break; }",
    "int a[] = {1, 2, }; int b[2][2] = { {1, }, {2, 3, }, }; struct P { int x, y; } p = { .x = 1, .y = 2, };",
    "typedef int T; void f(void){ for (int T = 0;;) if (T) break; T y; for (int T = 0;;) { break; } { T z; } }",
    "int f(int n, ...) { return n; } static void g(const char *fmt, ...) { }",
    "typedef int T; void f(int n){ { int T; for (int i = 0; i < 3; i++) if (i) n++; } T x; for (int j = 0; j < 2; j++) if (j) n--; }",
    "void f(void){ _Static_assert(1, \"a\"); int x; _Static_assert(1, \"b\"); ; }",
    "const _Atomic(int) x; _Atomic(int [3]) a; _Atomic(int (*)(void)) fp; int * _Atomic p;",
    "int x;\n#pragma",
    "int x;\n#pragma   \t",
    "void f(void){ int *p; (void)sizeof (int) ; p = (int *)0; (p)[0]; ((void (*)(void))p)(); }",
    "int f(a, b) int a; register int b; { return a + b; } int g() { return 1; } int h(void);",
    # round 6: valid shapes that are almost never written
    "int g(int); void f(int n){ again: int k = g(n); if (k) goto again; last: ; }",
    "inline _Noreturn void die(int); _Noreturn inline static void die2(int c) { for (;;) ; } void h(inline _Noreturn void (*cb)(void));",
    "_Atomic(int *) (*rows)[3]; _Atomic(char *) (*get)(void); unsigned long z = sizeof(_Atomic(int *) (*)[2]); void f(_Atomic(int *) (*cb)(int));",
    "void f(int x){ switch (x) { int tmp; case 1: tmp = 1; break; default: tmp = 2; } switch (x) { again: case 0: x++; if (x < 3) goto again; } }",
    "void f(int x){ switch (x) {\n#pragma before first case\n case 1: x = 1; } switch (x) { x = 9; } }",
    "int cube[2][3][4]; int (*pc)[2][3][4]; int (*tab[2][3][4])(int); unsigned long z = sizeof(int (*)[5][6][7]); int f4(int a[][2][3][4]);",
    "typedef int T; typedef int U; struct S { int T; struct { int m; } U[2]; }; unsigned long z = offsetof(struct S, T) + offsetof(struct S, U[1].m);",
    "int f(a, b) register int a; char *b; { return a; }",
    "typedef struct list list; struct list { list *next; }; void f(void){ struct list *list = 0, **pp; for (struct list *list = 0, *e; ; ) break; }",
    "typedef int T; _Alignas(T) char c; struct S { _Alignas(T) char d; _Alignas(T *) char e; }; void f(void){ _Alignas(T[2]) char g; }",
    "char *s = \"a\tb\"; char c = '\t';\n#pragma x\ty\nint z;",
    "void f(void){ for (;;) ; do L: ; while (0); if (1) if (2) ; else if (3) ; else ; }",
    "typedef int F(int); F ff; F *pf = ff; int (*fr(int a))(int) { return pf; } typedef int (T2); int (paren) = 1, ((paren2));",
    "struct S { _Static_assert(1, \"only\"); }; struct E {}; int e[] = {}; struct Q { int a[2]; struct { int b; } n; } q = { .a[1] = 2, .n.b = 3, .a = { [0] = 1 } };",
    "char *long_s = \"" + "a" * 5000 + "\";",
    "char *long_run = " + " ".join(['\"' + "b" * 300 + '\"'] * 20) + ";",
    "#pragma " + "p" * 5000 + "\nint after_long_pragma;",
    # round 7
    "struct P { int x, y; } p = { .x = 1, .y = 2 };",
    "struct Q { int a[2]; struct { int b; } n[2]; } q = { .a[1] = 2, .n[1].b = 3 };",
    "int v = ((struct P){ .y = 4 }).y;",
    "typedef int T; typedef int U; struct S { struct { int m; int T; } U[2], a; }; unsigned long z = offsetof(struct S, U[1].T) + offsetof(struct S, a.T);",
    "struct P { int a, b; }; void f(int x){ struct P p = { .a = (x++, x), 7 }; int v[3] = { [1] = (x, 2), 3 }; p = (struct P){ .b = (1, 2) }; }",
    "_Alignas(4) _Alignas(16) char c16; struct A { _Alignas(2) _Alignas(8) char m; } sa;",
    "void g(int a[const static 3], double m[restrict volatile static 2], int (*cb)(int [const static 4]));",
    # unnamed parameters whose first specifier is a tag specifier / qualifier / typedef name
    "struct S; void f(struct S, enum E *, union U [4]);",
    "typedef int T; void g(const struct S *, T, T *, volatile T [2], struct { int m; } *);",
    "void h(enum { A, B } , int (*)(struct S, union U *));",
    # pseudo-identifiers: the '*' of an unspecified array size, offsetof
    "void f(int a[*], int [*]);",
    "void g(double v[const *], long w[*][*]);",
    "unsigned long z = offsetof(struct S, m.k[2]);",
    # consecutive declarators of different shape that start with the same token
    "void f(int *p, int *);",
    "typedef int T; int f(int (*T), int (T));",
    "int *a, *b[2], (*c)(void), (*d);",
    "void g(int (*)(int), int (*h)(int), int (k));",
    "struct S { int *m, *n[2], (*o); } s, *ps, (*pps);",
    "typedef int T; void f(void){ T T, *p; }",
    "typedef int T; void f(int a){ T T , T ; }",
    "typedef int T; void f(void){ enum { T , } ; T * x; }",
    "typedef int A; void g(int B){ int z[] = { sizeof(enum {A}) }; A * x; struct S { enum {B} m; } s; }",
    "int g(void) { switch (1) { case 1: case 2: case 3: g(); g(); break; default: ; } return (sizeof(int))[\"a\"]; }",
]


def programs(tier):
    out = []
    for tag, fn in (("E", expr_programs), ("D", decl_programs), ("S", stmt_programs)):
        try:
            ps = fn(tier)
        except Exception as e:  # a model that cannot be imported contributes nothing
            ps = []
        out += [(tag, p) for p in ps]
    out += [("X", p) for p in EXTRA]
    return out

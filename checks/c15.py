"""C15 - ASTs survive repr/eval, pickle and deepcopy unchanged.

Explored (all exhaustive inside the stated sets):
  * every AST of the program pool (mini_pool.load_pool);
  * Constant('string', P"body"), Constant('char', P'body') and Pragma(body) for every body of
    length <= 3 over {a, ", ', \\, n, e-acute, 0} x prefixes {'', L, u8, u, U}:
    hand-built nodes, and the same literal parsed in a declaration when the
    lexer accepts it;
  * every C14 configuration of every class (absent children, None / [] /
    1 / 2-element sequences) x 5 attribute-value modes x 3 coord modes.
For each tree T:
  eval(repr(T), vars(c_ast))             canon-equal to T
  pickle.loads(dumps(T, p)), p = 2..HIGHEST   canon_coord-equal
  copy.deepcopy(T)                       canon_coord-equal
  generated C of every rebuilt tree identical to T's (when CGenerator handles T)
  sets of mutable objects (nodes, lists, Coords) of T and each rebuilt tree disjoint
  after overwriting every field / list / Coord of every rebuilt tree, canon_coord(T) unchanged
  weakref.ref works on every node of every class (original and rebuilt).
"""
from __future__ import annotations

import copy
import itertools
import pickle
import weakref

from mc import core
from models import astspec, mini_pool

PID = "C15"
ALPHABET = ["a", '"', "'", "\\", "n", "é", "0"]
PREFIXES = ["", "L", "u8", "u", "U"]
MAXBODY = 3
PROTOCOLS = list(range(2, pickle.HIGHEST_PROTOCOL + 1))
HISTORY_DEEPEST = 120
WEAKREF_DEEPEST = 300
WEAKREF_SMALLEST = 300
HISTORY_MAX_CHARS = 3000
ATTR_MODES = ["unique-string", "None", "[]", "['a','b']", "nasty-string",
              "ends-in-1-backslash", "ends-in-2-backslashes", "ends-in-3-backslashes"]
COORD_MODES = ["Coord(file,line,column)", "Coord(file,line)", "None",
               "Coord('',0,0)", "Coord(file,0)", "Coord(file,huge,1)"]
LONG_MODES = ["len-4096", "len-4097", "len-4098", "len-5000", "len-70000"]  # with the first coord mode only
NASTY = "q\"u'o\\t\\\\e\n\té中\x00 end"


class PythonLimit(Exception):
    pass


def _is_node(x):
    return (isinstance(x, tuple) and len(x) in (2, 3) and isinstance(x[0], str) and x[0][:1].isupper()
            and isinstance(x[-1], tuple) and all(isinstance(f, tuple) and len(f) == 2 and isinstance(f[0], str) for f in x[-1]))


def _kind(v):
    if v is None:
        return "None"
    if _is_node(v):
        return v[0]
    if isinstance(v, tuple):
        return "list(0)" if not v else "list"
    return type(v).__name__


def where_what(a, b, last="root"):
    """(where, what) of the first difference between two canon()/canon_coord()
    values: where = 'Class.field' (or 'Class.coord'), what = kind of change."""
    if _is_node(a) and _is_node(b):
        if a[0] != b[0]:
            return last, f"{a[0]}->{b[0]}"
        if len(a) == 3 and len(b) == 3 and a[1] != b[1]:
            if a[1] is None or b[1] is None:
                return "coord", "present/absent"
            part = next(n for n, x, y in zip(("file", "line", "column"), a[1], b[1]) if x != y)
            return "coord", part
        for (sa, va), (sb, vb) in zip(a[-1], b[-1]):
            if sa != sb:
                return f"{a[0]}", "slot-names"
            if va != vb:
                return where_what(va, vb, f"{a[0]}.{sa}")
        return a[0], "slots"
    if isinstance(a, tuple) and isinstance(b, tuple) and not _is_node(a) and not _is_node(b):
        if len(a) != len(b):
            return last, f"list-length"
        for x, y in zip(a, b):
            if x != y:
                return where_what(x, y, last)
    ka, kb = _kind(a), _kind(b)
    return last, (f"{ka}-differs" if ka == kb else f"{ka}->{kb}")


def _last_step(a, b):
    w, k = where_what(a, b)
    return f"{w}|{k}"


def _exc_what(ex):
    if isinstance(ex, SyntaxError):
        return "|SyntaxError"
    import re

    msg = re.sub(r"\d+", "N", str(ex))
    msg = re.sub(r"'[^']*'", "'_'", msg)
    return f"|{type(ex).__name__}:{msg[:70]}"


def mutable_objects(root):
    """(nodes, lists, coords) reachable through __slots__ (identity-unique)."""
    from pycparser import c_ast

    nodes, lists, coords = {}, {}, {}
    todo = [root]
    while todo:
        x = todo.pop()
        if isinstance(x, c_ast.Node):
            if id(x) in nodes:
                continue
            nodes[id(x)] = x
            c = getattr(x, "coord", None)
            if c is not None and not isinstance(c, (str, int)):
                coords[id(c)] = c
            for s in x.__slots__:
                if s not in ("coord", "__weakref__"):
                    todo.append(getattr(x, s))
        elif isinstance(x, list):
            if id(x) in lists:
                continue
            lists[id(x)] = x
            todo.extend(x)
        elif isinstance(x, tuple):
            todo.extend(x)
    return nodes, lists, coords


def scramble(root):
    nodes, lists, coords = mutable_objects(root)
    for c in coords.values():
        for f in ("file", "line", "column"):
            try:
                setattr(c, f, "MUTATED")
            except Exception:  # noqa  (a frozen Coord is independent by construction)
                pass
    for l in lists.values():
        l.clear()
        l.append("MUTATED")
    for n in nodes.values():
        for s in n.__slots__:
            if s != "__weakref__":
                setattr(n, s, "MUTATED")


def features(root):
    """Which of the quantifier's special shapes a tree contains."""
    from pycparser import c_ast

    f = set()
    nodes, lists, _ = mutable_objects(root)
    for l in lists.values():
        if not l:
            f.add("empty-list")
    for n in nodes.values():
        for s in n.__slots__:
            if s in ("coord", "__weakref__"):
                continue
            v = getattr(n, s)
            if v is None:
                f.add("absent-field")
            elif isinstance(v, str):
                q = [i for i, ch in enumerate(v) if ch in "\"'"]
                if len(q) > 2 or (q and not (v.endswith(v[q[0]]) and len(q) == 2)):
                    f.add("quote-in-string")
                if "\\" in v:
                    f.add("backslash")
                if not v.isascii():
                    f.add("non-ascii")
    return f


def tree_problems(root, stats, light=False, protocols=None):
    """[(signature, detail)] for one tree.  light: structural comparisons,
    identity and leftover checks only (repr/eval, pickle HIGHEST unless
    protocols is given, deepcopy), used by the history and weakref families."""
    from pycparser import c_ast

    out = []
    try:
        c0 = core.canon(root)
        cc0 = core.canon_coord(root)
    except RecursionError:
        stats["python_limit"] += 1
        return out
    rebuilt = []  # (label, tree)  -- kept alive so that id() comparisons are meaningful
    # -- repr / eval ---------------------------------------------------------
    try:
        r = repr(root)
        try:
            e = eval(r, dict(vars(c_ast)))
        except (RecursionError, MemoryError):
            raise PythonLimit()
        except SyntaxError as ex:
            if "too many nested parentheses" in str(ex) or "too deeply nested" in str(ex):
                raise PythonLimit()
            raise
        stats["rebuilds"] += 1
        ce = core.canon(e)
        if ce != c0:
            out.append((f"repr-eval:{_last_step(c0, ce)}", f"first difference {core.first_diff(c0, ce)}; repr {r[:200]!r}"))
        else:
            rebuilt.append(("repr-eval", e, False))
    except PythonLimit:
        stats["python_limit"] += 1
    except RecursionError:
        stats["python_limit"] += 1
    except Exception as ex:  # noqa
        out.append((f"repr-eval:{_exc_what(ex)}", f"{ex!r:.200}"))
    # -- pickle --------------------------------------------------------------
    for proto in (protocols or (PROTOCOLS[-1:] if light else PROTOCOLS)):
        try:
            p = pickle.loads(pickle.dumps(root, proto))
            stats["rebuilds"] += 1
            cp = core.canon_coord(p)
            if cp != cc0:
                out.append((f"pickle:{_last_step(cc0, cp)}", f"protocol {proto}: first difference {core.first_diff(cc0, cp)}"))
            else:
                rebuilt.append((f"pickle-{proto}", p, True))
        except RecursionError:
            stats["python_limit"] += 1
        except Exception as ex:  # noqa
            out.append((f"pickle:{_exc_what(ex)}", f"protocol {proto}: {ex!r:.200}"))
    # -- deepcopy ------------------------------------------------------------
    try:
        d = copy.deepcopy(root)
        stats["rebuilds"] += 1
        cd = core.canon_coord(d)
        if cd != cc0:
            out.append((f"deepcopy:{_last_step(cc0, cd)}", f"first difference {core.first_diff(cc0, cd)}"))
        else:
            rebuilt.append(("deepcopy", d, True))
    except RecursionError:
        stats["python_limit"] += 1
    except Exception as ex:  # noqa
        out.append((f"deepcopy:{_exc_what(ex)}", f"{ex!r:.200}"))
    # -- independence: identity, leftovers ----------------------------------------
    n0, l0, k0 = mutable_objects(root)
    own = set(n0) | set(l0) | set(k0)
    coord_types = {type(c) for c in k0.values()}
    if not light:
        for nd in n0.values():
            try:
                if weakref.ref(nd)() is not nd:
                    out.append((f"weakref:{nd.__class__.__name__}", "weakref.ref(node)() is not node"))
            except TypeError as ex:
                out.append((f"weakref:{nd.__class__.__name__}", f"{ex}"))
        stats["weakrefs"] += len(n0)
    for label, t, _ in rebuilt:
        op = label.split("-")[0]
        nt, lt, kt = mutable_objects(t)
        shared = own & (set(nt) | set(lt) | set(kt))
        stats["identity_checks"] += 1
        if shared:
            i = sorted(shared)[0]
            kind = "node" if i in n0 else ("list" if i in l0 else "Coord")
            out.append((f"{op}:shares-{kind}",
                        f"{label}: {len(shared)} mutable objects shared with the original"))
        # nothing but the declared fields may travel into a rebuilt node
        for nd in nt.values():
            if getattr(nd, "__weakref__", None) is not None:
                out.append((f"{op}:rebuilt-node-carries-weakref-state", f"{label}: a rebuilt {nd.__class__.__name__} has a non-None __weakref__"))
                break
            if hasattr(nd, "__dict__"):
                out.append((f"{op}:rebuilt-node-has-__dict__", f"{label}: a rebuilt {nd.__class__.__name__} carries {sorted(vars(nd))[:5]}"))
                break
        if op != "repr" and {type(c) for c in kt.values()} - coord_types:
            out.append((f"{op}:coord-class-changed", f"{label}: coordinates are {sorted(x.__name__ for x in {type(c) for c in kt.values()})}"))
        if not light:
            for nd in nt.values():
                try:
                    weakref.ref(nd)
                except TypeError as ex:
                    out.append((f"weakref:{nd.__class__.__name__}", f"rebuilt by {label}: {ex}"))
                    break
    if light:
        return out
    # -- generated text ------------------------------------------------------
    try:
        g0 = ("text", core.generate(root))
        stats["generated"] += 1
    except Exception as ex:  # noqa   generator does not handle this tree: compare the failure kind only
        g0 = ("exc", type(ex).__name__)
        stats["generator_declined"] += 1
    for label, t, _ in rebuilt:
        try:
            g = ("text", core.generate(t))
        except Exception as ex:  # noqa
            g = ("exc", type(ex).__name__)
        stats["text_comparisons"] += 1
        if g != g0:
            out.append((f"{label.split('-')[0]}:generated-text-differs", f"{label}: {str(g0)[:120]} vs {str(g)[:120]}"))
    for label, t, _ in rebuilt:
        scramble(t)
        stats["mutations"] += 1
    try:
        after = core.canon_coord(root)
    except Exception as ex:  # noqa
        after = repr(ex)
    if after != cc0:
        out.append(("independence:mutating-a-copy-changed-the-original", f"{core.first_diff(cc0, after) if isinstance(after, tuple) else after}"))
    return out


def new_stats():
    return {"trees": 0, "rebuilds": 0, "python_limit": 0, "generated": 0, "generator_declined": 0,
            "text_comparisons": 0, "weakrefs": 0, "identity_checks": 0, "mutations": 0,
            "skipped": 0, "features": {}, "classes": {}}


def account(root, stats, hashes):
    stats["trees"] += 1
    try:
        hashes.add(hash(core.canon_coord(root)))
    except RecursionError:
        return
    for f in features(root):
        stats["features"][f] = stats["features"].get(f, 0) + 1
    for n in mutable_objects(root)[0].values():
        k = n.__class__.__name__
        stats["classes"][k] = stats["classes"].get(k, 0) + 1


# ---------------------------------------------------------------------------
# the three explored sets
# ---------------------------------------------------------------------------
def nesting_depth(root):
    """Depth of a tree through __slots__ (lists do not count as a level)."""
    from pycparser import c_ast

    best = 0
    todo = [(root, 1)]
    while todo:
        x, d = todo.pop()
        if isinstance(x, c_ast.Node):
            best = max(best, d)
            for s in x.__slots__:
                if s not in ("coord", "__weakref__"):
                    todo.append((getattr(x, s), d + 1))
        elif isinstance(x, (list, tuple)):
            todo.extend((e, d) for e in x)
    return best


def _pool_work(items):
    stats = new_stats()
    stats["depths"] = []
    fails = []
    hashes = set()
    for origin, text in items:
        o = core.parse_outcome(text, "pool dir/pool.c")
        if o[0] != "ok":
            stats["skipped"] += 1
            continue
        account(o[1], stats, hashes)
        try:
            stats["depths"].append((nesting_depth(o[1]), origin, text))
        except RecursionError:
            pass
        for sig, det in tree_problems(o[1], stats):
            fails.append((sig, {"text": text, "origin": origin}, det))
    return stats, fails, hashes


# ---------------------------------------------------------------------------
# history family: an aborted repr / pickle / deepcopy, then the normal uses
# ---------------------------------------------------------------------------
HISTORY_OPS = ["repr", "pickle", "deepcopy"]
UNRELATED = "struct U { int m; } uu; int unrelated(int a, char *s) { return a ? s[0] == 'c' : sizeof \"lit\"; }"


def _op(op, tree):
    if op == "repr":
        return repr(tree)
    if op == "pickle":
        return pickle._dumps(tree, 2)  # the Python implementation: its recursion is bounded by the recursion limit
    return copy.deepcopy(tree)


def _frames():
    import sys

    f = sys._getframe()
    n = 0
    while f is not None:
        n += 1
        f = f.f_back
    return n


def _limited(op, tree, limit):
    """True: completed, False: aborted by RecursionError (which we catch)."""
    import sys

    old = sys.getrecursionlimit()
    try:
        try:
            sys.setrecursionlimit(limit)
            _op(op, tree)
            return True
        except RecursionError:
            return False
    finally:
        sys.setrecursionlimit(old)


def abort_by_recursion_limit(op, tree):
    """Run op on tree under recursion limits below what it needs, bisecting up
    to just below (<= 2 frames) the need.  -> number of aborted runs (0: not abortable)."""
    import sys

    lo = _frames() + 8
    hi = sys.getrecursionlimit()
    if _limited(op, tree, lo):
        return 0  # so shallow that it fits into the smallest settable limit
    n = 1
    # grow from below (failing probes stop early, so they are cheap) ...
    a, step = lo, 16
    while True:
        b = min(a + step, hi)
        if _limited(op, tree, b):
            break
        n += 1
        if b == hi:
            return n  # too deep even for the normal limit: those runs were aborted ones
        a, step = b, step * 2
    # ... then bisect; every failing probe is an aborted run, the last one is at most 2 frames short
    while b - a > 2:
        m = (a + b) // 2
        if _limited(op, tree, m):
            b = m
        else:
            a = m
            n += 1
    return n


class _Bomb:
    """Stands in for one attribute value; every rebuild operation that reaches
    it is interrupted (MemoryError, as when memory runs out half-way)."""

    def __repr__(self):
        raise MemoryError("interrupted")

    def __reduce_ex__(self, proto):
        raise MemoryError("interrupted")

    def __deepcopy__(self, memo):
        raise MemoryError("interrupted")


def abort_by_interrupt(op, tree):
    """Temporarily put a _Bomb into the last string-valued field in traversal
    order (so the operation is far into the tree when it is interrupted), run
    op, catch the MemoryError, restore the field.  -> 1 if aborted else 0."""
    from pycparser import c_ast

    target = None
    todo = [tree]
    while todo:
        x = todo.pop(0)
        if isinstance(x, c_ast.Node):
            for s in x.__slots__:
                if s in ("coord", "__weakref__"):
                    continue
                v = getattr(x, s)
                if isinstance(v, str):
                    target = (x, s, v)
                else:
                    todo.append(v)
        elif isinstance(x, list):
            todo.extend(x)
    if target is None:
        return 0
    node, slot, val = target
    setattr(node, slot, _Bomb())
    try:
        _op(op, tree)
        return 0
    except MemoryError:
        return 1
    except RecursionError:
        return 1
    finally:
        setattr(node, slot, val)


def _history_sig(op, sig, prefix="after-aborted-"):
    """<prefix><op>:<rebuild operation>:<kind of difference>.  The place
    (Class.field) and exception messages are dropped: what an aborted operation
    (or a live weak reference) does is not specific to a node class."""
    if "|" in sig:
        head, what = sig.split("|", 1)
        op2 = head.split(":", 1)[0]
        if not head.split(":", 1)[1]:
            what = "raises-" + what.split(":", 1)[0]  # exception type only
        elif "->" in what:
            what = "becomes-" + what.split("->", 1)[1]
        return f"{prefix}{op}~~{op2}~~{what}"
    return f"{prefix}{op}~~{sig}"


_FIRST_BAD = []  # per process: the aborted operation after which the first failure was seen


def history_problems(make_tree, stats, modes=("recursion-limit", "interrupt")):
    """make_tree() -> a fresh tree (parse or build).  For each op x mode: abort
    the op on tree A, then the ordinary comparison must hold on A, on an
    unrelated tree, and - after A is dropped - on a fresh tree made the same way
    afterwards (which may reuse A's object ids)."""
    import gc

    out = []
    for op in HISTORY_OPS:
        for mode in modes:
            A = make_tree()
            n = abort_by_recursion_limit(op, A) if mode == "recursion-limit" else abort_by_interrupt(op, A)
            key = f"{op}/{mode}"
            if not n:
                stats["history_not_abortable"][key] = stats["history_not_abortable"].get(key, 0) + 1
                continue
            stats["history_aborted"][key] = stats["history_aborted"].get(key, 0) + n
            stats["history_cases"] += 1
            subjects = [("same tree", A), ("unrelated tree", core.parse_outcome(UNRELATED, "unrelated.c")[1])]
            for which, t in subjects:
                for sig, det in tree_problems(t, stats, light=True):
                    _FIRST_BAD.append(op)
                    out.append((_history_sig(_FIRST_BAD[0], sig), f"[{op} aborted by {mode}; checked on the {which}] {det}"))
            # id reuse: drop A (and the other subjects), then make a tree afterwards
            del A, subjects, t
            gc.collect(0)  # young generation only: a full collection walks the whole inherited heap
            B = make_tree()
            for sig, det in tree_problems(B, stats, light=True):
                _FIRST_BAD.append(op)
                out.append((_history_sig(_FIRST_BAD[0], sig), f"[{op} aborted by {mode}; checked on a tree made after the aborted one was dropped] {det}"))
            del B
    return out


def all_weakrefs(tree):
    """Weak references to every node, three ways; the caller keeps them alive."""
    from pycparser import c_ast

    refs, index, parents = [], weakref.WeakValueDictionary(), weakref.WeakKeyDictionary()
    todo = [(tree, None)]
    seen = set()
    while todo:
        x, par = todo.pop()
        if isinstance(x, c_ast.Node):
            if id(x) in seen:
                continue  # a node object that occurs twice in the tree
            seen.add(id(x))
            try:
                refs.append(weakref.ref(x))
            except TypeError as ex:
                raise TypeError(f"weakref:{x.__class__.__name__}|{ex}")
            index[id(x)] = x
            parents[x] = par
            for s in x.__slots__:
                if s not in ("coord", "__weakref__"):
                    todo.append((getattr(x, s), x))
        elif isinstance(x, (list, tuple)):
            todo.extend((e, par) for e in x)
    return refs, index, parents


def weakref_problems(make_tree, stats):
    """Orders: (a) weak references to every node exist, then rebuild; they are
    dropped, rebuild again; (b) rebuild, create the references, rebuild again."""
    import gc

    out = []

    def run(t, situation, note):
        for sig, det in tree_problems(t, stats, light=True, protocols=PROTOCOLS):
            out.append((_history_sig(situation, sig, prefix=""), f"[{note}] {det}"))
        stats["weakref_family_checks"] += 1

    T = make_tree()
    try:
        held = all_weakrefs(T)
    except TypeError as ex:
        sig, _, msg = str(ex).partition("|")
        return [(sig if sig.startswith("weakref:") else "weakref:unknown", msg or str(ex))]
    stats["weakref_family_refs"] += 3 * len(held[0])
    run(T, "with-live-weakrefs", "weak references to every node created first")
    if not all(r() is not None for r in held[0]) or len(held[1]) != len(held[0]):
        out.append(("with-live-weakrefs~~references-died", "a weak reference died while the tree was alive"))
    del held
    gc.collect(0)
    run(T, "after-weakrefs-dropped", "the weak references were dropped again")
    T2 = make_tree()
    run(T2, "before-any-weakref", "fresh tree, no weak reference yet")
    held = all_weakrefs(T2)
    run(T2, "with-live-weakrefs", "rebuilt once, then weak references to every node created")
    del held
    return out


def _weakref_work(items):
    sp = {s.name: s for s in astspec.read_cfg(astspec.cfg_path(core.REPO))}
    stats = new_stats()
    stats.update({"weakref_family_checks": 0, "weakref_family_refs": 0, "weakref_family_subjects": 0})
    fails = []
    for it in items:
        if it[0] == "text":
            _, origin, text = it
            if core.parse_outcome(text, "pool dir/pool.c")[0] != "ok":
                continue
            make = lambda text=text: core.parse_outcome(text, "pool dir/pool.c")[1]  # noqa: E731
            case = {"text": text, "origin": origin, "weakrefs": True}
        else:
            _, name, config = it
            make = lambda name=name, config=config: build_config(sp[name], tuple(config), ATTR_MODES[0], COORD_MODES[0])  # noqa: E731
            case = {"class": name, "config": list(config), "attr_mode": ATTR_MODES[0], "coord_mode": COORD_MODES[0], "weakrefs": True}
        stats["weakref_family_subjects"] += 1
        for sig, det in weakref_problems(make, stats):
            fails.append((sig, case, det))
    return stats, fails, set()


def _history_work(items):
    """items: ('text', origin, text) or ('config', name, config)."""
    sp = {s.name: s for s in astspec.read_cfg(astspec.cfg_path(core.REPO))}
    stats = new_stats()
    stats.update({"history_cases": 0, "history_aborted": {}, "history_not_abortable": {}, "history_subjects": 0})
    fails = []
    for it in items:
        if it[0] == "text":
            _, origin, text = it
            if core.parse_outcome(text, "pool dir/pool.c")[0] != "ok":
                continue
            make = lambda text=text: core.parse_outcome(text, "pool dir/pool.c")[1]  # noqa: E731
            case = {"text": text, "origin": origin, "history": True}
            modes = ("recursion-limit", "interrupt")
        else:
            _, name, config = it
            make = lambda name=name, config=config: build_config(sp[name], tuple(config), ATTR_MODES[0], COORD_MODES[0])  # noqa: E731
            case = {"class": name, "config": list(config), "attr_mode": ATTR_MODES[0], "coord_mode": COORD_MODES[0], "history": True}
            modes = ("interrupt",)
        stats["history_subjects"] += 1
        for sig, det in history_problems(make, stats, modes):
            fails.append((sig, case, det))
    return stats, fails, set()


def literals():
    """[(type, literal)] smallest first."""
    out = []
    for n in range(MAXBODY + 1):
        for body in itertools.product(ALPHABET, repeat=n):
            b = "".join(body)
            for pre in PREFIXES:
                out.append(("string", pre + '"' + b + '"'))
                out.append(("char", pre + "'" + b + "'"))
            out.append(("pragma", b))  # the text of a #pragma line is kept verbatim in Pragma.string
    for n in (4094, 4095, 4096, 4097, 4098, 5000, 70000):  # long values (the length counts the quotes)
        body = ("0123456789" * (n // 10 + 1))[: n - 2]
        out.append(("string", '"' + body + '"'))
        out.append(("string", 'L"' + body[:-1] + '"'))
        out.append(("pragma", body))
    return out


def _literal_work(items):
    from pycparser import c_ast
    from pycparser.c_parser import Coord

    stats = new_stats()
    stats["lexable"] = 0
    fails = []
    hashes = set()
    for typ, lit in items:
        if typ == "pragma":
            node = c_ast.Pragma(lit, Coord("lit.c", 0, 9))
            text = "#pragma " + lit + "\nint after;"
        else:
            node = c_ast.Constant(typ, lit, Coord("lit.c", 1, 5))
            text = ("char *s = " if typ == "string" else "int c = ") + lit + ";"
        account(node, stats, hashes)
        for sig, det in tree_problems(node, stats):
            fails.append((sig, {"constant": [typ, lit]}, det))
        o = core.parse_outcome(text, "lit.c")
        if o[0] == "ok":
            stats["lexable"] += 1
            account(o[1], stats, hashes)
            for sig, det in tree_problems(o[1], stats):
                fails.append((sig, {"text": text}, det))
    return stats, fails, hashes


# ---------------------------------------------------------------------------
# runs of adjacent string literals
# ---------------------------------------------------------------------------
PIECE_BODIES = ["ab", "t\\x9", "\\x1", "bell\\7", "\\12", "2", "7x", "A", ""]
# plain / ends in a hex escape (x2) / ends in a 1-2 digit octal escape (x2) /
# starts with a decimal digit (x2) / starts with a hex letter / empty
PIECE_PREFIXES = ["", "L", "u", "U", "u8"]
ADJACENT_CONTEXTS = ["char *s = {};", "void f(void) {{ g({}, 1); }}", "char *t[] = {{ {}, {} }};"]


def adjacent_programs():
    """Every run of 2 and 3 pieces with one common prefix, every 2-piece run
    with mixed prefixes, in the first context; the 2-piece single-prefix runs
    in the other contexts too.  Smallest first.  (Whether the parser accepts a
    run - e.g. mixed prefixes - is not this check's business: rejected ones are
    counted and skipped.)"""
    out = []
    for pre in PIECE_PREFIXES:
        lits = [pre + '"' + b + '"' for b in PIECE_BODIES]
        for n in (2, 3):
            for run in itertools.product(lits, repeat=n):
                out.append(ADJACENT_CONTEXTS[0].format(" ".join(run)))
        for run in itertools.product(lits, repeat=2):
            r = " ".join(run)
            out.append(ADJACENT_CONTEXTS[1].format(r))
            out.append(ADJACENT_CONTEXTS[2].format(r, r))
    for p1 in PIECE_PREFIXES:
        for p2 in PIECE_PREFIXES:
            if p1 == p2:
                continue
            for b1 in PIECE_BODIES:
                for b2 in PIECE_BODIES:
                    out.append(ADJACENT_CONTEXTS[0].format(f'{p1}"{b1}" {p2}"{b2}"'))
    seen = set()
    out = [t for t in out if not (t in seen or seen.add(t))]
    out.sort(key=lambda t: (len(t), t))
    return out


def _adjacent_work(items):
    stats = new_stats()
    stats["adjacent_accepted"] = 0
    stats["adjacent_seam_changes_escape"] = 0
    fails = []
    hashes = set()
    import re

    seam = re.compile(r'\\(?:x[0-9a-fA-F]+|[0-7]{1,2})" (?:L|u8|u|U)?"[0-9a-fA-F]')
    for text in items:
        o = core.parse_outcome(text, "adjacent.c")
        if o[0] != "ok":
            stats["skipped"] += 1
            continue
        stats["adjacent_accepted"] += 1
        if seam.search(text):
            stats["adjacent_seam_changes_escape"] += 1
        account(o[1], stats, hashes)
        for sig, det in tree_problems(o[1], stats):
            fails.append((sig, {"text": text, "origin": "adjacent-literals"}, det))
    return stats, fails, hashes


def build_config(spec, config, attr_mode, coord_mode):
    from pycparser import c_ast
    from pycparser.c_parser import Coord

    def coord(i):
        if coord_mode == COORD_MODES[0]:
            return Coord("dir with space/fé.c", 10 + i, 3 + i)
        if coord_mode == COORD_MODES[1]:
            return Coord("f.c", 10 + i)
        if coord_mode == COORD_MODES[3]:
            return Coord("", 0, 0)
        if coord_mode == COORD_MODES[4]:
            return Coord("zero.c", 0)
        if coord_mode == COORD_MODES[5]:
            return Coord("huge.c", 4294967295 + i, 1)
        return None

    k = [0]

    def leaf(tag):
        k[0] += 1
        return c_ast.ID(f"leaf{k[0]}", coord(k[0]))

    vals = astspec.build_values(spec, config, leaf)
    for i, kind in enumerate(spec.kinds):
        if kind == "attr":
            if attr_mode == "None":
                vals[i] = None
            elif attr_mode == "[]":
                vals[i] = []
            elif attr_mode == "['a','b']":
                vals[i] = ["a", "b'\"\\"]
            elif attr_mode == "nasty-string":
                vals[i] = NASTY
            elif attr_mode.startswith("len-"):
                n = int(attr_mode.split("-")[1])
                vals[i] = (f"{spec.fields[i]}:" + "abcdefghij" * (n // 10 + 1))[:n]
            elif attr_mode.startswith("ends-in-"):
                vals[i] = "q'\"é " + "\\" * int(attr_mode.split("-")[2])
    return getattr(c_ast, spec.name)(*vals, coord(0))


def _config_work(items):
    sp = {s.name: s for s in astspec.read_cfg(astspec.cfg_path(core.REPO))}
    stats = new_stats()
    fails = []
    hashes = set()
    for name, config, am, cm in items:
        try:
            node = build_config(sp[name], tuple(config), am, cm)
        except Exception as ex:  # noqa   (C14's subject; reported there)
            fails.append((f"construct:{name}:{type(ex).__name__}", {"class": name, "config": list(config), "attr_mode": am, "coord_mode": cm}, repr(ex)[:200]))
            continue
        account(node, stats, hashes)
        for sig, det in tree_problems(node, stats):
            fails.append((sig, {"class": name, "config": list(config), "attr_mode": am, "coord_mode": cm}, det))
    return stats, fails, hashes


def regroup(fails):
    """Final signatures.  Workers emit 'op:where|what'; when one (op, what)
    shows up at >= 3 different Class.field places it is one generic defect
    (e.g. the list printer of repr) and gets the single signature 'op:*:what';
    otherwise the place is part of the signature."""
    places = {}
    for sig, _, _ in fails:
        if "|" in sig:
            head, what = sig.split("|", 1)
            op, where = head.split(":", 1)
            places.setdefault((op, what), set()).add(where)
    out = []
    for sig, case, det in fails:
        if "|" in sig:
            head, what = sig.split("|", 1)
            op, where = head.split(":", 1)
            if len(places[(op, what)]) >= 3:
                sig = f"{op}:*:{what}"
                det = f"[at {where}] {det}"
            else:
                sig = f"{op}:{where}:{what}" if where else f"{op}:{what}"
        out.append((sig.replace("~~", ":"), case, det))
    return out


def merge_stats(acc, st):
    for k, v in st.items():
        if isinstance(v, list):
            acc.setdefault(k, []).extend(v)
        elif isinstance(v, dict):
            d = acc.setdefault(k, {})
            for kk, vv in v.items():
                d[kk] = d.get(kk, 0) + vv
        else:
            acc[k] = acc.get(k, 0) + v


def run(tier):
    R = core.Run(PID, tier, "exploration")
    ok, msg, _ = mini_pool.verify()
    if not ok:
        R.fail("vacuous:mini-pool", {"message": msg}, "the hand-written pool no longer parses or misses node classes")
    import time

    t0 = time.time()
    pool, sizes, src = mini_pool.load_pool(tier)
    phases = {"pool_build": round(time.time() - t0, 1)}
    pool.sort(key=lambda x: (len(x[1]), x[1]))
    parts = {}
    allhash = set()
    total = new_stats()
    collected = []

    def sweep(label, fn, tasks):
        t1 = time.time()
        st_all = new_stats()
        hs_all = set()
        for st, fl, hs in core.pmap(fn, tasks, chunksize=1):
            merge_stats(st_all, st)
            collected.extend(fl)
            hs_all |= hs
        parts[label] = {k: v for k, v in st_all.items() if k not in ("classes", "depths")}
        parts[label]["distinct_trees"] = len(hs_all)
        merge_stats(total, st_all)
        allhash.update(hs_all)
        phases[label] = round(time.time() - t1, 1)
        return st_all

    # smallest inputs first so that the first case per signature is minimal
    lits = literals()
    st_l = sweep("literals", _literal_work, core.chunked(lits, 250))
    sp = astspec.read_cfg(astspec.cfg_path(core.REPO))
    confs = [(s.name, list(c), am, cm) for s in sp for c in astspec.configurations(s)
             for am in ATTR_MODES for cm in COORD_MODES]
    confs += [(s.name, list(c), am, COORD_MODES[0]) for s in sp if s.attrs for c in astspec.configurations(s) for am in LONG_MODES]
    st_c = sweep("configurations", _config_work, core.chunked(confs, 200))
    adj = adjacent_programs()
    st_a = sweep("adjacent_literals", _adjacent_work, core.chunked(adj, 150))
    small = [p for p in pool if len(p[1]) < 20000]
    big = [[p] for p in pool if len(p[1]) >= 20000]
    st_p = sweep("pool", _pool_work, big + core.chunked(small, 60))

    # history family: the HISTORY_DEEPEST deepest pool trees + every configuration that has children
    depths = sorted((d for d in st_p.get("depths", []) if len(d[2]) < HISTORY_MAX_CHARS), key=lambda d: (-d[0], len(d[2]), d[2]))
    deepest = depths[:HISTORY_DEEPEST]
    deepest.sort(key=lambda d: (len(d[2]), d[2]))  # smallest first again
    hitems = [("config", s.name, list(c)) for s in sp for c in astspec.configurations(s)
              if any(x in ("present", "[n]", "[n,n']") for x in c)]
    n_hconf = len(hitems)
    hitems += [("text", o, t) for _, o, t in deepest]
    by_size = sorted(st_p.get("depths", []), key=lambda d: (len(d[2]), d[2]))
    chosen = {}
    for d in by_size[:WEAKREF_SMALLEST] + [x for x in depths[:WEAKREF_DEEPEST]]:
        chosen[d[2]] = d
    witems = [("config", s.name, list(c)) for s in sp for c in astspec.configurations(s)]
    n_wconf = len(witems)
    witems += [("text", d[1], d[2]) for d in sorted(chosen.values(), key=lambda d: (len(d[2]), d[2]))]
    st_w = sweep("weakrefs", _weakref_work, core.chunked(witems, 25))
    # (the history family comes last: it is the one that provokes leftover state)
    st_h = sweep("history", _history_work, core.chunked(hitems, 8))
    total.pop("depths", None)

    # a family failure whose kind also occurs without the family's situation is not caused by it
    base = {_history_sig("", sig, prefix="").lstrip("~") for sig, case, _ in collected
            if not (case.get("history") or case.get("weakrefs"))}
    kept, explained = [], 0
    for sig, case, det in collected:
        if (case.get("history") or case.get("weakrefs")) and "~~" in sig and sig.split("~~", 1)[1] in base:
            explained += 1
            continue
        kept.append((sig, case, det))
    R.set("family_failures_already_seen_without_the_family", explained)
    kept.sort(key=lambda f: len(f[1].get("text", "")))  # smallest case first per signature (stable)
    R.fail_many(regroup(kept))

    feats = total.get("features", {})
    need = ["empty-list", "absent-field", "quote-in-string", "backslash", "non-ascii"]
    cfg_names = {s.name for s in sp}
    if (st_p["trees"] < 60 or st_l["trees"] < len(lits) or st_l.get("lexable", 0) < 100
            or st_c["trees"] < len(confs) or any(feats.get(f, 0) == 0 for f in need)
            or set(total["classes"]) != cfg_names or total["rebuilds"] < 6 * total["trees"] * 0.9
            or st_a.get("adjacent_accepted", 0) < 500 or st_a.get("adjacent_seam_changes_escape", 0) < 50
            or st_w.get("weakref_family_subjects", 0) < n_wconf + 100 or st_w.get("weakref_family_refs", 0) < 1000
            or st_h.get("history_cases", 0) < 3 * n_hconf
            or any(st_h.get("history_aborted", {}).get(f"{op}/{m}", 0) == 0 for op in HISTORY_OPS for m in ("recursion-limit", "interrupt"))):
        R.fail("vacuous", {"pool_trees": st_p["trees"], "literal_trees": st_l["trees"], "lexable": st_l.get("lexable"),
                           "config_trees": st_c["trees"], "features": feats,
                           "history_cases": st_h.get("history_cases", 0), "history_aborted": st_h.get("history_aborted", {}),
                           "classes_missing": sorted(cfg_names - set(total["classes"]))},
               "an explored set is empty, a special shape never occurred, or rebuilds did not happen")
    R.set("evaluations", total["rebuilds"] + total["text_comparisons"] + total["identity_checks"] + total["mutations"] + total["weakrefs"])
    R.set("distinct_nontrivial", len(allhash))
    R.set("states", total["trees"])
    R.set("transitions", total["rebuilds"])
    R.set("traces_validated_against_impl", total["rebuilds"])
    R.set("distinct_outcomes", len(allhash))
    R.set("trees", total["trees"])
    R.set("rebuilds_compared", total["rebuilds"])
    R.set("text_comparisons", total["text_comparisons"])
    R.set("trees_generator_handles", total["generated"])
    R.set("trees_generator_declines", total["generator_declined"])
    R.set("operations_skipped_python_limit", total["python_limit"])
    R.set("weakrefs_taken", total["weakrefs"])
    R.set("special_shapes", feats)
    R.set("node_classes_reached", total["classes"])
    R.set("adjacent_literal_programs", len(adj))
    R.set("adjacent_literal_programs_accepted", st_a.get("adjacent_accepted", 0))
    R.set("adjacent_literal_programs_where_gluing_changes_an_escape", st_a.get("adjacent_seam_changes_escape", 0))
    R.set("weakref_family_subjects", st_w.get("weakref_family_subjects", 0))
    R.set("weakref_family_checks", st_w.get("weakref_family_checks", 0))
    R.set("weakref_family_references_created", st_w.get("weakref_family_refs", 0))
    R.set("history_subjects", st_h.get("history_subjects", 0))
    R.set("history_cases", st_h.get("history_cases", 0))
    R.set("history_aborted_runs", st_h.get("history_aborted", {}))
    R.set("history_not_abortable", st_h.get("history_not_abortable", {}))
    R.set("history_pool_tree_depths_min_max", [min((d[0] for d in deepest), default=0), max((d[0] for d in deepest), default=0)])
    R.set("per_part", parts)
    R.set("phase_seconds", phases)
    R.set("pool_source", src)
    R.set("pool_parts", sizes)
    R.set("bounds", {"literal_alphabet": ALPHABET, "literal_body<=": MAXBODY, "prefixes": PREFIXES,
                     "pickle_protocols": PROTOCOLS, "attr_modes": ATTR_MODES + LONG_MODES, "coord_modes": COORD_MODES,
                     "sequence_child": list(astspec.SEQ_OPTIONS), "pool": src,
                     "adjacent_literals": {"piece_bodies": PIECE_BODIES, "prefixes": PIECE_PREFIXES, "run_lengths": [2, 3],
                                           "contexts": ADJACENT_CONTEXTS, "mixed_prefixes": "2-piece runs"},
                     "weakref_family": {"configurations": "all", "deepest_pool_trees": WEAKREF_DEEPEST,
                                        "smallest_pool_trees": WEAKREF_SMALLEST,
                                        "references": ["list of weakref.ref", "WeakValueDictionary id->node", "WeakKeyDictionary node->parent"],
                                        "orders": ["refs, rebuild, drop, rebuild", "rebuild, refs, rebuild"]},
                     "history": {"deepest_pool_trees": HISTORY_DEEPEST, "pool_text_below_chars": HISTORY_MAX_CHARS,
                                 "aborted_ops": HISTORY_OPS, "abort_modes": ["recursion-limit (bisected)", "interrupt (MemoryError from a field)"],
                                 "checked_on": ["same tree", "unrelated tree", "fresh tree made the same way after the aborted one was dropped"]}})
    R.assumptions += [
        "an operation that hits a Python limit (RecursionError, 'too many nested parentheses' in eval) is counted in "
        "operations_skipped_python_limit, not as a pycparser failure",
        "when CGenerator raises on the original tree the rebuilt trees must raise the same exception type",
    ]
    samples = ([{"constant": list(l)} for l in core.pick_samples(lits, 4)]
               + [{"configuration": c} for c in core.pick_samples(confs, 4)]
               + [{"pool_program": t[:200]} for _, t in core.pick_samples(pool, 4)])
    return R.finish(
        samples,
        "every pool AST, every run of 2-3 adjacent string literals over 9 piece bodies x 5 prefixes (pieces ending in hex / short "
        "octal escapes followed by pieces starting with digits included) in 3 contexts, every string/char Constant with body <= 3 over 7 characters x 5 prefixes (hand-built and, "
        "where the lexer accepts it, parsed), every class configuration x 5 attribute modes x 3 coord modes; each "
        "rebuilt by eval(repr), pickle protocols 2..HIGHEST and deepcopy and compared structurally (with coordinates "
        "for pickle/deepcopy), by generated text, by object identity and under mutation. Weak-reference family: for every configuration and the smallest and deepest pool trees "
        "the structural comparison (all protocols) with weak references to every node alive, after dropping them, and rebuilt-then-referenced. "
        "History family: for the deepest pool trees "
        "and every configuration with children, repr / pickle / deepcopy is first aborted midway (RecursionError under a bisected "
        "recursion limit, MemoryError raised from a field) and caught, then the structural comparison must hold on that tree, "
        "an unrelated one and a fresh one made after the first was dropped. evaluations = rebuilds + "
        "text/identity/mutation/weakref comparisons; non-trivial = distinct canonical trees (with coordinates)",
    )


def replay(rep):
    c = rep["case"]
    from pycparser import c_ast
    from pycparser.c_parser import Coord

    stats = new_stats()
    if "text" in c:
        o = core.parse_outcome(c["text"], "pool dir/pool.c")
        if o[0] != "ok":
            print("program no longer parses:", o[1:])
            return 0
        root = o[1]
        print("input:", repr(c["text"][:300]))
    elif "constant" in c:
        if c["constant"][0] == "pragma":
            root = c_ast.Pragma(c["constant"][1], Coord("lit.c", 0, 9))
        else:
            root = c_ast.Constant(c["constant"][0], c["constant"][1], Coord("lit.c", 1, 5))
        print("node:", repr(root))
    else:
        sp = {s.name: s for s in astspec.read_cfg(astspec.cfg_path(core.REPO))}
        root = build_config(sp[c["class"]], tuple(c["config"]), c["attr_mode"], c["coord_mode"])
        print("node:", repr(root))
    raw = tree_problems(root, stats)
    if c.get("weakrefs"):
        stats.update({"weakref_family_checks": 0, "weakref_family_refs": 0})
        if "text" in c:
            mk = lambda: core.parse_outcome(c["text"], "pool dir/pool.c")[1]  # noqa: E731
        else:
            spx = {s.name: s for s in astspec.read_cfg(astspec.cfg_path(core.REPO))}
            mk = lambda: build_config(spx[c["class"]], tuple(c["config"]), c["attr_mode"], c["coord_mode"])  # noqa: E731
        raw = raw + weakref_problems(mk, stats)
    if c.get("history"):
        stats.update({"history_cases": 0, "history_aborted": {}, "history_not_abortable": {}})
        if "text" in c:
            make = lambda: core.parse_outcome(c["text"], "pool dir/pool.c")[1]  # noqa: E731
            modes = ("recursion-limit", "interrupt")
        else:
            sp = {s.name: s for s in astspec.read_cfg(astspec.cfg_path(core.REPO))}
            make = lambda: build_config(sp[c["class"]], tuple(c["config"]), c["attr_mode"], c["coord_mode"])  # noqa: E731
            modes = ("interrupt",)
        raw = raw + history_problems(make, stats, modes)
        print("aborted runs:", stats["history_aborted"])
    probs = [(sig, det) for sig, _, det in regroup([(sig, {}, det) for sig, det in raw])]
    for p in probs:
        print("problem:", p)
    if not probs:
        print("all rebuilt trees equal and independent")
    return 1 if probs else 0

"""Baselines (and counterexample confirmations) computed in pristine processes.

The reference observation of C12 ("what a brand-new instance returns") and of
C13 ("what a task returns when it runs alone") must not be computed in a
process that has already executed pycparser code: a module-level or
class-level cache would pollute the baseline exactly like the run under test
and the comparison would be blind to it.

`start_reserve()` must be called by a check before its process (or any of its
pmap workers / threads) executes a parse / lex / generate / visit call.  It
forks a *reserve* process that never runs pycparser code itself.
`pristine_map(fn, tasks)` asks the reserve to run every task in its own
grand-child, forked from the reserve (multiprocessing fork context,
maxtasksperchild=1, chunksize=1): one process per baseline, so baselines
cannot pollute each other either, at any later time of the run.

Harness code that is about to run pycparser code calls `touch(what)`;
`start_reserve` refuses to start from a touched process and every child
checks that it starts untouched, so an ordering mistake in a check is a hard
error rather than a silently polluted baseline.  Every baseline is computed
`repeat` (2) times in separate children; both results are returned so that the
caller can report a baseline that is not even stable between two pristine
processes.
"""
from __future__ import annotations

import multiprocessing as mp
import os
import sys
import traceback

from . import core

_TOUCHED = {}  # pid -> first reason
_RESERVE = None  # (process, connection, owner pid)


def touch(what: str) -> None:
    """Record that this process is about to execute pycparser code."""
    _TOUCHED.setdefault(os.getpid(), what)


def is_pristine() -> bool:
    return os.getpid() not in _TOUCHED


def _init():
    import signal

    signal.signal(signal.SIGINT, signal.SIG_IGN)
    sys.setrecursionlimit(3000)


def _call(arg):
    fn, task = arg
    if not is_pristine():
        raise RuntimeError("baseline child is not pristine: " + _TOUCHED[os.getpid()])
    return fn(task)


def _run_jobs(jobs, nproc):
    ctx = mp.get_context("fork")
    n = max(1, min(nproc, len(jobs)))
    with ctx.Pool(n, initializer=_init, maxtasksperchild=1) as p:
        flat = p.map(_call, jobs, chunksize=1)
        p.close()
        p.join()
    return flat


def _reserve_main(conn):
    """The reserve: never runs pycparser code; forks one child per job."""
    import signal

    signal.signal(signal.SIGINT, signal.SIG_IGN)
    while True:
        try:
            req = conn.recv()
        except EOFError:
            break
        if req is None:
            break
        jobs, nproc = req
        try:
            if not is_pristine():
                raise RuntimeError("the reserve process is not pristine")
            conn.send(("ok", _run_jobs(jobs, nproc)))
        except BaseException as e:  # noqa
            conn.send(("err", f"{type(e).__name__}: {e}\n{traceback.format_exc()[-2000:]}"))
    os._exit(0)


def start_reserve():
    """Fork the reserve from the (still pristine) calling process."""
    global _RESERVE
    if _RESERVE is not None and _RESERVE[2] == os.getpid():
        return
    if not is_pristine():
        raise RuntimeError(
            "start_reserve called from a process that already ran pycparser code ("
            + _TOUCHED[os.getpid()] + "): baselines would be polluted")
    ctx = mp.get_context("fork")
    parent, child = ctx.Pipe()
    proc = ctx.Process(target=_reserve_main, args=(child,), daemon=False)
    proc.start()
    child.close()
    _RESERVE = (proc, parent, os.getpid())


def stop_reserve():
    global _RESERVE
    if _RESERVE is not None and _RESERVE[2] == os.getpid():
        try:
            _RESERVE[1].send(None)
            _RESERVE[0].join(5)
        except Exception:  # noqa
            pass
    _RESERVE = None


def pristine_map(fn, tasks, repeat=2):
    """[[result of fn(task) in child 1, ... in child `repeat`] for task in
    tasks]; every call in its own process, forked from the reserve."""
    tasks = list(tasks)
    if not tasks:
        return []
    if _RESERVE is None or _RESERVE[2] != os.getpid():
        start_reserve()
    jobs = [(fn, t) for t in tasks for _ in range(repeat)]
    _RESERVE[1].send((jobs, core.NPROC))
    status, flat = _RESERVE[1].recv()
    if status != "ok":
        raise RuntimeError("pristine child failed: " + flat)
    return [flat[i * repeat:(i + 1) * repeat] for i in range(len(tasks))]

"""Engine F - family sweep: deterministic cost functions over scalable input
families (DESIGN 3.F, used by C16).

* `measure(text)` runs `CParser().parse(text)` and counts the Python `call`
  events (as `sys.setprofile` reports them; observed through the cheaper
  `sys.monitoring` PY_START where the interpreter has it, cross-checked
  against `sys.setprofile`) whose code object lives in pycparser's
  `c_parser.py` / `c_lexer.py` / `ast_transforms.py`.  The count is a pure
  function of the text (checked by the caller by measuring twice).  A fixed
  *step cap* (a number of call events, never a time) aborts a run that is
  already far outside anything a linear family can reach.
* A catalogue of *repeatable* constructs (k -> text with k items) and of
  *nestable* constructs.  A nestable construct is a template with one hole,
  the syntactic category it produces, and the category its hole takes.
  Categories are glued together with the shortest chain of neutral coercions
  (e.g. a type name goes into an expression hole as `sizeof(T)`), and operator
  precedence / declarator binding is respected by inserting parentheses only
  where the grammar needs them.  `nest_text([c1, ..., cn])` renders
  c1(c2(...cn(atom))) as a complete translation unit.

Nothing here is random; sizes are fixed numbers chosen by the check.
"""
from __future__ import annotations

import os
import sys
import time
from collections import namedtuple

FILES = ("c_parser.py", "c_lexer.py", "ast_transforms.py")
RECURSION_LIMIT = 40000


# ---------------------------------------------------------------------------
# deterministic step counter
# ---------------------------------------------------------------------------
class StepCap(BaseException):
    """Raised from the profile hook when the fixed step cap is exceeded."""


_CODE_HIT = {}
_PKG_DIR = None


def _pkg_dir():
    global _PKG_DIR
    if _PKG_DIR is None:
        import pycparser

        _PKG_DIR = os.path.realpath(os.path.dirname(pycparser.__file__))
    return _PKG_DIR


def _is_counted(code) -> bool:
    fn = code.co_filename
    if os.path.basename(fn) not in FILES:
        return False
    return os.path.realpath(os.path.dirname(fn)) == _pkg_dir()


def _counter(cap, funcs, edges):
    """-> (on_call(code, caller_code_or_None) -> None, get_n).  Shared by the
    two ways of observing call events."""
    n = 0
    limit = cap if cap is not None else 1 << 62
    e_in = e_out = None
    if edges is not None:
        e_in = edges.setdefault("in", {})
        e_out = edges.setdefault("out", {})
    hit = _CODE_HIT

    def on_call(code, frame):
        # frame: the frame of the function being entered (only looked at when
        # per-caller counts are wanted)
        nonlocal n
        n += 1
        if funcs is not None:
            funcs[code.co_name] = funcs.get(code.co_name, 0) + 1
        if e_in is not None:
            e_in[code.co_name] = e_in.get(code.co_name, 0) + 1
            back = frame.f_back
            if back is not None:
                bc = back.f_code
                hb = hit.get(bc)
                if hb is None:
                    hb = hit[bc] = _is_counted(bc)
                if hb:
                    e_out[bc.co_name] = e_out.get(bc.co_name, 0) + 1
        if n > limit:
            raise StepCap()

    return on_call, lambda: n


_MON_TOOL = None


def _observe_setprofile(run, on_call, want_frames, fast=None):
    """Reference implementation: sys.setprofile, `call` events."""
    hit = _CODE_HIT

    def prof(frame, event, arg):
        if event == "call":
            code = frame.f_code
            h = hit.get(code)
            if h is None:
                h = hit[code] = _is_counted(code)
            if h:
                on_call(code, frame)

    sys.setprofile(prof)
    try:
        run()
    finally:
        sys.setprofile(None)


def _observe_monitoring(run, on_call, want_frames, fast=None):
    """Same events through sys.monitoring (3.12+): PY_START of the counted code
    objects only - code outside the three files is switched off at its first
    event, and there are no return / C-call events at all, which makes this
    ~5x cheaper.  Checked against the reference by the selfcheck and by C16 on
    one member of every single-construct family."""
    mon = sys.monitoring
    hit = _CODE_HIT
    DISABLE = mon.DISABLE
    getframe = sys._getframe

    def cb(code, offset):
        h = hit.get(code)
        if h is None:
            h = hit[code] = _is_counted(code)
        if not h:
            return DISABLE
        on_call(code, getframe(1) if want_frames else None)

    if fast is not None:
        # plain counting: one Python frame per event instead of two
        limit, box = fast

        def cb(code, offset):  # noqa: F811
            h = hit.get(code)
            if h is None:
                h = hit[code] = _is_counted(code)
            if not h:
                return DISABLE
            box[0] += 1
            if box[0] > limit:
                raise StepCap()

    global _MON_TOOL
    if _MON_TOOL is None:
        for tid in (4, 3):
            if mon.get_tool(tid) is None:
                _MON_TOOL = tid
                break
        else:
            raise RuntimeError("no free sys.monitoring tool id")
    tool = _MON_TOOL
    mon.use_tool_id(tool, "verif-family-sweep")
    try:
        mon.register_callback(tool, mon.events.PY_START, cb)
        mon.restart_events()
        mon.set_events(tool, mon.events.PY_START)
        try:
            run()
        finally:
            mon.set_events(tool, 0)
            mon.register_callback(tool, mon.events.PY_START, None)
    finally:
        mon.free_tool_id(tool)


def measure(text, cap=None, funcs=None, edges=None, method=None):
    """-> (outcome, steps).  outcome: 'ok' | 'perr:<msg>' | 'rec' | 'cap' |
    'exc:<repr>'.  steps = number of `call` events (as sys.setprofile reports
    them) of code objects in the three parser files.  `funcs`, if a dict,
    receives per-function call counts; `edges`, if a dict, receives {'in':
    {callee: n}, 'out': {caller: n}} over the counted calls (caller = the
    calling function when it is itself in a counted file).  method:
    'setprofile' | 'monitoring' | None (monitoring when the interpreter has
    it)."""
    import gc

    from pycparser.c_parser import CParser, ParseError

    if sys.getrecursionlimit() < RECURSION_LIMIT:
        sys.setrecursionlimit(RECURSION_LIMIT)
    if method is None:
        method = "monitoring" if hasattr(sys, "monitoring") else "setprofile"
    observe = _observe_monitoring if method == "monitoring" else _observe_setprofile
    parser = CParser()
    on_call, get_n = _counter(cap, funcs, edges)
    fast = None
    if method == "monitoring" and funcs is None and edges is None:
        box = [0]
        fast = (cap if cap is not None else 1 << 62, box)
        get_n = lambda: box[0]  # noqa: E731

    out = "ok"
    # the cyclic collector only adds (load-dependent) time: ASTs are acyclic
    gc_was = gc.isenabled()
    gc.disable()
    try:
        observe(lambda: parser.parse(text), on_call, edges is not None, fast)
    except ParseError as e:
        out = "perr:" + str(e)[:120]
    except RecursionError:
        out = "rec"
    except StepCap:
        out = "cap"
    except Exception as e:  # noqa
        out = "exc:" + repr(e)[:120]
    finally:
        if gc_was:
            gc.enable()
    return out, get_n()


_WARM = False
_KIND = {}  # code object -> 0 ignored, 1 parser file, 2 other Python code
_IGNORED_DIRS = None


def _code_kind(code) -> int:
    """1: c_parser/c_lexer/ast_transforms; 0: the harness itself and the `re`
    package (its pattern cache makes the first use of a pattern cost thousands
    of calls once per process - not work that depends on the input) and
    copyreg (caches __slotnames__ on a class the first time an instance is
    copied; copy.py itself stays counted); 2: any
    other Python code that runs on behalf of parse() - c_ast constructors,
    typing.cast, copy.deepcopy, ..."""
    global _IGNORED_DIRS
    if _is_counted(code):
        return 1
    if _IGNORED_DIRS is None:
        import copyreg as _copyreg
        import re as _re

        _IGNORED_DIRS = (os.path.realpath(os.path.dirname(_re.__file__)),
                         os.path.realpath(os.path.dirname(__file__)),
                         os.path.realpath(_copyreg.__file__))
    fn = os.path.realpath(code.co_filename)
    return 0 if (os.path.dirname(fn) in _IGNORED_DIRS or fn in _IGNORED_DIRS) else 2


def measure_both(text, cap=None, cap_total=None, per_func=None):
    """-> (outcome, steps, total).  steps as measure(); total = function
    entries (PY_START) of *all* Python code running during parse(), so that
    work done in library code on behalf of the parser (say a deep copy of a
    sub-tree) is visible too.  Either cap ends the run with outcome 'cap'.
    per_func, if a dict, receives the entries of every parser-file function."""
    import gc

    from pycparser.c_parser import CParser, ParseError

    if sys.getrecursionlimit() < RECURSION_LIMIT:
        sys.setrecursionlimit(RECURSION_LIMIT)
    global _WARM
    if not _WARM:
        # once per process: let every lazily initialised library path (regex
        # flag arithmetic on the first re.match of a pattern, ...) happen
        # before anything is counted
        _WARM = True
        CParser().parse('# 1 "f.c" 3\n#line 2 "g.c" 1 2\n#pragma p\nint x = sizeof(int);\n')
    parser = CParser()
    kind = _KIND
    lim1 = cap if cap is not None else 1 << 62
    lim2 = cap_total if cap_total is not None else 1 << 62
    box = [0, 0]
    out = "ok"
    gc_was = gc.isenabled()
    gc.disable()
    try:
        if hasattr(sys, "monitoring"):
            mon = sys.monitoring
            DISABLE = mon.DISABLE

            def cb(code, offset):
                k = kind.get(code)
                if k is None:
                    k = kind[code] = _code_kind(code)
                if k == 0:
                    return DISABLE
                box[1] += 1
                if k == 1:
                    box[0] += 1
                    if per_func is not None:
                        nm = code.co_name
                        per_func[nm] = per_func.get(nm, 0) + 1
                    if box[0] > lim1:
                        raise StepCap()
                if box[1] > lim2:
                    raise StepCap()

            global _MON_TOOL
            if _MON_TOOL is None:
                for tid in (4, 3):
                    if mon.get_tool(tid) is None:
                        _MON_TOOL = tid
                        break
                else:
                    raise RuntimeError("no free sys.monitoring tool id")
            tool = _MON_TOOL
            mon.use_tool_id(tool, "verif-family-sweep")
            try:
                mon.register_callback(tool, mon.events.PY_START, cb)
                mon.restart_events()
                mon.set_events(tool, mon.events.PY_START)
                try:
                    parser.parse(text)
                finally:
                    mon.set_events(tool, 0)
                    mon.register_callback(tool, mon.events.PY_START, None)
            finally:
                mon.free_tool_id(tool)
        else:  # interpreters without sys.monitoring: `call` events instead

            def prof(frame, event, arg):
                if event == "call":
                    code = frame.f_code
                    k = kind.get(code)
                    if k is None:
                        k = kind[code] = _code_kind(code)
                    if k:
                        box[1] += 1
                        if k == 1:
                            box[0] += 1
                        if box[0] > lim1 or box[1] > lim2:
                            raise StepCap()

            sys.setprofile(prof)
            try:
                parser.parse(text)
            finally:
                sys.setprofile(None)
    except ParseError as e:
        out = "perr:" + str(e)[:120]
    except RecursionError:
        out = "rec"
    except StepCap:
        out = "cap"
    except Exception as e:  # noqa
        out = "exc:" + repr(e)[:120]
    finally:
        if gc_was:
            gc.enable()
    return out, box[0], box[1]


def foreign_attribution(text, edges, cap=None):
    """For the origin analysis of a blow-up seen only by the all-python
    counter: edges['in'][f] = entries of parser function f; edges['out'][f] =
    entries of non-parser Python code whose innermost parser-file caller on
    the stack is f.  -> outcome."""
    from pycparser.c_parser import CParser, ParseError

    measure_both("int x;")  # warm, recursion limit
    mon = sys.monitoring
    kind = _KIND
    e_in = edges.setdefault("in", {})
    e_out = edges.setdefault("out", {})
    getframe = sys._getframe
    limit = cap if cap is not None else 1 << 62
    n = [0]

    def cb(code, offset):
        k = kind.get(code)
        if k is None:
            k = kind[code] = _code_kind(code)
        if k == 0:
            return mon.DISABLE
        n[0] += 1
        if n[0] > limit:
            raise StepCap()
        if k == 1:
            e_in[code.co_name] = e_in.get(code.co_name, 0) + 1
            return
        f = getframe(1).f_back
        while f is not None:
            if kind.get(f.f_code) == 1:
                nm = f.f_code.co_name
                e_out[nm] = e_out.get(nm, 0) + 1
                return
            f = f.f_back

    parser = CParser()
    tool = 4 if mon.get_tool(4) is None else 3
    mon.use_tool_id(tool, "verif-family-sweep")
    out = "ok"
    try:
        mon.register_callback(tool, mon.events.PY_START, cb)
        mon.restart_events()
        mon.set_events(tool, mon.events.PY_START)
        try:
            parser.parse(text)
        except ParseError:
            out = "perr"
        except StepCap:
            out = "cap"
        finally:
            mon.set_events(tool, 0)
            mon.register_callback(tool, mon.events.PY_START, None)
    finally:
        mon.free_tool_id(tool)
    return out


# ---------------------------------------------------------------------------
# third counter: items moved by bulk container operations called from parser code
# ---------------------------------------------------------------------------
_BULK_TYPES = (dict, list, set, frozenset, tuple)
_BULK_FUNCS = (sorted, sum, min, max, any, all)
# bulk methods whose cost is the size of the receiver
_BULK_SELF_METHODS = {"copy", "clear", "sort", "reverse", "index", "count", "remove", "insert",
                      "__contains__", "__copy__"}
_CONTAINERS = (dict, list, set, frozenset, tuple)
# str methods that scan or copy the whole receiver (find/index/startswith take a
# start position and stop early, strip only looks at the ends: not counted)
_BULK_STR_METHODS = {"partition", "rpartition", "split", "rsplit", "splitlines", "replace", "lower",
                     "upper", "casefold", "swapcase", "title", "capitalize", "encode", "translate",
                     "expandtabs", "center", "ljust", "rjust", "zfill", "count"}


def _bulk_weight(callable_, arg0, missing):
    """Items a builtin container call moves or scans, as far as the CALL event
    lets us see.  The event carries the callable and the first argument only,
    and for `obj.method(x)` that first argument is `obj`: so constructors and
    sorted/sum/min/max/any/all weigh len(argument), receiver-sized methods
    (copy, clear, sort, reverse, index, count, remove, insert; for str:
    partition, split, replace, lower, ...) weigh len(receiver), and d.update(x) / l.extend(x) / s.union(x), whose cost is
    len(x), cannot be weighed (x is not in the event; the copy that produced x
    is counted where it was made).  None: not a bulk operation - the call site
    is switched off."""
    if callable_ in _BULK_TYPES or callable_ in _BULK_FUNCS:
        if arg0 is missing:
            return 0
        return len(arg0) if isinstance(arg0, _CONTAINERS) else 0
    name = getattr(callable_, "__name__", None)
    if name in _BULK_STR_METHODS and getattr(callable_, "__objclass__", None) is str:
        return len(arg0) if isinstance(arg0, str) else 0
    if name in _BULK_SELF_METHODS:
        if getattr(callable_, "__objclass__", None) in _CONTAINERS:  # descriptor: arg0 is the receiver
            return len(arg0) if (arg0 is not missing and isinstance(arg0, _CONTAINERS)) else 0
        self_ = getattr(callable_, "__self__", None)
        if isinstance(self_, _CONTAINERS):  # bound method called through a variable
            return len(self_)
    return None


def measure_bulk(text):
    """-> (outcome, items, {calling parser function: items}).  The number of
    container items moved or scanned by builtin bulk operations (dict(x),
    list(x), sorted(x), d.copy(), d.clear(), l.extend(x), ...) called directly
    from code in the three parser files - work done in C that neither call
    counter can see.  sys.monitoring CALL events, local to the parser files'
    code objects; a call site whose callee is not a bulk operation is switched
    off after its first event, so this costs little more than a plain parse.
    Deterministic."""
    import gc

    from pycparser.c_parser import CParser, ParseError

    measure_both("int x;")  # warm-up, recursion limit
    if not hasattr(sys, "monitoring"):
        return "unsupported", 0, {}
    mon = sys.monitoring
    kind = _KIND
    DISABLE = mon.DISABLE
    MISSING = mon.MISSING
    total = [0]
    by = {}
    tool = 4 if mon.get_tool(4) is None else 3
    seen = set()

    def on_start(code, offset):
        k = kind.get(code)
        if k is None:
            k = kind[code] = _code_kind(code)
        if k == 1 and code not in seen:
            seen.add(code)
            mon.set_local_events(tool, code, mon.events.CALL)
        return DISABLE

    def on_call(code, offset, callable_, arg0):
        w = _bulk_weight(callable_, arg0, MISSING)
        if w is None:
            return DISABLE
        if w:
            total[0] += w
            by[code.co_name] = by.get(code.co_name, 0) + w

    parser = CParser()
    out = "ok"
    gc_was = gc.isenabled()
    gc.disable()
    mon.use_tool_id(tool, "verif-family-sweep")
    try:
        mon.register_callback(tool, mon.events.PY_START, on_start)
        mon.register_callback(tool, mon.events.CALL, on_call)
        mon.restart_events()
        mon.set_events(tool, mon.events.PY_START)
        try:
            parser.parse(text)
        except ParseError as e:
            out = "perr:" + str(e)[:100]
        except RecursionError:
            out = "rec"
        finally:
            mon.set_events(tool, 0)
            for code in seen:
                mon.set_local_events(tool, code, 0)
            mon.register_callback(tool, mon.events.PY_START, None)
            mon.register_callback(tool, mon.events.CALL, None)
    finally:
        mon.free_tool_id(tool)
        if gc_was:
            gc.enable()
    return out, total[0], by


def measure_lines(text):
    """-> (outcome, {parser function: source lines executed}).  sys.monitoring
    LINE events local to the code objects of the three parser files: the one
    deterministic counter that sees a `while` loop that calls nothing (walking
    a declarator chain, a scope stack).  Several times dearer than the call
    counters: used for the single-construct families only."""
    import gc

    from pycparser.c_parser import CParser, ParseError

    measure_both("int x;")  # warm-up, recursion limit
    if not hasattr(sys, "monitoring"):
        return "unsupported", {}
    mon = sys.monitoring
    kind = _KIND
    DISABLE = mon.DISABLE
    tool = 4 if mon.get_tool(4) is None else 3
    seen = set()
    lines = {}

    def on_start(code, offset):
        k = kind.get(code)
        if k is None:
            k = kind[code] = _code_kind(code)
        if k == 1 and code not in seen:
            seen.add(code)
            mon.set_local_events(tool, code, mon.events.LINE)
        return DISABLE

    def on_line(code, line):
        nm = code.co_name
        lines[nm] = lines.get(nm, 0) + 1

    parser = CParser()
    out = "ok"
    gc_was = gc.isenabled()
    gc.disable()
    mon.use_tool_id(tool, "verif-family-sweep")
    try:
        mon.register_callback(tool, mon.events.PY_START, on_start)
        mon.register_callback(tool, mon.events.LINE, on_line)
        mon.restart_events()
        mon.set_events(tool, mon.events.PY_START)
        try:
            parser.parse(text)
        except ParseError as e:
            out = "perr:" + str(e)[:100]
        except RecursionError:
            out = "rec"
        finally:
            mon.set_events(tool, 0)
            for code in seen:
                mon.set_local_events(tool, code, 0)
            mon.register_callback(tool, mon.events.PY_START, None)
            mon.register_callback(tool, mon.events.LINE, None)
    finally:
        mon.free_tool_id(tool)
        if gc_was:
            gc.enable()
    return out, lines


def steps(text):
    """Number of call events inside the parser modules during parse(text)."""
    return measure(text)[1]


class LexTimeout(Exception):
    """Raised by the SIGALRM watchdog (the `re` engine polls for signals)."""


_MALLOC_TUNED = False


def tune_malloc():
    """Keep freed memory inside the process (glibc: no mmap for big blocks, no
    trimming), so that a warmed-up re-run measures the lexer's work and not the
    first-touch page faults of freshly mapped memory.  Why this matters: the
    master regex has ~150 groups, so every iteration of a starred group saves
    ~2.4 KB of marks; a 16 KB unterminated char constant makes `re` allocate
    ~40 MB, and on a loaded VM first-touching 40 MB costs seconds while the
    match itself costs ~15 ms.  Best effort: silently does nothing without
    glibc."""
    global _MALLOC_TUNED
    if _MALLOC_TUNED:
        return
    _MALLOC_TUNED = True
    try:
        import ctypes

        libc = ctypes.CDLL("libc.so.6")
        libc.mallopt(-4, 0)  # M_MMAP_MAX = 0
        libc.mallopt(-1, 1 << 30)  # M_TRIM_THRESHOLD
        libc.mallopt(-2, 64 << 20)  # M_TOP_PAD
    except Exception:  # noqa
        pass


class _FirstLexError(Exception):
    pass


def _lex_once(text, stop_at_error=False):
    """stop_at_error: end the run at the first lexer error, which is what
    parse() does (its error callback raises)."""
    from pycparser.c_lexer import CLexer

    errs = []

    def on_error(msg, line, col):
        errs.append(msg)
        if stop_at_error:
            raise _FirstLexError()

    lx = CLexer(
        error_func=on_error,
        on_lbrace_func=lambda: None,
        on_rbrace_func=lambda: None,
        type_lookup_func=lambda name: False,
    )
    lx.input(text)
    ntok = 0
    t0 = time.perf_counter()
    c0 = time.process_time()
    try:
        while lx.token() is not None:
            ntok += 1
    except _FirstLexError:
        pass
    # time waiting for a CPU on a loaded machine is not the lexer's work: take
    # the process CPU time when that is less than the wall time
    dt = min(time.perf_counter() - t0, time.process_time() - c0)
    return dt, ntok, len(errs)


def _alarm(signum, frame):
    raise LexTimeout()


def _lex_time_local(text, repeat=5, warm_limit=120.0, run_limit=20.0, stop_at_error=False):
    """Stand-alone lexer over `text` with a non-raising error callback: one
    untimed warm-up run, then the best time of `repeat` runs.
    -> (seconds, tokens, errors) or ('timeout', phase, limit).  The only place
    where wall-clock is looked at; a SIGALRM watchdog bounds each run."""
    import signal

    tune_malloc()
    old = signal.signal(signal.SIGALRM, _alarm)
    try:
        try:
            signal.setitimer(signal.ITIMER_REAL, warm_limit)
            _lex_once(text, stop_at_error)
        except LexTimeout:
            return ("timeout", "warm-up", warm_limit)
        finally:
            signal.setitimer(signal.ITIMER_REAL, 0)
        best = None
        ntok = nerr = 0
        for _ in range(repeat):
            try:
                signal.setitimer(signal.ITIMER_REAL, run_limit)
                dt, ntok, nerr = _lex_once(text, stop_at_error)
            except LexTimeout:
                return ("timeout", "timed run", run_limit)
            finally:
                signal.setitimer(signal.ITIMER_REAL, 0)
            if best is None or dt < best:
                best = dt
            if dt >= 1.0:  # a second per run: repeating it cannot rescue it
                break
        return best, ntok, nerr
    finally:
        signal.signal(signal.SIGALRM, old)


# ---------------------------------------------------------------------------
# repeatable constructs: name -> (prefix, item(i), separator, suffix)
# ---------------------------------------------------------------------------
def _fn(body_item):
    return ("void f(int x, int y){", body_item, " ", "}")


# families the pinned tree rejects (not C99); a tree that accepts them must keep them linear
MAY_BE_REJECTED = {"distinct_knr_implicit_int_list"}

REPEATABLE = {
    # -- declarations, one kind each ---------------------------------------
    "decl_var": ("", lambda i: f"int v{i};", " ", ""),
    "decl_init": ("", lambda i: f"int v{i} = {i};", " ", ""),
    "decl_ptr_array": ("", lambda i: f"char *v{i}[4];", " ", ""),
    "decl_storage_qual": ("", lambda i: f"static const unsigned long v{i};", " ", ""),
    "decl_typedef_use": ("", lambda i: f"typedef int T{i}; T{i} v{i};", " ", ""),
    "decl_func_proto": ("", lambda i: f"int f{i}(int a, char *b);", " ", ""),
    "decl_func_def": ("", lambda i: f"int f{i}(int a){{return a;}}", " ", ""),
    "decl_knr_def": ("", lambda i: f"int f{i}(a, b) int a; int b; {{return a;}}", " ", ""),
    "decl_struct": ("", lambda i: f"struct S{i} {{int a; char b;}};", " ", ""),
    "decl_union": ("", lambda i: f"union U{i} {{int a; char b;}};", " ", ""),
    "decl_enum": ("", lambda i: f"enum E{i} {{A{i}, B{i} = 2}};", " ", ""),
    "decl_static_assert": ("", lambda i: '_Static_assert(1, "m");', " ", ""),
    # every item declares a DIFFERENT file-scope name and carries braces
    "distinct_func_def_one_line": ("", lambda i: f"int f{i}(void){{return {i};}}", "\n", "\n"),
    "distinct_func_def_locals": ("", lambda i: f"int g{i}(int a{i}){{ int b{i} = a{i}; {{ int c{i}; c{i} = b{i}; }} return b{i}; }}", "\n", ""),
    "distinct_knr_def": ("", lambda i: f"int k{i}(a{i}, b{i}) int a{i}; char b{i}; {{return a{i};}}", "\n", ""),
    "distinct_proto_then_def": ("", lambda i: f"int p{i}(int); int p{i}(int a){{return a;}}", "\n", ""),
    "distinct_brace_init_array": ("", lambda i: f"int a{i}[] = {{{i}, {i + 1}}};", "\n", ""),
    "distinct_brace_init_struct": ("struct P {int x, y;}; ", lambda i: f"struct P q{i} = {{.x = {i}, .y = 0}};", "\n", ""),
    "distinct_struct_body_var": ("", lambda i: f"struct S{i} {{int m{i}; char n{i};}} s{i};", "\n", ""),
    "distinct_union_body": ("", lambda i: f"union U{i} {{int m{i}; float n{i};}};", "\n", ""),
    "distinct_typedef_struct": ("", lambda i: f"typedef struct {{int m{i};}} T{i};", "\n", ""),
    "distinct_typedef_then_use": ("", lambda i: f"typedef int I{i}; I{i} f{i}(I{i} a{i}){{ I{i} b{i} = a{i}; return b{i}; }}", "\n", ""),
    "distinct_enum_distinct_enumerators": ("", lambda i: f"enum E{i} {{A{i}, B{i} = {i}, C{i}}};", "\n", ""),
    "distinct_anonymous_enum": ("", lambda i: f"enum {{X{i}, Y{i}}};", "\n", ""),
    "distinct_compound_literal_init": ("", lambda i: f"int *c{i} = (int[]){{{i}, 0}};", "\n", ""),
    # parser-opened scopes (for-declarations, old-style declaration lists,
    # non-scope braces) right before a closing brace: a scope that is not
    # closed again makes every later lookup walk a deeper stack
    "distinct_for_decl_if_last": ("", lambda i: f"void h{i}(int n{i}){{ for (int i = 0; i < 3; i++) if (i) n{i}++; }}", "\n", ""),
    "distinct_for_decl_block_last": ("", lambda i: f"void j{i}(int n{i}){{ {{ for (int i = 0, k{i} = 1; i < k{i}; i++) {{ n{i}++; }} }} }}", "\n", ""),
    "distinct_for_static_assert": ("", lambda i: f"void s{i}(int n{i}){{ for (_Static_assert(1, \"m\"); n{i}; ) if (n{i}) break; }}", "\n", ""),
    # rejected on the pinned tree (implicit int AND a declaration list is C89
    # only): measured all the same - a change that starts accepting it must
    # not make it super-linear
    "distinct_knr_implicit_int_list": ("", lambda i: f"ki{i}(a{i}) int a{i}; {{ return a{i}; }}", "\n", ""),
    "distinct_knr_enum_list": ("", lambda i: f"int ke{i}(e{i}) enum {{ KA{i}, KB{i} }} e{i}; {{ return e{i} == KB{i}; }}", "\n", ""),
    "distinct_enum_in_struct_in_fn": ("", lambda i: f"int es{i}(void){{ struct {{ enum {{ EA{i}, EB{i} }} m; }} v = {{ EB{i} }}; return sizeof(enum {{ EC{i} }}) + v.m; }}", "\n", ""),
    "for_decl_if_in_one_function": ("void f(int n){ ", lambda i: f"{{ for (int i{i} = 0; i{i} < 3; i{i}++) if (i{i}) n++; }}", " ", " }"),
    "distinct_locals_in_one_function": ("void f(void){ ", lambda i: f"{{ int v{i} = {i}; }} int w{i};", " ", " }"),
    # -- lists inside one construct ----------------------------------------
    "init_declarators": ("int ", lambda i: f"v{i}", ", ", ";"),
    "enumerators": ("enum E {", lambda i: f"e{i}", ", ", "};"),
    "enumerators_valued": ("enum E {", lambda i: f"e{i} = {i}", ", ", "};"),
    "struct_members": ("struct S {", lambda i: f"int m{i};", " ", "};"),
    "struct_declarators": ("struct S { int ", lambda i: f"m{i}", ", ", "; };"),
    "bitfields": ("struct S {", lambda i: f"int m{i} : 3;", " ", "};"),
    # one specifier, k declarators (and k members x k declarators: the
    # `_rep2` entries put k items in both places)
    "struct_def_k_declarators": ("struct S {int a; char b;} ", lambda i: f"v{i}", ", ", ";"),
    "union_def_k_declarators": ("union U {int a; char b;} ", lambda i: f"*v{i}", ", ", ";"),
    "enum_def_k_declarators": ("enum E {A, B} ", lambda i: f"v{i}[2]", ", ", ";"),
    "typedef_struct_k_names": ("typedef struct {int a;} ", lambda i: f"T{i}", ", ", ";"),
    "local_struct_k_declarators": ("void f(void){ struct {int a;} ", lambda i: f"v{i}", ", ", "; }"),
    "member_struct_k_declarators": ("struct S { struct {int a;} ", lambda i: f"m{i}", ", ", "; };"),
    "init_items": ("int a[] = {", lambda i: f"{i}", ", ", "};"),
    "init_items_designated": ("int a[] = {", lambda i: f"[{i}] = {i}", ", ", "};"),
    "designator_chain": ("struct s v = { ", lambda i: ".m[0]", "", " = 1 };"),
    "call_args": ("void f(void){ g(", lambda i: f"{i}", ", ", "); }"),
    "string_concat": ("char *s = ", lambda i: '"ab"', " ", ";"),
    "string_concat_long_pieces": ("char *s = ", lambda i: '"' + "x" * 2046 + '"', " ", ";"),
    "string_concat_mixed_prefix_long_pieces": (
        "int *s = ", lambda i: ('L"' if i % 2 else '"') + "x" * 2044 + '"', "\n", ";"),
    "string_concat_as_call_argument": ("void f(void){ g(", lambda i: '"' + "y" * 2046 + '"', " ", "); }"),
    "wstring_concat": ("int *s = ", lambda i: 'L"ab"', " ", ";"),
    "params": ("void f(", lambda i: f"int p{i}", ", ", ");"),
    "params_abstract": ("void f(", lambda i: "char *", ", ", ");"),
    "knr_identifiers": ("int f(", lambda i: f"a{i}", ", ", ") {}"),
    "pointer_stars": ("int ", lambda i: "*", "", "p;"),
    "pointer_qualifiers": ("int * ", lambda i: "const", " ", " p;"),
    "array_dims": ("int a", lambda i: "[2]", "", ";"),
    "array_dims_on_paren_declarator": ("int (*a)", lambda i: "[2]", "", ";"),
    "array_dims_with_bounds_expr": ("int a", lambda i: f"[{i} + 1]", "", ";"),
    "func_suffixes": ("int f", lambda i: "(int)", "", ";"),
    "func_suffixes_on_paren_declarator": ("int (*f)", lambda i: "(int, char)", "", ";"),
    "mixed_suffixes_on_paren_declarator": ("int (*f)", lambda i: ("(int)", "[2]")[i % 2], "", ";"),
    "abstract_array_dims": ("int v = sizeof(int", lambda i: "[2]", "", ");"),
    "param_array_dims": ("void f(int a", lambda i: "[2]", "", ");"),
    "qualifier_run": ("", lambda i: "const volatile", " ", " int x;"),
    "alignas_run": ("", lambda i: "_Alignas(8)", " ", " int x;"),
    "offsetof_chain": ("int v = offsetof(struct s, m", lambda i: ".m[1]", "", ");"),
    "linemarkers": ("", lambda i: f'# {i + 1} "f{i % 3}.c"\n', "", "int x;\n"),
    "line_directives": ("", lambda i: f'#line {i + 1} "f.c" 1 3\nint v{i};\n', "", ""),
    "pragmas_file_scope": ("", lambda i: f"#pragma p{i} (x)\n", "", "int x;\n"),
    "pragmas_in_block": ("void f(void){\n", lambda i: "#pragma omp parallel\n", "", "}\n"),
    "pragma_operator": ("void f(void){ ", lambda i: '_Pragma("x")', " ", " }"),
    # -- statements, one kind each, repeated in a function body ------------
    "stmt_expr": _fn(lambda i: "x = y + 1;"),
    "stmt_empty": _fn(lambda i: ";"),
    "stmt_call": _fn(lambda i: "g(x, y);"),
    "stmt_if": _fn(lambda i: "if (x) y = 1;"),
    "stmt_if_else": _fn(lambda i: "if (x) y = 1; else y = 2;"),
    "stmt_while": _fn(lambda i: "while (x) x--;"),
    "stmt_do": _fn(lambda i: "do x--; while (x);"),
    "stmt_for": _fn(lambda i: "for (x = 0; x < y; x++) ;"),
    "stmt_for_decl": _fn(lambda i: "for (int i = 0; i < y; i++) ;"),
    "stmt_switch": _fn(lambda i: "switch (x) { case 1: y = 1; break; default: break; }"),
    "stmt_return": _fn(lambda i: "return;"),
    "stmt_label_goto": _fn(lambda i: f"l{i}: x++; goto l{i};"),
    "stmt_loop_break_continue": _fn(lambda i: "while (x) { if (y) break; continue; }"),
    "stmt_block": _fn(lambda i: "{ x = 1; }"),
    "stmt_local_decl": _fn(lambda i: f"int v{i} = x;"),
    "stmt_local_struct": _fn(lambda i: f"struct S{i} {{int a;}} s{i};"),
    "stmt_static_assert": _fn(lambda i: '_Static_assert(1, "m");'),
    "stmt_cast_paren": _fn(lambda i: "x = (int)(y);"),
    "stmt_compound_literal": _fn(lambda i: "x = (int){1};"),
    "stmt_sizeof": _fn(lambda i: "x = sizeof(int) + sizeof x;"),
    "case_labels": ("void f(int x){ switch (x) {", lambda i: f"case {i}:", " ", " ; } }"),
    "case_bodies": ("void f(int x){ switch (x) {", lambda i: f"case {i}: x++; break;", " ", " } }"),
    "default_and_cases": ("void f(int x){ switch (x) { default: ", lambda i: f"case {i}: ;", " ", " } }"),
    # -- flat operator chains ----------------------------------------------
    "binary_chain": ("int v = 1", lambda i: " + 1", "", ";"),
    "binary_mixed_chain": ("int v = 1", lambda i: (" * 2", " + 3", " << 1", " && 1")[i % 4], "", ";"),
    "comma_chain": ("void f(int x){ x", lambda i: ", x", "", "; }"),
    "subscript_chain": ("int v = a", lambda i: "[0]", "", ";"),
    "member_chain": ("int v = a", lambda i: (".m", "->m")[i % 2], "", ";"),
    "call_chain": ("int v = a", lambda i: "()", "", ";"),
    "postinc_chain": ("int v = a", lambda i: "++", " ", ";"),
}


# k items in two places at once: name -> (text before, item1, sep1, text
# between, item2, sep2, text after)
REPEATABLE2 = {
    "struct_k_members_k_declarators": ("struct S {", lambda i: f"int m{i};", " ", "} ",
                                       lambda i: f"v{i}", ", ", ";"),
    "union_k_members_k_declarators": ("union U {", lambda i: f"int m{i};", " ", "} ",
                                      lambda i: f"*v{i}", ", ", ";"),
    "enum_k_enumerators_k_declarators": ("enum E {", lambda i: f"e{i}", ", ", "} ",
                                         lambda i: f"v{i}", ", ", ";"),
    "typedef_struct_k_members_k_names": ("typedef struct {", lambda i: f"int m{i};", " ", "} ",
                                         lambda i: f"T{i}", ", ", ";"),
    "member_struct_k_members_k_declarators": ("struct S { struct {", lambda i: f"int m{i};", " ", "} ",
                                              lambda i: f"n{i}", ", ", "; };"),
}
# (the text of such a member grows linearly in k, so the oracle is unchanged)


def repeat_text(name, k):
    if name in REPEATABLE2:
        a, i1, s1, b, i2, s2, c = REPEATABLE2[name]
        return (a + s1.join(i1(i) for i in range(k)) + b
                + s2.join(i2(i) for i in range(k)) + c)
    pre, item, sep, suf = REPEATABLE[name]
    return pre + sep.join(item(i) for i in range(k)) + suf


def repeat_names():
    return list(REPEATABLE) + list(REPEATABLE2)


# Work that is neither a call nor a bulk container call (string slicing and
# concatenation, walking a chain in a while loop) shows only in time: the
# repetition families are also timed through parse() at large k (x4 ladder,
# growth rule).  Quick: the constructs that repeat inside ONE declaration or
# expression, plus a few distinct-name declaration kinds; thorough: all.
TIMED_REPEAT_SIZES = (512, 2048, 8192)
TIMED_REPEAT_SIZES_LONG_ITEMS = (256, 1024, 4096)
TIMED_REPEAT_QUICK = [
    "string_concat", "wstring_concat", "string_concat_long_pieces",
    "string_concat_mixed_prefix_long_pieces", "string_concat_as_call_argument",
    "array_dims", "array_dims_on_paren_declarator", "func_suffixes_on_paren_declarator",
    "mixed_suffixes_on_paren_declarator", "abstract_array_dims", "pointer_stars", "pointer_qualifiers", "qualifier_run", "alignas_run",
    "designator_chain", "offsetof_chain", "subscript_chain", "member_chain", "call_chain",
    "postinc_chain", "binary_chain", "binary_mixed_chain", "comma_chain", "init_items",
    "init_items_designated", "call_args", "params", "knr_identifiers", "enumerators",
    "struct_members", "init_declarators", "struct_declarators", "case_labels",
    "distinct_func_def_one_line", "distinct_knr_def", "distinct_brace_init_array",
    "distinct_struct_body_var", "decl_typedef_use", "distinct_for_decl_if_last",
]


def timed_repeat_sizes(name):
    return TIMED_REPEAT_SIZES_LONG_ITEMS if "long_pieces" in name or "as_call_argument" in name else TIMED_REPEAT_SIZES


# ---------------------------------------------------------------------------
# nestable constructs
# ---------------------------------------------------------------------------
# Categories: E expression, I initializer, S statement, B block item (a
# statement or a declaration), F file-scope declaration, D declarator, A abstract declarator, TS type
# specifier, TN type name.
# Levels (only E, D, A have more than one):
#   E: 0 comma, 1 assignment, 2 conditional, 3 binary, 4 cast, 5 unary,
#      6 postfix/primary.   D, A: 0 pointer level, 1 direct.
Nest = namedtuple("Nest", "name own hole tmpl need out")

_N = [
    # ---- expressions ------------------------------------------------------
    Nest("paren", "E", "E", "(@)", 0, 6),
    Nest("cast", "E", "E", "(int)@", 4, 4),
    Nest("cast_typedef", "E", "E", "(T)@", 4, 4),
    Nest("cast_to_typename", "E", "TN", "(@)0", 0, 4),
    Nest("sizeof_expr", "E", "E", "sizeof @", 5, 5),
    Nest("sizeof_type", "E", "TN", "sizeof(@)", 0, 5),
    Nest("alignof_type", "E", "TN", "_Alignof(@)", 0, 5),
    Nest("complit_init", "E", "I", "(int){@}", 0, 4),
    Nest("complit_typename", "E", "TN", "(@){0}", 0, 4),
    Nest("call_arg", "E", "E", "f(@)", 1, 6),
    Nest("callee", "E", "E", "@(1)", 6, 6),
    Nest("subscript_index", "E", "E", "a[@]", 0, 6),
    Nest("subscript_base", "E", "E", "@[0]", 6, 6),
    Nest("member", "E", "E", "@.m", 6, 6),
    Nest("ternary_mid", "E", "E", "1 ? @ : 2", 0, 2),
    Nest("ternary_else", "E", "E", "1 ? 2 : @", 2, 2),
    Nest("ternary_cond", "E", "E", "@ ? 1 : 2", 3, 2),
    Nest("unary_not", "E", "E", "!@", 4, 5),
    # (`*@` is left out on purpose: as the first token of an array bound it runs
    # into pycparser's known rejection of `[*expr]`, which is C01's subject)
    Nest("unary_tilde", "E", "E", "~@", 4, 5),
    Nest("pre_increment", "E", "E", "++@", 5, 5),
    Nest("binary_left", "E", "E", "@ * 2", 3, 3),
    Nest("binary_right", "E", "E", "2 * @", 4, 3),
    Nest("assign", "E", "E", "a = @", 1, 1),
    Nest("comma", "E", "E", "1, @", 0, 0),
    Nest("offsetof_index", "E", "E", "offsetof(struct s, m[@])", 0, 6),
    # ---- initialisers -----------------------------------------------------
    Nest("init_brace", "I", "I", "{@}", 0, 0),
    Nest("init_member_designator", "I", "I", "{.m = @}", 0, 0),
    Nest("init_index_designator", "I", "E", "{[@] = 0}", 2, 0),
    # ---- statements -------------------------------------------------------
    Nest("block", "S", "B", "{ @ }", 0, 0),
    Nest("if_then", "S", "S", "if (1) @", 0, 0),
    Nest("if_else_chain", "S", "S", "if (1) ; else @", 0, 0),
    Nest("if_cond", "S", "E", "if (@) ;", 0, 0),
    Nest("while", "S", "S", "while (1) @", 0, 0),
    Nest("do_while", "S", "S", "do @ while (1);", 0, 0),
    Nest("for", "S", "S", "for (;;) @", 0, 0),
    Nest("switch", "S", "S", "switch (1) { case 1: @ }", 0, 0),
    Nest("case_label", "S", "S", "case 1: @", 0, 0),
    Nest("label", "S", "S", "l: @", 0, 0),
    # ---- declarators ------------------------------------------------------
    Nest("ptr_declarator", "D", "D", "*@", 0, 0),
    Nest("array_declarator", "D", "D", "@[2]", 1, 1),
    Nest("func_declarator", "D", "D", "@(int)", 1, 1),
    Nest("paren_declarator", "D", "D", "(@)", 0, 1),
    Nest("fnptr_declarator", "D", "D", "(*@)(int, char)", 0, 1),
    Nest("param_declarator", "D", "D", "f(int @)", 0, 1),
    Nest("paren_fn_param_declarator", "D", "D", "(*f(int @))", 0, 1),
    Nest("array_bound", "D", "E", "a[@]", 1, 1),
    # ---- abstract declarators --------------------------------------------
    Nest("abs_ptr", "A", "A", "*@", 0, 0),
    Nest("abs_array", "A", "A", "(@)[2]", 0, 1),
    Nest("abs_fnptr", "A", "A", "(*@)(int, char)", 0, 1),
    Nest("abs_param", "A", "TN", "(*)(@)", 0, 1),
    Nest("abs_paren_fn_param", "A", "A", "(*(int @))", 0, 1),
    # ---- type specifiers / type names ------------------------------------
    Nest("struct_nest", "TS", "TS", "struct {@ m;}", 0, 0),
    Nest("union_nest", "TS", "TS", "union {@ m;}", 0, 0),
    # the same specifier shared by several declarators (members, and complete
    # declarations at block / file scope, plain and typedef)
    Nest("struct_nest_2decl", "TS", "TS", "struct {@ a, b;}", 0, 0),
    Nest("union_nest_3decl", "TS", "TS", "union {@ a, *b, c[2];}", 0, 0),
    Nest("enum_value_2decl_member", "TS", "E", "struct {enum {e = @} a, b;}", 2, 0),
    Nest("block_struct_2decl", "B", "TS", "struct {@ m;} a, b;", 0, 0),
    Nest("block_typedef_2decl", "B", "TS", "typedef struct {@ m;} T1, *T2;", 0, 0),
    Nest("file_struct_3decl", "F", "TS", "struct {@ m, n;} a, *b, c[2];", 0, 0),
    Nest("file_union_2decl", "F", "TS", "union {@ m;} a, b;", 0, 0),
    Nest("file_typedef_2decl", "F", "TS", "typedef union {@ m, n;} T1, *T2;", 0, 0),
    Nest("file_enum_2decl", "F", "E", "enum {e = @} a, b;", 2, 0),
    Nest("struct_member_bound", "TS", "E", "struct {int m[@];}", 1, 0),
    Nest("bitfield_width", "TS", "E", "struct {int m : @;}", 2, 0),
    Nest("enum_value", "TS", "E", "enum {e = @}", 2, 0),
    Nest("atomic_type", "TS", "TN", "_Atomic(@)", 0, 0),
    Nest("alignas_type", "TS", "TN", "_Alignas(@) int", 0, 0),
    Nest("alignas_expr", "TS", "E", "_Alignas(@) int", 2, 0),
    Nest("typename_bound", "TN", "E", "int[@]", 1, 0),
]
# Every place where a parenthesised type name is parsed speculatively and then
# re-interpreted: {prefix operator or none} x {type name with the hole in an
# array bound} x {initialiser} x {postfix suffix or none}.  All of them nest
# alone (CL_SYSTEMATIC); the representatives in CL_PAIRED also take part in the
# pair families.
CL_PREFIXES = {  # name -> (text, level of the whole expression)
    "none": ("", 6), "sizeof": ("sizeof ", 5), "addr": ("&", 5), "deref": ("*", 5),
    "minus": ("-", 5), "lnot": ("!", 5), "preinc": ("++", 5), "cast": ("(long)", 4),
}
CL_TYPENAMES = {"array": "int[@]", "ptr_array": "int(*)[@]", "struct_member": "struct {int a[@];}"}
CL_INITS = {"zero": "{0}", "trailing_comma": "{0,}", "designated": "{[0] = 0}"}
CL_SUFFIXES = {"none": "", "subscript": "[0]", "member": ".a", "postinc": "++", "call": "(1)"}


def _cl_constructs():
    out = []
    for pn, (ptxt, plevel) in CL_PREFIXES.items():
        for tn, ttxt in CL_TYPENAMES.items():
            for inn, itxt in CL_INITS.items():
                for sn, stxt in CL_SUFFIXES.items():
                    out.append(Nest(f"cl/{pn}/{tn}/{inn}/{sn}", "E", "E",
                                    f"{ptxt}({ttxt}){itxt}{stxt}", 1, plevel))
    return out


_CL = _cl_constructs()
CL_SYSTEMATIC = [c.name for c in _CL]
CL_PAIRED = [
    "cl/sizeof/array/zero/none",  # sizeof (int[@]){0}
    "cl/sizeof/array/zero/member",  # sizeof (int[@]){0}.a
    "cl/sizeof/struct_member/zero/none",
    "cl/cast/array/zero/none",  # (long)(int[@]){0}
    "cl/none/array/zero/subscript",  # (int[@]){0}[0]
    "cl/addr/array/zero/none",  # &(int[@]){0}
    "cl/minus/array/zero/subscript",  # -(int[@]){0}[0]
    "cl/preinc/array/zero/subscript",  # ++(int[@]){0}[0]
    "cl/none/struct_member/zero/member",  # (struct {int a[@];}){0}.a
    "cl/none/ptr_array/designated/none",  # (int(*)[@]){[0] = 0}
]
_N.append(Nest("param_array_bound", "D", "E", "f(int a[@])", 1, 1))
PAIR_NAMES = [c.name for c in _N] + CL_PAIRED
PAIR_NAMES_QUICK = [c.name for c in _N] + CL_PAIRED[:1] + CL_PAIRED[3:6] + CL_PAIRED[8:]
_N.extend(_CL)
NESTABLE = {c.name: c for c in _N}
assert len(NESTABLE) == len(_N)
assert all(n in NESTABLE for n in PAIR_NAMES)

ATOM = {
    "E": ("x", 6),
    "I": ("1", 6),
    "S": (";", 0),
    "B": (";", 0),
    "D": ("x", 1),
    "A": ("*", 0),
    "TS": ("int", 0),
    "TN": ("int", 0),
}
_HAS_LEVELS = ("E", "D", "A")
_WRAPPED_LEVEL = {"E": 6, "D": 1, "A": 1}

# neutral coercions: (from, to) -> (template, level needed of the item, level
# of the result in the target category)
GLUE = {
    ("E", "I"): ("@", 1, 0),
    ("E", "S"): ("@;", 0, 0),
    ("S", "B"): ("@", 0, 0),
    ("B", "S"): ("{ @ }", 0, 0),
    ("E", "TN"): ("int[@]", 1, 0),
    ("E", "D"): ("a[@]", 1, 1),
    ("E", "TS"): ("struct {int m[@];}", 1, 0),
    ("TN", "E"): ("sizeof(@)", 0, 5),
    ("TS", "TN"): ("@", 0, 0),
    ("TS", "B"): ("@ v;", 0, 0),
    ("TN", "D"): ("f(@)", 0, 1),
    ("TN", "A"): ("(*)(@)", 0, 1),
    ("A", "TN"): ("int @", 0, 0),
    ("D", "B"): ("int @;", 0, 0),
    ("D", "TS"): ("struct {int @;}", 0, 0),
    ("I", "B"): ("int v = @;", 0, 0),
}
CATS = ("E", "I", "S", "B", "F", "D", "A", "TS", "TN")
PREFIX = "typedef int T; "
# outermost category -> translation unit
ROOT = {
    "S": "void f(void){ @ }",
    "B": "void f(void){ @ }",
    "F": "@",
    "E": "int v = @;",
    "I": "int v = @;",
    "D": "int @;",
    "A": "int v = sizeof(int @);",
    "TS": "@ v;",
    "TN": "int v = sizeof(@);",
}
_ROOT_NEED = {"E": 1}


def _paths():
    """Shortest glue chain between every two categories (BFS, insertion order
    of GLUE breaks ties deterministically)."""
    out = {}
    for a in CATS:
        out[(a, a)] = []
        frontier = [(a, [])]
        seen = {a}
        while frontier:
            nxt = []
            for cat, path in frontier:
                for (f, t), g in GLUE.items():
                    if f == cat and t not in seen:
                        seen.add(t)
                        out[(a, t)] = path + [(f, t)]
                        nxt.append((t, path + [(f, t)]))
            frontier = nxt
    return out


PATHS = _paths()


def _wrap(text, cat):
    return "(" + text + ")", _WRAPPED_LEVEL[cat]


def _place(item, hole_cat, need):
    """Coerce item=(text, cat, level) into a hole of category hole_cat that
    needs at least level `need`.  None if the language has no way."""
    text, cat, level = item
    path = PATHS.get((cat, hole_cat))
    if path is None:
        return None
    for f, t in path:
        tmpl, gneed, gout = GLUE[(f, t)]
        if f in _HAS_LEVELS and level < gneed:
            text, level = _wrap(text, f)
        text = tmpl.replace("@", text)
        level = gout
    if hole_cat in _HAS_LEVELS and level < need:
        text, level = _wrap(text, hole_cat)
    return text


def can_contain(outer: Nest, inner: Nest) -> bool:
    return (inner.own, outer.hole) in PATHS


def nest_text(seq):
    """seq = [outermost, ..., innermost] names -> complete translation unit,
    or None if some construct cannot sit in the hole of its parent."""
    seq = [NESTABLE[s] if isinstance(s, str) else s for s in seq]
    inner = seq[-1]
    atom, alevel = ATOM[inner.hole]
    item = (atom, inner.hole, alevel)
    for c in reversed(seq):
        placed = _place(item, c.hole, c.need)
        if placed is None:
            return None
        item = (c.tmpl.replace("@", placed), c.own, c.out)
    cat = item[1]
    placed = _place(item, cat, _ROOT_NEED.get(cat, 0))
    return PREFIX + ROOT[cat].replace("@", placed)


def self_nests(name) -> bool:
    c = NESTABLE[name]
    return can_contain(c, c)


def single_seq(name, depth):
    """X(X(X(...))) or None when the language gives no way to put the
    construct inside itself (it then only takes part in pair families)."""
    return [name] * depth if self_nests(name) else None


def pair_seq(x, y, depth):
    """X(Y(X(Y(...)))) with `depth` applications in total when both
    containments exist in the language ('alt'); otherwise the two constructs
    are stacked: the one that can contain the other goes outside, each
    repeated depth/2 times (once if it cannot contain itself) ('stack').
    -> (mode, sequence); (None, None) if neither containment exists."""
    X, Y = NESTABLE[x], NESTABLE[y]
    xy, yx = can_contain(X, Y), can_contain(Y, X)
    h = depth // 2
    if xy and yx:
        return "alt", [x, y] * h
    if not xy and not yx:
        return None, None
    o, i = (x, y) if xy else (y, x)
    no = h if self_nests(o) else 1
    ni = (depth - no) if self_nests(i) else 1
    if no == 1 and ni == 1:
        return "stack", [o, i]
    return "stack", [o] * no + [i] * ni


# ---------------------------------------------------------------------------
# lexer regex families: n -> text (length ~ n), one token kind each
# ---------------------------------------------------------------------------
BS = chr(92)

LEXER_FAMILIES = {
    # well-formed long tokens
    "string_plain": lambda n: '"' + "a" * n + '"',
    "string_simple_escapes": lambda n: '"' + (BS + "n") * (n // 2) + '"',
    "string_backslash_pairs": lambda n: '"' + (BS + BS) * (n // 2) + '"',
    "string_octal_escapes": lambda n: '"' + (BS + "123") * (n // 4) + '"',
    "string_hex_escapes": lambda n: '"' + (BS + "x41") * (n // 4) + '"',
    "string_digit_run_escape": lambda n: '"' + BS + "1" * n + '"',
    "string_hex_run_escape": lambda n: '"' + BS + "x" + "f" * n + '"',
    "wstring_escapes": lambda n: 'L"' + (BS + "t") * (n // 2) + '"',
    "u8string_escapes": lambda n: 'u8"' + (BS + "t") * (n // 2) + '"',
    "char_digit_run_escape": lambda n: "'" + BS + "1" * n + "'",
    "char_hex_run_escape": lambda n: "'" + BS + "x" + "f" * n + "'",
    "wchar_hex_run_escape": lambda n: "L'" + BS + "x" + "f" * n + "'",
    "decimal_digits": lambda n: "1" * n,
    "octal_digits": lambda n: "0" + "7" * n,
    "hex_digits": lambda n: "0x" + "f" * n,
    "binary_digits": lambda n: "0b" + "1" * n,
    "float_digits": lambda n: "1" * (n // 2) + "." + "1" * (n // 2),
    "float_exponent_digits": lambda n: "1e" + "1" * n,
    "hex_float": lambda n: "0x" + "f" * (n // 2) + "." + "f" * (n // 2) + "p1",
    "hex_float_exponent_digits": lambda n: "0x1p" + "1" * n,
    "identifier": lambda n: "a" * n,
    "identifier_digits": lambda n: "a" + "1" * n,
    # ill-formed long tokens (errors are collected, not raised)
    "string_unterminated": lambda n: '"' + "a" * n,
    "string_unterminated_newline": lambda n: '"' + "a" * n + "\n;",
    "string_unterminated_escapes": lambda n: '"' + (BS + "n") * (n // 2),
    "string_unterminated_backslashes": lambda n: '"' + BS * n,
    "string_bad_escape_at_end": lambda n: '"' + "a" * n + BS + "%" + '"',
    "string_bad_escape_at_start": lambda n: '"' + BS + "%" + "a" * n + '"',
    "string_bad_escape_after_escapes": lambda n: '"' + (BS + "n") * (n // 2) + BS + "%" + '"',
    "string_bad_escape_unterminated": lambda n: '"' + BS + "%" + "a" * n,
    "string_many_bad_escapes": lambda n: '"' + (BS + "%") * (n // 2) + '"',
    "string_digit_run_unterminated": lambda n: '"' + BS + "1" * n,
    "string_hex_run_unterminated": lambda n: '"' + BS + "x" + "f" * n,
    "char_unterminated": lambda n: "'" + "a" * n,
    "char_unterminated_newline": lambda n: "'" + "a" * n + "\n;",
    "char_too_long": lambda n: "'" + "a" * n + "'",
    "char_unterminated_escapes": lambda n: "'" + (BS + "n") * (n // 2),
    "char_escapes_too_long": lambda n: "'" + (BS + "n") * (n // 2) + "'",
    "char_unterminated_backslashes": lambda n: "'" + BS * n,
    "char_digit_run_unterminated": lambda n: "'" + BS + "1" * n,
    "char_hex_run_unterminated": lambda n: "'" + BS + "x" + "f" * n,
    "char_octal_escapes_unterminated": lambda n: "'" + (BS + "123") * (n // 4),
    "char_hex_escapes_unterminated": lambda n: "'" + (BS + "x41") * (n // 4),
    "char_bad_escape_long": lambda n: "'" + BS + "%" + "a" * n + "'",
    "char_bad_escape_unterminated": lambda n: "'" + BS + "%" + "a" * n,
    "quote_run": lambda n: "'" * n,
    "dquote_run": lambda n: '"' * n,
    "quote_then_dquotes": lambda n: "'" + '"' * n,
    "backslash_run": lambda n: BS * n,
    "bad_octal": lambda n: "0" + "7" * n + "9",
    "hex_no_digits_run": lambda n: "0x" * (n // 2),
    "hex_float_no_exponent": lambda n: "0x" + "f" * (n // 2) + "." + "f" * (n // 2),
    "float_dots": lambda n: "1." * (n // 2),
    "exponent_no_digits": lambda n: "1" * n + "e+",
    "suffix_run": lambda n: "1" + "uL" * (n // 2),
    "comment_openers": lambda n: "/*" * (n // 2),
    "hash_run": lambda n: "#" * n,
    "illegal_chars": lambda n: "@" * n,
    "line_directive_long_name": lambda n: '# 1 "' + "a" * n + '"\nx',
    "line_directive_escapes": lambda n: '# 1 "' + (BS + "d") * (n // 2) + '"\nx',
    "line_directive_flags": lambda n: '# 1 "f.c" ' + "1 " * (n // 2) + "\nx",
    "line_directive_digits": lambda n: "# " + "1" * n + "\nx",
    "pragma_long": lambda n: "#pragma " + "a" * n + "\nx",
    "operator_run": lambda n: ">" * n,
    "blank_run": lambda n: " " * n + "x",
    "newline_run": lambda n: "\n" * n + "x",
}


# ---------------------------------------------------------------------------
# long runs that ALMOST match a longer rule: name -> (regex class, n -> text).
# Sizes go up to 2^16 characters (~2 ms for a linear regex), so that a
# quadratic rule crosses the 20 ms threshold of the growth-ratio rule twice.
# ---------------------------------------------------------------------------
RUN_SIZES = (1 << 10, 1 << 12, 1 << 14, 1 << 16)


def _runs():
    out = {}
    hexd, digs = "f", "1"
    for pre in ("0x", "0X"):
        out[f"hex_{pre}_digits"] = ("hex", lambda n, p=pre: p + hexd * n)
    out["hex_mixed_digits"] = ("hex", lambda n: "0x" + "9aF" * (n // 3))
    out["hex_dot_hex_no_p"] = ("hex", lambda n: "0X" + hexd * (n // 2) + "." + hexd * (n // 2))
    out["hex_dot_no_p"] = ("hex", lambda n: "0x" + hexd * n + ".")
    out["hex_leading_dot_no_p"] = ("hex", lambda n: "0x." + hexd * n)
    out["hex_p_no_exponent"] = ("hex", lambda n: "0x" + hexd * n + "p")
    out["hex_p_sign_no_exponent"] = ("hex", lambda n: "0x" + hexd * n + "p+")
    out["hex_float_long_significand"] = ("hex", lambda n: "0x" + hexd * n + "p1")
    out["hex_float_long_exponent"] = ("hex", lambda n: "0x1p" + digs * n)
    for suf in ("u", "ul", "ull", "lul", "LL", "llu", "lu", "uLL", "g"):
        out[f"hex_digits_suffix_{suf}"] = ("hex", lambda n, q=suf: "0x" + hexd * n + q)
    out["bin_digits"] = ("bin", lambda n: "0b" + digs * n)
    out["bin_digits_then_2"] = ("bin", lambda n: "0b" + digs * n + "2")
    out["bin_digits_suffix_ull"] = ("bin", lambda n: "0B" + "10" * (n // 2) + "ull")
    out["dec_digits"] = ("dec", lambda n: digs * n)
    for suf in ("u", "ul", "ull", "lul", "LL", "llu", "lu", "uLL", "f", "x", "uu"):
        out[f"dec_digits_suffix_{suf}"] = ("dec", lambda n, q=suf: digs * n + q)
    out["oct_digits"] = ("oct", lambda n: "0" + "7" * n)
    out["oct_digits_then_9"] = ("oct", lambda n: "0" + "7" * n + "9")
    out["oct_digits_then_8_then_digits"] = ("oct", lambda n: "0" + "7" * (n // 2) + "8" + "7" * (n // 2))
    out["oct_digits_suffix_ull"] = ("oct", lambda n: "0" + "7" * n + "ull")
    out["zeros"] = ("oct", lambda n: "0" * n)
    out["float_digits_dot"] = ("float", lambda n: digs * n + ".")
    out["float_digits_e"] = ("float", lambda n: digs * n + "e")
    out["float_digits_e_plus"] = ("float", lambda n: digs * n + "e+")
    out["float_dot_digits"] = ("float", lambda n: "." + digs * n)
    out["float_dot_digits_e"] = ("float", lambda n: "." + digs * n + "e")
    out["float_digits_dot_digits_e_minus"] = ("float", lambda n: digs * (n // 2) + "." + digs * (n // 2) + "e-")
    out["float_digits_dot_digits_f"] = ("float", lambda n: digs * (n // 2) + "." + digs * (n // 2) + "f")
    out["float_digits_dot_digits_ff"] = ("float", lambda n: digs * (n // 2) + "." + digs * (n // 2) + "ff")
    out["float_long_exponent"] = ("float", lambda n: "1e" + digs * n)
    out["float_long_exponent_L"] = ("float", lambda n: "1.e-" + digs * n + "L")
    for ch in ("L", "u", "U", "_", "$", "a", "x", "e", "p"):
        out[f"ident_run_{ch}"] = ("ident", lambda n, c=ch: c * n)
    out["ident_u8_run"] = ("ident", lambda n: "u8" * (n // 2))
    out["ident_u8_then_letters"] = ("ident", lambda n: "u8" + "a" * n)
    out["ident_keyword_run"] = ("ident", lambda n: "int" * (n // 3))
    out["ident_keyword_then_letters"] = ("ident", lambda n: "_Bool" + "x" * n)
    out["ident_letters_digits"] = ("ident", lambda n: "a" + "9" * n)
    out["ident_L_run_then_quote"] = ("ident", lambda n: "L" * n + "'a'")
    out["ident_L_run_then_dquote"] = ("ident", lambda n: "L" * n + '"a"')
    out["ident_u8_run_then_dquote"] = ("ident", lambda n: "u8" * (n // 2) + '"a"')
    return out


RUN_FAMILIES = _runs()


def run_text(name, n, embedded):
    """The bare run, or the run as an initialiser for parse()."""
    t = RUN_FAMILIES[name][1](n)
    return f"int x = {t};\n" if embedded else t


def _parse_time_local(text, repeat=3, warm_limit=120.0, run_limit=20.0):
    """CPU/wall time of CParser().parse(text) (a ParseError is an outcome, not
    a failure): warm-up + best of `repeat`, with the watchdog.
    -> (seconds, 1 if accepted else 0, 0 if accepted else 1) | ('timeout', ..)."""
    import signal

    from pycparser.c_parser import CParser, ParseError

    tune_malloc()
    if sys.getrecursionlimit() < RECURSION_LIMIT:
        sys.setrecursionlimit(RECURSION_LIMIT)

    import gc

    def once():
        p = CParser()
        gc_was = gc.isenabled()
        gc.disable()  # collector passes over a growing AST are not parser work
        try:
            t0 = time.perf_counter()
            c0 = time.process_time()
            try:
                p.parse(text)
                ok = 1
            except ParseError:
                ok = 0
            return min(time.perf_counter() - t0, time.process_time() - c0), ok
        finally:
            if gc_was:
                gc.enable()

    old = signal.signal(signal.SIGALRM, _alarm)
    try:
        try:
            signal.setitimer(signal.ITIMER_REAL, warm_limit)
            once()
        except LexTimeout:
            return ("timeout", "warm-up", warm_limit)
        finally:
            signal.setitimer(signal.ITIMER_REAL, 0)
        best = None
        ok = 0
        for _ in range(repeat):
            try:
                signal.setitimer(signal.ITIMER_REAL, run_limit)
                dt, ok = once()
            except LexTimeout:
                return ("timeout", "timed run", run_limit)
            finally:
                signal.setitimer(signal.ITIMER_REAL, 0)
            if best is None or dt < best:
                best = dt
            if dt >= 1.0:
                break
        return best, ok, 1 - ok
    finally:
        signal.signal(signal.SIGALRM, old)


# ---------------------------------------------------------------------------
# directive-heavy inputs: name -> (class, n -> text of about n characters).
# Timed through parse() and on the stand-alone lexer (growth-ratio rule), and
# measured with a deterministic counter: the input is handed over as a str
# subclass that counts the characters copied out of it by indexing / slicing
# (string slicing is invisible to call counts).
# ---------------------------------------------------------------------------
DIRECTIVE_TIME_SIZES = (1 << 13, 1 << 15, 1 << 17, 1 << 19)
# through parse() the AST of half a megabyte of declarations is hundreds of MB
# of small objects whose pages are first touched in every run - on a loaded VM
# that costs more, and less predictably, than the parse itself; parse() is
# timed up to 2^17, the lexer (no AST) up to 2^19, and the deterministic
# copied-characters counter covers what timing at this size would blur
DIRECTIVE_PARSE_TIME_SIZES = (1 << 11, 1 << 13, 1 << 15, 1 << 17)
DIRECTIVE_COPY_SIZES = (1 << 11, 1 << 12, 1 << 13, 1 << 14, 1 << 15)


def _reps(unit, n, head="", tail=""):
    k = max(1, (n - len(head) - len(tail)) // len(unit(12345)))
    return head + "".join(unit(i) for i in range(k)) + tail


_FLAGS32 = " 1 2 3 4" * 8
DIRECTIVE_FAMILIES = {
    "marker_with_flags": ("ppline", lambda n: _reps(
        lambda i: f'# {i + 1} "inc/hdr{i % 7}.h" 1 3 4\nint v{i};\n', n)),
    "marker_without_flags": ("ppline", lambda n: _reps(
        lambda i: f'# {i + 1} "inc/hdr{i % 7}.h"\nint v{i};\n', n)),
    "marker_one_flag": ("ppline", lambda n: _reps(
        lambda i: f'# {i + 1} "f.h" 2\nint v{i};\n', n)),
    "marker_number_only": ("ppline", lambda n: _reps(lambda i: f"# {i + 1}\nint v{i};\n", n)),
    "line_directive": ("ppline", lambda n: _reps(
        lambda i: f'#line {i + 1} "f.h"\nint v{i};\n', n)),
    "line_directive_with_flags": ("ppline", lambda n: _reps(
        lambda i: f'#line {i + 1} "f.h" 1 3\nint v{i};\n', n)),
    "marker_many_flags": ("ppline", lambda n: _reps(
        lambda i: f'# {i + 1} "f.h"{_FLAGS32}\nint v{i};\n', n)),
    "marker_128_flags": ("ppline", lambda n: _reps(
        lambda i: f'# {i + 1} "f.h"{" 1 2 3 4" * 32}\nint v{i};\n', n)),
    "marker_escaped_filename": ("ppline", lambda n: _reps(
        lambda i: f'# {i + 1} "..{BS}{BS}inc{BS}{BS}hdr.h" 3\nint v{i};\n', n)),
    "marker_long_filename": ("ppline", lambda n: _reps(
        lambda i: f'# {i + 1} "{"d/" * 40}hdr.h" 1\nint v{i};\n', n)),
    "markers_in_function_body": ("ppline", lambda n: _reps(
        lambda i: f'# {i + 1} "f.c" 1 3 4\nx = {i};\n', n, "void f(int x){\n", "}\n")),
    "marker_at_top_of_big_file": ("ppline", lambda n: _reps(
        lambda i: f"int v{i};\n", n, '# 1 "big.h" 1 3 4\n')),
    "markers_in_first_percent": ("ppline", lambda n: (
        _reps(lambda i: f'# {i + 1} "f.h" 1 3 4\nint v{i};\n', max(64, n // 100))
        + _reps(lambda i: f"int w{i};\n", n - max(64, n // 100)))),
    "markers_in_last_percent": ("ppline", lambda n: (
        _reps(lambda i: f"int w{i};\n", n - max(64, n // 100))
        + _reps(lambda i: f'# {i + 1} "f.h" 1 3 4\nint v{i};\n', max(64, n // 100)))),
    "pragma_lines": ("pragma", lambda n: _reps(
        lambda i: f"#pragma omp parallel for private(i{i})\nint v{i};\n", n)),
    "bare_pragma_lines": ("pragma", lambda n: _reps(lambda i: f"#pragma\nint v{i};\n", n)),
    "long_pragma_lines": ("pragma", lambda n: _reps(
        lambda i: f"#pragma {'x ' * 200}{i}\nint v{i};\n", n)),
    "pragmas_in_function_body": ("pragma", lambda n: _reps(
        lambda i: f"#pragma p {i}\nx = {i};\n", n, "void f(int x){\n", "}\n")),
    "pragma_at_top_of_big_file": ("pragma", lambda n: _reps(
        lambda i: f"int v{i};\n", n, "#pragma once\n")),
}


class CountingStr(str):
    """A str that counts the characters copied out of it by indexing/slicing."""

    copied = 0

    def __getitem__(self, key):
        res = str.__getitem__(self, key)
        CountingStr.copied += len(res)
        return res


def copied_chars(text):
    """-> (outcome, characters the library copied out of the input by
    indexing/slicing during parse(text)).  Deterministic.  Only sees slicing of
    the input object itself, which the lexer keeps as it is given."""
    from pycparser.c_parser import CParser, ParseError

    CountingStr.copied = 0
    try:
        CParser().parse(CountingStr(text))
        out = "ok"
    except ParseError as e:
        out = "perr:" + str(e)[:100]
    return out, CountingStr.copied


# ---------------------------------------------------------------------------
# systematic escape families: every escape kind x {char constant, string} x
# prefix x shape; a member = n repetitions of the escape inside the literal
# ---------------------------------------------------------------------------
ESCAPE_KINDS = {
    "plain": "a",
    "plain_pair": "ab",
    # simple escapes, one per character class of the lexer's escape regexes
    "simple_letter": BS + "n",
    "lenient_lower": BS + "d",
    "lenient_upper": BS + "D",
    "backslash": BS + BS,
    "quote": BS + "'",
    "dquote": BS + '"',
    "qmark": BS + "?",
    "punct_dot": BS + ".",
    "punct_caret": BS + "^",
    "punct_minus": BS + "-",
    "bare_x": BS + "x",
    "x_then_letter": BS + "xg",
    # numeric escapes
    "octal1": BS + "1",
    "octal2": BS + "12",
    "octal3": BS + "123",
    "decimal1": BS + "9",
    "decimal_run": BS + "1234567890",
    "hex1": BS + "x4",
    "hex2": BS + "x4f",
    "hex_run": BS + "x4f60abcd",
    # universal character names (and their truncated forms)
    "ucn4": BS + "u4f60",
    "ucn8": BS + "U0001F600",
    "ucn4_short": BS + "u4f",
    "ucn8_short": BS + "U0001",
    "ucn4_long": BS + "u4f60a",
    # not an escape at all
    "bad_percent": BS + "%",
    "bad_paren": BS + "(",
}
ESCAPE_PREFIXES = ("", "L", "u8", "u", "U")
# shape -> (text after the opening quote, text after the body; Q = the quote)
ESCAPE_SHAPES = {
    "terminated": ("", "Q"),  # a char constant of > 4 units is over-long
    "unterminated_eol": ("", "\n;"),
    "unterminated_eof": ("", ""),
    "bad_escape_end": ("", BS + "%Q"),
    "bad_escape_start": (BS + "%", "Q"),
    "bad_escape_end_unterminated": ("", BS + "(\n;"),
}
ESCAPE_SMALL = (8, 12, 16, 20, 24, 28)
ESCAPE_MEDIUM = (64, 256, 1024)
# large members are given by text length; they are lexed up to the first error,
# as parse() would (continuing after every error makes e.g. ' \' \' \' ... '
# quadratic: each of the n error tokens first scans the rest of the input for
# a closing quote - not something parse() can be made to do)
ESCAPE_LARGE_CHARS = (4096, 16384)


def escape_text(kinds, quote, prefix, shape, n):
    """prefix + quote + (unit of each kind in turn) * n + shape's tail."""
    lead, tail = ESCAPE_SHAPES[shape]
    unit = "".join(ESCAPE_KINDS[k] for k in kinds)
    if n < 0:
        n = -n // len(unit)
    return prefix + quote + lead + unit * n + tail.replace("Q", quote)


def escape_families(tier):
    """-> list of (kinds tuple, quote, prefix, shape, sizes).  Sizes are
    repetition counts; a negative size -L stands for 'as many repetitions as
    fit in L characters' (large ladder, single kinds only; quick: prefixes ''
    and L).  Single kinds: everything.  Mixed alternations of two kinds (unordered): quick = no
    prefix, three shapes, small sizes; thorough = prefixes '' and L, all
    shapes, small and medium sizes."""
    out = []
    quick = tier == "quick"
    sizes = ESCAPE_SMALL + ESCAPE_MEDIUM
    large = tuple(-c for c in ESCAPE_LARGE_CHARS)
    names = list(ESCAPE_KINDS)
    for k in names:
        for q in ("'", '"'):
            for pre in ESCAPE_PREFIXES:
                for sh in ESCAPE_SHAPES:
                    big = large if (not quick or pre in ("", "L")) else ()
                    out.append(((k,), q, pre, sh, sizes + big))
    mixed_pre = ("",) if quick else ("", "L")
    mixed_sh = (("terminated", "unterminated_eof", "bad_escape_end") if quick
                else tuple(ESCAPE_SHAPES))
    mixed_sizes = ESCAPE_SMALL if quick else sizes
    for i, a in enumerate(names):
        for b in names[i + 1:]:
            for q in ("'", '"'):
                for pre in mixed_pre:
                    for sh in mixed_sh:
                        out.append(((a, b), q, pre, sh, mixed_sizes))
    return out


def _lex_time_small_local(text, repeat=3, limit=4.0, stop_at_error=False):
    """Like lex_time for inputs of a few hundred characters: the warm-up run is
    timed too (no memory effects at this size) and the watchdog is short.
    -> (seconds, tokens, errors) | ('timeout', 'run', limit)."""
    import signal

    old = signal.signal(signal.SIGALRM, _alarm)
    try:
        best = None
        ntok = nerr = 0
        for _ in range(repeat):
            try:
                signal.setitimer(signal.ITIMER_REAL, limit)
                dt, ntok, nerr = _lex_once(text, stop_at_error)
            except LexTimeout:
                return ("timeout", "run", limit)
            finally:
                signal.setitimer(signal.ITIMER_REAL, 0)
            if best is None or dt < best:
                best = dt
            if dt >= 1.0:  # seconds for one run: no point in repeating it
                break
        return best, ntok, nerr
    finally:
        signal.signal(signal.SIGALRM, old)


# ---------------------------------------------------------------------------
# the time server: every timing runs in a child interpreter started with
# PYTHONMALLOC=malloc, where tune_malloc() makes glibc keep freed memory.  A
# timed run then re-uses the pages its warm-up run touched.  In the parent
# (pymalloc) the arenas of a freed AST go back to the kernel and are touched
# afresh in every run, and on this VM first-touching a page costs 0.1-0.5 ms
# charged as *user* time: parsing 8192 declarations measured 0.5 s or 2.5 s
# depending on the load, 10-14 x its time at 2048 - with the server 3.9 x, and
# zero page faults.  One server per (pool worker) process, talking JSON lines
# over pipes; it imports pycparser from the same tree as its parent.
# ---------------------------------------------------------------------------
_SERVER = None  # (pid of the owner, Popen)


def _server():
    global _SERVER
    import subprocess

    if _SERVER is not None and _SERVER[0] == os.getpid() and _SERVER[1].poll() is None:
        return _SERVER[1]
    env = dict(os.environ, PYTHONMALLOC="malloc", VERIF_TIME_SERVER="1", PYTHONHASHSEED="0",
               PYTHONDONTWRITEBYTECODE="1", VERIF_TIME_SERVER_REPO=os.path.dirname(_pkg_dir()))
    proc = subprocess.Popen([sys.executable, os.path.abspath(__file__), "--time-server"],
                            stdin=subprocess.PIPE, stdout=subprocess.PIPE, text=True, env=env)
    _SERVER = (os.getpid(), proc)
    import atexit

    atexit.register(_stop_server)
    return proc


def _stop_server():
    global _SERVER
    if _SERVER is not None and _SERVER[0] == os.getpid():
        try:
            _SERVER[1].stdin.close()
            _SERVER[1].wait(timeout=5)
        except Exception:  # noqa
            _SERVER[1].kill()
    _SERVER = None


def _remote(fn, text, kw):
    import json

    if os.environ.get("VERIF_TIME_SERVER") == "1" or os.environ.get("VERIF_TIME_SERVER") == "off":
        return _LOCAL[fn](text, **kw)
    for attempt in (0, 1):
        proc = _server()
        try:
            proc.stdin.write(json.dumps([fn, text, kw]) + "\n")
            proc.stdin.flush()
            line = proc.stdout.readline()
        except (BrokenPipeError, OSError):
            line = ""
        if line:
            return tuple(json.loads(line))
        _stop_server()  # died: once more with a fresh one
    return ("timeout", "time server died twice", 0)


def lex_time(text, repeat=5, warm_limit=120.0, run_limit=20.0, stop_at_error=False):
    """See _lex_time_local; runs in the time server."""
    return _remote("lex_time", text, dict(repeat=repeat, warm_limit=warm_limit, run_limit=run_limit,
                                          stop_at_error=stop_at_error))


def lex_time_small(text, repeat=3, limit=4.0, stop_at_error=False):
    """See _lex_time_small_local; runs in the time server."""
    return _remote("lex_time_small", text, dict(repeat=repeat, limit=limit, stop_at_error=stop_at_error))


def parse_time(text, repeat=3, warm_limit=120.0, run_limit=20.0):
    """See _parse_time_local; runs in the time server.  A RecursionError in the
    server comes back as ('timeout', 'recursion limit', 0)."""
    return _remote("parse_time", text, dict(repeat=repeat, warm_limit=warm_limit, run_limit=run_limit))


_LOCAL = {"lex_time": _lex_time_local, "lex_time_small": _lex_time_small_local,
          "parse_time": _parse_time_local}


def _serve():
    import json

    repo = os.environ["VERIF_TIME_SERVER_REPO"]
    sys.path.insert(0, repo)
    import pycparser

    assert os.path.realpath(os.path.dirname(pycparser.__file__)) == os.path.realpath(
        os.path.join(repo, "pycparser")), pycparser.__file__
    sys.setrecursionlimit(RECURSION_LIMIT)
    tune_malloc()
    out = sys.stdout
    for line in sys.stdin:
        fn, text, kw = json.loads(line)
        try:
            res = _LOCAL[fn](text, **kw)
        except RecursionError:
            res = ("timeout", "recursion limit", 0)
        out.write(json.dumps(list(res)) + "\n")
        out.flush()


if __name__ == "__main__":
    if "--time-server" in sys.argv:
        _serve()
        sys.exit(0)
    # --selfcheck: the measure is a function of the text
    sys.path.insert(0, os.environ.get("VERIF_REPO", "/repo"))
    for _t in ("int x;", nest_text(["paren"] * 8), nest_text(["cast", "struct_nest"] * 4),
               repeat_text("stmt_switch", 16)):
        _a, _b = measure(_t), measure(_t)
        _c = measure(_t, method="setprofile")
        assert _a == _b == _c and _a[0] == "ok", (_t, _a, _b, _c)
        print(_a[1], _t[:70])
    print(lex_time("int x = 0x1p3;", repeat=2), parse_time("int x;", repeat=2))
    print("selfcheck ok")

"""C07 - parse . generate . parse = parse, and generation is a fixed point,
for every program of the bounded pool x both generator configurations."""
from __future__ import annotations

from mc import core, progpool

PID = "C07"


def roundtrip(text, rp):
    """None if fine, else (sig, detail)."""
    o1 = core.parse_outcome(text)
    if o1[0] != "ok":
        return "skip", None
    a1 = o1[1]
    c1 = core.canon(a1)
    try:
        g1 = core.generate(a1, rp)
    except RecursionError:
        return "skip", None
    except Exception as e:  # noqa
        return f"gen:{core.exc_site(e)}", repr(e)[:200]
    o2 = core.parse_outcome(g1)
    if o2[0] == "rec":
        return "skip", None
    if o2[0] != "ok":
        return f"reparse:{core.reject_sig(g1)}", {"generated": g1[-300:], "error": o2[1:]}
    c2 = core.canon(o2[1])
    if c1 != c2:
        return f"astdiff:{core.diff_sig(c1, c2)}", {"generated": g1[-300:], "diff": core.first_diff(c1, c2)}
    try:
        g2 = core.generate(o2[1], rp)
    except Exception as e:  # noqa
        return f"gen2:{core.exc_site(e)}", repr(e)[:200]
    if g1 != g2:
        return "regen-diff", {"g1": g1[-200:], "g2": g2[-200:]}
    return None, c1


def _work(items):
    fails = []
    n = 0
    hashes = set()
    classes = {}
    for origin, text in items:
        for rp in (False, True):
            r = roundtrip(text, rp)
            sig, det = r
            if sig == "skip":
                continue
            n += 1
            if sig is None:
                if not rp:
                    hashes.add(hash(det))
                    _count_classes(det, classes)
                continue
            fails.append((sig, {"text": text, "reduce_parentheses": rp, "origin": origin}, det))
    return n, fails, hashes, classes


def _count_classes(c, acc):
    if isinstance(c, tuple):
        if len(c) == 2 and isinstance(c[0], str) and isinstance(c[1], tuple) and c[0][:1].isupper():
            acc[c[0]] = acc.get(c[0], 0) + 1
            for _, v in c[1]:
                _count_classes(v, acc)
        else:
            for v in c:
                _count_classes(v, acc)


def operator_pairs(tier):
    """Operator nestings the generator must keep apart: every depth-2 tree over
    the FULL operator alphabet (the shared pool's quick tier only has a
    representative alphabet there), every chain of prefix operators over a
    plain / post-incremented / post-decremented operand, and every binary
    operator between a postfix left operand and a prefix chain on the right
    ('a++ + ++b', 'a - --b', 'a & &b', 'a / *p').  All fully parenthesised in
    the source: it is the generator that decides which parentheses stay."""
    import itertools

    from models import expr_model as em

    out = []
    pre = "typedef int T ; void f ( void ) { "
    trees = em.trees(2) if tier == "quick" else itertools.chain(em.trees(2), em.trees(3, ops=em.OPS_REP, min_ops=3))
    for t in trees:
        out.append(("E2", pre + em.render(t) + " ; }"))
    prefix = list(em.PREFIX_OPS) + ["sizeof"]
    bases = ["x", "( x ++ )", "( x -- )"]
    maxlen = 3 if tier == "quick" else 4

    def chain(ops, base):
        e = base
        for op in reversed(ops):
            e = f"{op} ( {e} )"
        return e

    for n in range(1, maxlen + 1):
        for ops in itertools.product(prefix, repeat=n):
            for b in bases:
                out.append(("PFX", pre + chain(ops, b) + " ; }"))
    for bop in em.BINARY_OPS:
        for n in (1, 2):
            for ops in itertools.product(prefix, repeat=n):
                for left in ("a", "( a ++ )", "( a -- )"):
                    out.append(("BINPFX", pre + f"{left} {bop} ( {chain(ops, 'b')} ) ; }}"))
    return out


def run(tier):
    R = core.Run(PID, tier, "exploration")
    pool = progpool.build_pool(tier)
    have = {t for _, t in pool}
    pairs = [(o, t) for o, t in operator_pairs(tier) if t not in have]
    pool += pairs
    pool.sort(key=lambda x: (len(x[1]), x[1]))  # smallest first => minimal examples
    hashes = set()
    classes = {}
    n = 0
    for cnt, fl, hs, cl in core.pmap(_work, core.chunked(pool, 200), chunksize=1):
        n += cnt
        R.fail_many(fl)
        hashes |= hs
        for k, v in cl.items():
            classes[k] = classes.get(k, 0) + v
    if len(pool) < 1000 or len(hashes) < 300:
        R.fail("vacuous", {"pool": len(pool), "distinct_asts": len(hashes)}, "pool too small")
    R.set("evaluations", n)
    R.set("distinct_nontrivial", len(hashes))
    R.set("programs", len(pool))
    sizes = dict(getattr(progpool.build_pool, "sizes", {}))
    for o, _ in pairs:
        sizes[o] = sizes.get(o, 0) + 1
    R.set("pool_parts", sizes)
    R.set("node_classes_reached", classes)
    R.set("bounds", {"pool": "see pool_parts (TokEx N per context, models, corpus, corpus 1-edits)",
                     "configurations": ["reduce_parentheses=False", "reduce_parentheses=True"]})
    R.assumptions.append("AST equality is structural over __slots__ minus coord")
    return R.finish(
        core.pick_samples([t for _, t in pool]),
        "every program of the bounded pool (all token strings <= N accepted after each context "
        "prefix, model sentences, preprocessed corpus, accepted 1-token corpus edits) x both "
        "generator configurations; non-trivial = distinct canonical ASTs round-tripped",
    )


def replay(rep):
    c = rep["case"]
    r = roundtrip(c["text"], c.get("reduce_parentheses", False))
    print("input:", repr(c["text"]))
    if r[0] in (None, "skip"):
        print("round trip fine")
        return 0
    print("signature:", r[0])
    print("detail:", r[1])
    return 1

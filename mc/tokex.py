"""TokEx: the lexer as environment.  Stateless breadth-first exploration of the
real parser over all token strings up to a length, with the exact
unread-suffix reduction (DESIGN §3.A): a run that ended without pulling
end-of-input has the same outcome for every continuation, so only *viable*
strings (runs that pulled end-of-input) are extended.
"""
from __future__ import annotations

from . import core


_PROBE_LEXER = None
FILENAME = "f.c"


def make_probe_parser():
    """A fresh CParser whose (public, injected) lexer records whether
    end-of-input was ever handed to the parser."""
    global _PROBE_LEXER
    from pycparser.c_parser import CParser

    if _PROBE_LEXER is None:
        from pycparser.c_lexer import CLexer

        class ProbeLexer(CLexer):
            saw_eof = False

            def input(self, text, filename=""):
                self.saw_eof = False
                super().input(text, filename)

            def token(self):
                t = super().token()
                if t is None:
                    self.saw_eof = True
                return t

        _PROBE_LEXER = ProbeLexer
    return CParser(lexer=_PROBE_LEXER)


def probe_parse(text, filename=""):
    """(outcome, viable) on a fresh parser instance (no reliance on C12)."""
    p = make_probe_parser()
    out = core.parse_outcome(text, filename, p)
    return out, p.clex.saw_eof


def render(prefix, vocab, s):
    return prefix + "".join(vocab[i] + " " for i in s)


def _work(task):
    prefix, vocab, strings, visitor, last = task
    nv = len(vocab)
    viable_children = []
    n_viable = 0
    stats = {}
    fails = []
    extra = []
    for s in strings:
        base = render(prefix, vocab, s)
        for t in range(nv):
            text = base + vocab[t] + " "
            out, viable = probe_parse(text, FILENAME)
            child = s + (t,)
            if viable:
                n_viable += 1
                if not last:  # children of the last level are only counted
                    viable_children.append(child)
            k = out[0] if out[0] != "exc" else out[1]
            stats[k] = stats.get(k, 0) + 1
            if visitor is not None:
                visitor(child, tuple(vocab[i] for i in child), text, out, viable,
                        stats, fails, extra)
    return viable_children, stats, fails, extra, n_viable


def explore(prefix, vocab, N, visitor=None, fresh=False, chunk=None):
    """Returns dict(levels=[(n_viable, executions)], stats, fails, extra,
    decided) after exploring all strings of length <= N over vocab."""
    vocab = tuple(vocab)
    out0, viable0 = probe_parse(prefix, FILENAME)
    frontier = [()] if viable0 else []
    levels = []
    stats = {}
    fails = []
    extra = []
    executions = 1
    if visitor is not None:
        visitor((), (), prefix, out0, viable0, stats, fails, extra)
    for n in range(1, N + 1):
        if not frontier:
            levels.append((0, 0))
            continue
        csz = chunk or max(1, min(2000, len(frontier) // (core.NPROC * 6) + 1))
        tasks = [
            (prefix, vocab, frontier[i : i + csz], visitor, n == N)
            for i in range(0, len(frontier), csz)
        ]
        res = core.pmap(_work, tasks, chunksize=1)
        nxt = []
        nv_level = 0
        ex = len(frontier) * len(vocab)
        for vc, st, fl, xt, nvi in res:
            nv_level += nvi
            nxt.extend(vc)
            for k, v in st.items():
                stats[k] = stats.get(k, 0) + v
            fails.extend(fl)
            extra.extend(xt)
        executions += ex
        levels.append((nv_level, ex))
        frontier = nxt
    decided = sum(len(vocab) ** n for n in range(0, N + 1))
    return dict(levels=levels, stats=stats, fails=fails, extra=extra,
                executions=executions, decided=decided,
                viable_total=1 + sum(l[0] for l in levels[:-1]) if levels else 1,
                last_frontier=frontier)


def check_reduction(prefix, vocab, maxlen=2):
    """Mechanical check of the reduction argument: every one-token extension of
    every non-viable string of length <= maxlen reproduces its outcome."""
    vocab = tuple(vocab)
    bad = []
    checked = 0
    frontier = [()]
    for n in range(1, maxlen + 1):
        nxt = []
        for s in frontier:
            for t in range(len(vocab)):
                c = s + (t,)
                text = render(prefix, vocab, c)
                out, viable = probe_parse(text, FILENAME)
                if viable:
                    nxt.append(c)
                    continue
                for u in range(len(vocab)):
                    out2, v2 = probe_parse(text + vocab[u] + " ", FILENAME)
                    checked += 1
                    a = out[:2] if out[0] != "ok" else ("ok",)
                    b = out2[:2] if out2[0] != "ok" else ("ok",)
                    if a != b or v2:
                        bad.append((text, vocab[u], a, b))
        frontier = nxt
    return checked, bad

"""Rich token vocabulary for the lexer checks (C09, C10): every keyword and
punctuator, identifiers incl. keyword look-alikes and the literal-prefix
letters, a typedef name, constants with every suffix spelling, literals with
every prefix.  Spellings only; the token *types* come from the reference lexer.
"""
from models.vocab import KEYWORDS, PUNCT

BS = chr(92)  # backslash, kept out of string literals on purpose

IDENTS = ["a", "b", "_x1", "$d", "intx", "_Boolx", "L", "u", "U", "u8",
          # look-alikes of exponents / suffixes / prefixes / keywords
          "e1", "x1", "p1", "f", "l", "LL", "uL", "u8x", "L_", "do1", "If"]
TYPEDEF_NAMES = ["T"]


def is_type(name):
    return name == "T"


def keyword_variants():
    """Identifiers that are NOT keywords but look like one: for every keyword of
    the reference table its case variants (all-lower, all-upper, first letter
    toggled, capitalised, title case, swapped case), for the underscore
    keywords the spelling without / with a doubled leading underscore (and the
    lower-case form of that), and keyword+suffix / prefix+keyword.  C keywords
    are case-sensitive, so each of these is an ordinary identifier (a type
    name if typedef'ed)."""
    out = set()
    for w in KEYWORDS:
        k = 0
        while k < len(w) and not w[k].isalpha():
            k += 1
        toggled = w[:k] + w[k:k + 1].swapcase() + w[k + 1:]
        vs = {w.lower(), w.upper(), toggled, w.capitalize(), w.title(), w.swapcase(),
              w + "x", w + "_", w + "1", "x" + w, "_" + w, "x_" + w.lstrip("_")}
        if w.startswith("_"):
            bare = w.lstrip("_")
            vs |= {bare, bare.lower(), "_" + bare.lower(), "__" + bare, "__" + bare.lower(),
                   "_" + bare.upper()}
        out |= vs
    return sorted(v for v in out if v not in KEYWORDS)


KEYWORD_VARIANTS = keyword_variants()
_KEYWORD_VARIANT_SET = frozenset(KEYWORD_VARIANTS)


def is_type_variants(name):
    """Every keyword look-alike (and T) is registered as a typedef name."""
    return name == "T" or name in _KEYWORD_VARIANT_SET


# 6.4.4.1 integer-suffix: all 22 valid spellings (+ none)
INT_SUFFIXES = ["", "u", "U", "l", "L", "ll", "LL",
                "ul", "uL", "Ul", "UL", "ull", "uLL", "Ull", "ULL",
                "lu", "lU", "Lu", "LU", "llu", "llU", "LLu", "LLU"]
# illegal suffix spellings (a pp-number that is no constant)
BAD_INT_SUFFIXES = ["lul", "uu", "lL", "Ll", "lll", "ulu", "llL", "uf"]
INT_BODIES = ["1", "10", "0", "07", "0x1F", "0Xa", "0b11", "0B1"]

FLOAT_SUFFIXES = ["", "f", "F", "l", "L"]
BAD_FLOAT_SUFFIXES = ["fl", "lf", "ff", "u"]
FLOAT_BODIES = ["1.5", "1.", ".5", "1e3", "1E+3", "1.5e-3", ".5e1", "08.5", "09e1",
                "0x1.8p3", "0x1p-2", "0X.8P+1", "0x1.p0"]

INTS = (["1" + s for s in INT_SUFFIXES]
        + [b + s for b in ("0", "07", "0x1F", "0b11") for s in ("", "U", "l", "uLL", "llU")]
        # traps: hex digits that look like exponent / suffix letters, shortest bodies
        + ["00", "0x0", "0xe", "0x1e", "0x1f", "0xfL", "0b1", "0B10u", "9", "10"])
FLOATS = ["1.5", "1.", ".5", "1e3", "1.5e-3", "1.5f", "1.5F", "1.5l", "1.5L",
          "0x1.8p3", "0x1p-2f", "0x.8P+1L",
          # "first alternative vs longest match" traps: a leading zero followed
          # by 8/9 before the '.' / exponent (octal look-alikes), exponent +
          # suffix, hex floats whose digits are e/f, shortest forms
          "09.5", "08e3", "019.", "0089.25f", "00.5", "0.", "0.0", "0e0", "07.5", "07e1L",
          "1e5f", "1E+3L", "1.e3", "1.e+3", ".5f", ".5e1", "1.L", "9e9",
          "0x1.8p1", "0x1p0", "0X1.P-1F", "0xep1", "0x.ep+1", "0xfp1f"]
CHARS = ["'c'", "L'c'", "u8'c'", "u'c'", "U'c'", "'" + BS + "n'", "'" + BS + "x41'",
         "'" + BS + "0'", "'\"'", "'ab'", "'uu'", "'ll'", "'abcd'",
         "'" + BS + "''", "'" + BS + BS + "'", "'" + BS + "?'", "'#'", "'/'",
         "L'" + BS + "x41'", "'" + BS + "101'"]
STRINGS = ['"s"', 'L"s"', 'u8"s"', 'u"s"', 'U"s"', '""', '"a b"', '"' + BS + '""',
           '"\'"', '"' + BS + BS + '"',
           '"/*"', '"//"', '"#pragma"', '"' + BS + 'x41"', '"' + BS + '101"', '"a' + BS + BS + '"']

FULL = KEYWORDS + PUNCT + IDENTS + TYPEDEF_NAMES + INTS + FLOATS + CHARS + STRINGS

# ~40 tokens chosen so that concatenations exercise longest match
TRIPLE = ["+", "-", "*", "/", "%", "<", ">", "=", "!", "&", "|", "^", ".", "...",
          ":", ";", "(", ")", "->", "++", "<<", ">>=", "?", ",",
          "0", "1", "8", "1.5", "0x1", "1e3",
          "a", "e1", "x1", "p1", "L", "u", "u8", "T", "int", "'c'", '"s"']

# pragma lines as members of the token stream (own line, pinned by the layout
# model): plain, bare, with blanks / tabs between '#' and the word, indented
PRAGMA_TOKENS = ["#pragma x", "#pragma", "# pragma once", "#\tpragma pack(1)",
                 "  #pragma y", " \t# \tpragma z w", "#  pragma",
                 # trailing blanks belong to the PPPRAGMASTR value; blanks only
                 # after the word: no PPPRAGMASTR
                 "#pragma x  ", "#pragma x\t", "#pragma  x y \t ", "#pragma \t"]

# incl. whitespace-only lines (a line of blanks counts as exactly one line)
BLANK_LINE_SEPARATORS = ["\n  \n", "\n\t\n ", " \n \t \n\n  "]
# file names of #line directives / linemarkers, raw text between the outer
# quotes (what cpp emits for files with '"' or a backslash in their name): the
# name is delimited the way the string-literal token rule delimits it
DIRECTIVE_FILE_NAMES = [
    "we" + BS + '"ird.c',                 # escaped quote
    "a" + BS + BS + "b.c",                # escaped backslash
    "dir" + BS + BS,                      # escaped backslash at the very end
    "say " + BS + '"hi' + BS + '".h',     # two escaped quotes and a blank
    "q" + BS + BS + BS + '"z',            # escaped backslash, then escaped quote
    "a b.c",                              # blank
    "a" + BS + "nb",                      # escape-looking text, literally backslash n
    "a" + BS + '"',                       # ends in an escaped quote (signed separately)
]
NAME_ENDING_IN_ESCAPED_QUOTE = len(DIRECTIVE_FILE_NAMES) - 1

SEPARATORS_QUICK = ["", " ", "\n", "\t"] + BLANK_LINE_SEPARATORS
SEPARATORS_THOROUGH = ["", " ", "\n", "\t", "  ", " \n  ", "\n\n"] + BLANK_LINE_SEPARATORS
SEPARATORS_TRIPLE = ["", " ", "\n"]

# CharEx alphabet for the progress / no-silent-skip part of C09 (20 characters)
CHAREX = ["a", "L", "e", "0", "1", ".", "'", '"', BS, "/", "*", "#", "+", "<",
          "=", ";", "@", " ", "\t", "\n"]

# C10 alphabet (17 characters)
C10_ALPHABET = ["0", "1", "8", "f", "e", "x", "p", "u", "l", "L", "U", ".", "+",
                "'", '"', BS, "n"]

#!/venv/bin/python
"""Regenerates /verif/MANIFEST.json from the table below (single source)."""
import json
import os

HERE = os.path.dirname(os.path.dirname(os.path.abspath(__file__)))
PY = "/venv/bin/python /verif/check.py"

# id -> (category, technique, level text, level note, design ref, engine)
CHECKS = {
    "C06": (
        "model_checking",
        "stateless exhaustive exploration of the real parser with the lexer as environment (all token strings <= N, unread-suffix reduction), plus exhaustive 1-edit and character-string enumeration",
        "Every token string up to the bound over the full token vocabulary, in six syntactic contexts, is executed on the real CParser (strings sharing an unread suffix are decided together by an exact reduction that is itself checked mechanically); every single-token edit of the small corpus files and every character string up to the bound are executed too. The outcome of every execution must be FileAST or a located ParseError.",
        "Bounded: token strings <= N after a context prefix, the vocabulary's spellings, strings <= L over 20 characters; longer inputs only as 1-edit neighbourhoods of corpus files. RecursionError tolerated as the property says.",
        "DESIGN.md §3.A, §5 C06",
        "tokex",
    ),
    "C07": (
        "exploration",
        "exhaustive sweep of a bounded program pool (all accepted token strings <= N per context from TokEx, reference-model sentences, corpus and its accepted 1-token edits) through parse/generate/parse",
        "Every program of the bounded, deterministic pool is parsed, regenerated with both generator configurations, re-parsed and compared structurally (slots, not children()), and regenerated again (fixed point). Exhaustive inside the pool bounds.",
        "Pool bounds: token strings <= N after six context prefixes, model sentences at the tier's depth, corpus files and their 1-token edits. AST equality ignores coordinates only.",
        "DESIGN.md §4.9, §5 C07",
        "pool",
    ),
}

PENDING = {
}

ALL = [f"C{i:02d}" for i in range(1, 20)]


def main():
    checks = []
    for pid in ALL:
        if pid not in CHECKS:
            continue
        cat, tech, text, note, ref, eng = CHECKS[pid]
        checks.append(
            {
                "property_id": pid,
                "quick_cmd": f"{PY} {pid} --tier quick",
                "thorough_cmd": f"{PY} {pid} --tier thorough",
                "evidence_file": f"/verif/evidence/{pid}.json",
                "replay_cmd_template": f"{PY} {pid} --replay {{path}}",
                "engine": eng,
                "level_claimed": {"category": cat, "text": text, "design_ref": ref},
                "level_note": note,
                "technique": tech,
            }
        )
    na = [
        {"property_id": pid, "reason": PENDING.get(pid, "check not built yet in this revision of /verif (planned in DESIGN.md §5); not claimed until it runs")}
        for pid in ALL
        if pid not in CHECKS
    ]
    m = {
        "version": 1,
        "setup_cmd": f"{PY} setup",
        "hooks": {
            "guard": "PYCPARSER_VERIF",
            "enable": "no hooks: checks import pycparser from /repo's working tree (VERIF_REPO) and use only public seams (CParser(lexer=...), CLexer callbacks, sys.setprofile)",
            "baseline_off_cmd": "cd /repo && /venv/bin/python -m pytest -ra -q -p no:cacheprovider --timeout=900 --continue-on-collection-errors",
            "source_commits": [],
            "add_only": True,
        },
        "engines": [
            {"name": "tokex", "path": "/verif/mc/tokex.py", "serves_properties": ["C06", "C18", "C07", "C11", "C15", "C17"],
             "kind_free_text": "stateless BFS over token strings on the real parser, environment = lexer answers, exact unread-suffix reduction"},
        ],
        "checks": checks,
        "not_applicable": na,
        "notes": "All checks are bounded exhaustive enumerations executed on the real code from /repo's working tree; nothing that decides a verdict is sampled. See DESIGN.md.",
    }
    with open(os.path.join(HERE, "MANIFEST.json"), "w") as f:
        json.dump(m, f, indent=1)
    print("MANIFEST.json:", len(checks), "checks,", len(na), "not claimed")


if __name__ == "__main__":
    main()

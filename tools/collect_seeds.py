#!/venv/bin/python
"""Copies confirmed seeded changes from /tmp/seed into /verif/seeded/<id>/
(patch.diff, demo.py, meta.json) using the seedrun results."""
import json, os, shutil, sys

SRC = "/tmp/seed"
DST = "/verif/seeded"
os.makedirs(DST, exist_ok=True)
rows = []
for i in range(1, 20):
    pid = f"C{i:02d}"
    mp = f"{SRC}/{pid}.out/meta.json"
    if not os.path.exists(mp):
        continue
    try:
        meta = json.load(open(mp))
    except Exception:
        meta = {"changes": []}
    ch = {c.get("id"): c for c in meta.get("changes", [])}
    for v in "AB":
        rp = f"{SRC}/results/{pid}_{v}.json"
        if not os.path.exists(rp):
            continue
        try:
            r = json.load(open(rp))
        except Exception:
            continue
        if not r.get("applied") or not r.get("tests_pass") or r.get("demo_changed_exit") != 1 or r.get("demo_unchanged_exit") != 0:
            rows.append((pid, v, "NOT KEPT", r.get("apply_error", "")[:80]))
            continue
        d = f"{DST}/{pid}-{v}"
        os.makedirs(d, exist_ok=True)
        shutil.copy(r["patch"], f"{d}/patch.diff")
        shutil.copy(f"{SRC}/{pid}.out/demo_{v}.py", f"{d}/demo.py")
        c = ch.get(v, {})
        m = {
            "property": pid,
            "change": v,
            "summary": c.get("summary"),
            "needs_to_manifest": c.get("what_it_needs_to_manifest"),
            "files": c.get("files"),
            "origin": "written by an isolated sub-agent given only the property text and a scratch worktree",
            "ported": r["patch"].endswith("_ported.diff"),
            "confirmed": {
                "how": "tools/seedrun.py: patch applied to a scratch copy of /repo; repository test-suite; demo on changed and unchanged tree; quick checks with VERIF_REPO on the copy",
                "tests": r.get("tests"),
                "demo_exit_changed_tree": r.get("demo_changed_exit"),
                "demo_exit_unchanged_tree": r.get("demo_unchanged_exit"),
            },
            "checks_run": {k: {"exit": x["exit"], "signatures": x["signatures"][:3]} for k, x in r.get("checks", {}).items()},
            "detected_by": r.get("detected_by"),
        }
        json.dump(m, open(f"{d}/meta.json", "w"), indent=1)
        rows.append((pid, v, ",".join(r.get("detected_by") or []) or "MISSED", (c.get("summary") or "")[:90]))
for row in rows:
    print(*row, sep=" | ")

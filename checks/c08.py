"""C08 - regenerated C means the same as the original to a C compiler.

Every term of the typed sub-model (type-correct by construction) is put in a
translation unit; gcc -S of the original text and of CGenerator's output must
be identical.  Disagreeing batches are bisected exhaustively to single items.
"""
from __future__ import annotations

from mc import core, gccx, corpus
from models import typed_model as tm

PID = "C08"
BATCH = 250


def build_items(tier):
    quick = tier == "quick"
    items = []  # (sig, text)
    idx = 0

    def fn(sig, body):
        nonlocal idx
        idx += 1
        items.append((sig, f"int f{idx}({tm.PARAMS})\n{{ {body} }}\n"))

    for sig, body in tm.expr_functions(2, True):
        fn("expr:" + sig, body)
    if not quick:
        for sig, body in tm.expr_functions(3, False):
            if sig.count("(") >= 3:
                fn("expr:" + sig, body)
    for sig, body in tm.flat_chains():
        fn("expr:" + sig, body)
    for sig, body in tm.stmt_functions(1, True):
        fn("stmt:" + sig, body)
    for sig, body in tm.stmt_functions(2, quick is False):
        fn("stmt:" + sig, body)
    for sig, text in tm.decl_items(2 if quick else 3, not quick):
        items.append((sig, text))
    for sig, text in tm.EXTRA_DECLS:
        items.append(("extra:" + sig, text + "\n"))
    return items


def _compare(text, opts, relayout=True):
    """None if equal under all opts; else (kind, detail, generated text)."""
    o = core.parse_outcome(text)
    if o[0] != "ok":
        return "pycparser-reject", str(o[1:])[:200], None
    try:
        gen = core.generate(o[1])
    except Exception as e:  # noqa
        return "gen-exc", core.exc_site(e), None
    # one token per line in both texts: gcc -O0 code must not depend on which
    # statements share a source line
    t1 = gccx.one_token_per_line(text) if relayout else text
    t2 = gccx.one_token_per_line(gen) if relayout else gen
    for opt in opts:
        ok1, a1 = gccx.asm(t1, opt)
        if not ok1:
            return "model-invalid", gccx.first_diag(a1), gen
        ok2, a2 = gccx.asm(t2, opt)
        if not ok2:
            return "gcc-reject", gccx.first_diag(a2), gen
        if a1 != a2:
            return "asmdiff", opt, gen
    return None


def _bisect(batch, opts, fails, counters):
    """Exhaustive halving: every failing single item of the batch is found.
    batch: [(index, sig, text)]; fails collects (index, kind, text, detail)."""
    text = tm.PRELUDE + "".join(t for _, _, t in batch)
    r = _compare(text, opts)
    if r is None:
        return
    if len(batch) > 1:
        h = len(batch) // 2
        before = len(fails) + counters["rejected"]
        _bisect(batch[:h], opts, fails, counters)
        _bisect(batch[h:], opts, fails, counters)
        if len(fails) + counters["rejected"] == before:
            fails.append((None, "batch-only:" + r[0], text, r[1]))
        return
    idx, sig, t = batch[0]
    kind, det, gen = r
    if kind == "pycparser-reject":
        counters["rejected"] += 1  # C01's business; counted
        return
    if kind == "model-invalid":
        counters["invalid"] += 1
    fails.append((idx, kind, text, {"diag": det, "generated": (gen or "")[-300:]}))


def _work(task):
    batch, opts = task
    fails = []
    counters = {"rejected": 0, "invalid": 0}
    _bisect(batch, opts, fails, counters)
    return len(batch), fails, counters["rejected"], counters["invalid"]


def _corpus_work(task):
    name, text, opts = task
    r = _compare(text, opts, relayout=False)
    if r is None:
        return 1, []
    if r[0] in ("model-invalid", "pycparser-reject"):
        if name.startswith("pragma-tu:"):
            return 1, [(f"{r[0]}:{name}", {"text": text, "opts": opts}, r[1])]
        return 0, []  # gcc does not accept this corpus file as is (fake headers): not in the property's domain
    return 1, [(f"corpus:{r[0]}:{name}", {"text": text, "opts": opts}, r[1])]


def run(tier):
    R = core.Run(PID, tier, "exploration")
    quick = tier == "quick"
    opts = ["-O0"] if quick else ["-O0", "-O1"]
    items = build_items(tier)
    sigs = {s for s, _ in items}
    indexed = [(i, s, t) for i, (s, t) in enumerate(items)]
    tasks = [(b, opts) for b in core.chunked(indexed, BATCH)]
    n = rej = inv = 0
    failing = {}
    for cnt, fl, r, i in core.pmap(_work, tasks, chunksize=1):
        n += cnt
        rej += r
        inv += i
        for idx, kind, text, det in fl:
            if idx is None:
                R.fail(kind, {"text": text, "opts": opts}, det)
            else:
                failing[idx] = (kind, text, det)
    # attribute every failing item to a minimal feature set: a set S qualifies
    # only if every enumerated item containing S failed
    attr = core.attribute_failures([s for s, _ in items], set(failing))
    for idx in sorted(failing, key=lambda i: (len(items[i][1]), i)):
        kind, text, det = failing[idx]
        if kind == "model-invalid":
            R.fail("model-invalid:" + str(det.get("diag")), {"text": text, "opts": opts}, det)
        else:
            R.fail(f"{kind}:{attr[idx]}", {"text": text, "opts": opts, "shape": items[idx][0]}, det)
    ctasks = [(nm, t, opts) for nm, t in corpus.corpus(tier)]
    # translation units with directives: compared as they are, one by one
    ctasks += [("pragma-tu:" + nm, t, opts) for nm, t in tm.PRAGMA_TUS]
    cn = 0
    for c, fl in core.pmap(_corpus_work, ctasks, chunksize=1):
        cn += c
        R.fail_many(fl)
    if n < 3000 or len(sigs) < 500:
        R.fail("vacuous", {"items": n, "sigs": len(sigs)}, "too little explored")
    R.set("evaluations", n + cn)
    R.set("distinct_nontrivial", len(sigs))
    R.set("programs", n + cn)
    R.set("corpus_files_compared", cn)
    R.set("rejected_by_pycparser", rej)
    R.set("model_invalid", inv)
    R.set("gcc_options", opts)
    R.set("bounds", {"expr_ops": 2 if quick else 3, "stmt_depth": 2, "decl_derivations": 2 if quick else 3,
                     "batch": BATCH})
    R.assumptions += ["gcc 12 -S output (with .file/.ident dropped) is the meaning of a program",
                      "typed model emits only programs gcc accepts (items gcc rejects are reported as model-invalid)"]
    return R.finish(
        core.pick_samples([t for _, t in items]),
        "every term of the typed sub-model (expressions <= k operators, statement trees to depth 2, "
        "declarator derivation sequences, a table of declaration forms) batched into translation units; "
        "gcc -S of original vs CGenerator output compared, disagreeing batches bisected to single items; "
        "non-trivial = distinct anonymised term shapes",
    )


def replay(rep):
    c = rep["case"]
    r = _compare(c["text"], c.get("opts", ["-O0"]))
    print("input:", c["text"][-400:])
    print("result:", r[:2] if r else None)
    if r and r[2]:
        print("generated:", r[2][-400:])
    return 0 if r is None else 1

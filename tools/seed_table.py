#!/venv/bin/python
"""Rewrites the seeded-change table of DESIGN.md (between the SEEDED markers)
from /verif/seeded/*/meta.json."""
import glob, json, os, re

rows = []
for mp in sorted(glob.glob("/verif/seeded/*/meta.json")):
    m = json.load(open(mp))
    sid = os.path.basename(os.path.dirname(mp))
    det = m.get("detected_by") or []
    own = m["property"] in det
    summ = (m.get("summary") or "").replace("|", "/").replace("\n", " ")
    summ = summ[:150] + ("..." if len(summ) > 150 else "")
    rows.append(f"| {sid} | {summ} | {', '.join(det) if det else '**not caught**'} | {'yes' if own else ('by related check' if det else 'no')} |")
tbl = ["<!-- SEEDED:BEGIN -->",
       "| seed | change (written by an isolated sub-agent from the property text alone) | caught by (quick tier) | by its own property's check |",
       "|------|------|------|------|"] + rows + [
       "",
       f"{len(rows)} confirmed seeded changes; {sum(1 for r in rows if '**not caught**' not in r)} caught.",
       "<!-- SEEDED:END -->"]
p = "/verif/DESIGN.md"
s = open(p).read()
if "SEEDED_TABLE_PLACEHOLDER" in s:
    s = s.replace("SEEDED_TABLE_PLACEHOLDER", "\n".join(tbl))
else:
    s = re.sub(r"<!-- SEEDED:BEGIN -->.*<!-- SEEDED:END -->", lambda m_: "\n".join(tbl), s, flags=re.S)
open(p, "w").write(s)
print(len(rows), "rows")

"""Reference model of C expressions (C99 6.5.1 - 6.5.17, plus C11 _Alignof).

Written from the standard; nothing here is derived from pycparser's parser
tables or generator.  A model term has two independent interpretations:

* ``render(term, mode, ctx_level)``  -> C source text (tokens separated by
  single blanks), parenthesised according to the grammar levels of Annex A;
* ``expect(term)``                   -> the ``core.canon`` form of the AST that
  pycparser documents for it (``_c_ast.cfg`` field vocabulary, conventions of
  tests/test_c_parser.py).

A third interpretation, ``evaluate(term)``, gives the value C assigns to terms
built from constant-evaluable operators; the gcc audit (``audit_*``) uses it to
bind the renderer's precedence knowledge to an independent compiler.

Terms are plain nested tuples ``(kind, attr, kids)``:

    ('id', name, ())                 identifier
    ('const', spelling, ())          integer / floating / character constant
    ('str', (lit, ...), ())          one or more adjacent string literals
    ('paren', None, (e,))            ( e )                 - explicit parentheses
    ('idx', None, (base, sub))       base [ sub ]
    ('call', None, (f, a1, ..))      f ( a1 , .. )         - zero or more arguments
    ('mem', (op, name), (e,))        e . name  /  e -> name
    ('post', op, (e,))               e ++  /  e --
    ('clit', type, (i1, ..))         ( type ) { i1 , .. }  - compound literal
    ('pre', op, (e,))                ++ -- & * + - ~ !
    ('sizeof', None, (e,))           sizeof e
    ('sizeof_t', type, ())           sizeof ( type )
    ('alignof_t', type, ())          _Alignof ( type )
    ('cast', type, (e,))             ( type ) e
    ('bin', op, (l, r))              the 18 binary operators
    ('cond', None, (c, t, f))        c ? t : f
    ('asg', op, (l, r))              the 11 assignment operators
    ('comma', None, (e1, .., en))    n-ary comma expression, n >= 2

``type`` is a key of ``TYPES``.  All ``kids`` are expressions in source order.

Public API reused by other checks: ``trees``, ``shapes``, ``shapes_rooted``,
``count_shapes``, ``label``, ``relabel``, ``render``, ``render_tokens``, ``render_spans``,
``expect``, ``subterms``, ``positions``, ``get_at``, ``replace_at``,
``wrap_at``, ``children``, ``n_ops``, ``class_term``, ``evaluate``,
``OPS_FULL`` / ``OPS_REP`` / ``OPS_CONST``, ``CONTEXT_LEVEL``.
"""
from __future__ import annotations

import itertools
import os
import re
import subprocess

# ---------------------------------------------------------------------------
# grammar levels (DESIGN Appendix A; C99 6.5.1 - 6.5.17)
# ---------------------------------------------------------------------------
L_COMMA, L_ASSIGN, L_COND = 0, 1, 2
L_LOR, L_LAND, L_OR, L_XOR, L_AND, L_EQ, L_REL, L_SHIFT, L_ADD, L_MUL = range(3, 13)
L_CAST, L_UNARY, L_POSTFIX, L_PRIMARY = 13, 14, 15, 16

# 6.5.5 - 6.5.14: the 18 binary operators on their 10 levels
BINARY_LEVEL = {
    "*": L_MUL, "/": L_MUL, "%": L_MUL,
    "+": L_ADD, "-": L_ADD,
    "<<": L_SHIFT, ">>": L_SHIFT,
    "<": L_REL, ">": L_REL, "<=": L_REL, ">=": L_REL,
    "==": L_EQ, "!=": L_EQ,
    "&": L_AND,
    "^": L_XOR,
    "|": L_OR,
    "&&": L_LAND,
    "||": L_LOR,
}
BINARY_OPS = list(BINARY_LEVEL)
# 6.5.16
ASSIGN_OPS = ["=", "*=", "/=", "%=", "+=", "-=", "<<=", ">>=", "&=", "^=", "|="]
# 6.5.3: ++ -- take a unary-expression, the others a cast-expression
PREFIX_INCDEC = ["++", "--"]
PREFIX_CAST_OPERAND = ["&", "*", "+", "-", "~", "!"]
PREFIX_OPS = PREFIX_INCDEC + PREFIX_CAST_OPERAND
POSTFIX_INCDEC = ["++", "--"]
MEMBER_OPS = [".", "->"]

# What the surrounding construct demands of the expression it holds
# (C99 6.7.8 initializer, 6.5.2 argument-expression-list, 6.7.5 direct-declarator
# [assignment-expression]; 6.8.1 case constant-expression, 6.7.2.1 bit-field
# width, 6.7.2.2 enumerator value (constant-expression = conditional-expression);
# 6.8.3 expression statement, 6.8.4 selection statement condition).
CONTEXT_LEVEL = {
    "init": L_ASSIGN,
    "stmt": L_COMMA,
    "cond": L_COMMA,
    "arg": L_ASSIGN,
    "array_bound": L_ASSIGN,
    "case": L_COND,
    "bitwidth": L_COND,
    "enum_value": L_COND,
    "qual_array_bound": L_ASSIGN,
    "offsetof_index": L_COMMA,
}

MODES = ("minimal", "redundant", "full")


def level(t) -> int:
    """Grammar level of the production that builds the root of ``t``."""
    k = t[0]
    if k in ("id", "const", "str", "paren"):
        return L_PRIMARY
    if k in ("idx", "call", "mem", "post", "clit"):
        return L_POSTFIX
    if k in ("pre", "sizeof", "sizeof_t", "alignof_t"):
        return L_UNARY
    if k == "cast":
        return L_CAST
    if k == "bin":
        return BINARY_LEVEL[t[1]]
    if k == "cond":
        return L_COND
    if k == "asg":
        return L_ASSIGN
    if k == "comma":
        return L_COMMA
    raise ValueError(f"unknown term kind {k!r}")


def child_levels(t):
    """Minimum grammar level each child slot of ``t`` requires (6.5.x)."""
    k = t[0]
    n = len(t[2])
    if k == "paren":
        return (L_COMMA,)  # ( expression )
    if k == "idx":
        return (L_POSTFIX, L_COMMA)  # postfix-expression [ expression ]
    if k == "call":
        return (L_POSTFIX,) + (L_ASSIGN,) * (n - 1)  # argument: assignment-expression
    if k in ("mem", "post"):
        return (L_POSTFIX,)
    if k == "clit":
        return (L_ASSIGN,) * n  # initializer: assignment-expression
    if k == "pre":
        return (L_UNARY,) if t[1] in PREFIX_INCDEC else (L_CAST,)
    if k == "sizeof":
        return (L_UNARY,)
    if k == "cast":
        return (L_CAST,)
    if k == "bin":
        lv = BINARY_LEVEL[t[1]]
        return (lv, lv + 1)  # left-associative: E_L -> E_L op E_(L+1)
    if k == "cond":
        # logical-OR-expression ? expression : conditional-expression
        return (L_LOR, L_COMMA, L_COND)
    if k == "asg":
        # unary-expression assignment-operator assignment-expression
        return (L_UNARY, L_ASSIGN)
    if k == "comma":
        # expression , assignment-expression.  The n-ary node stands for the
        # left-nested chain, so *every* operand is an assignment-expression; a
        # comma expression as an operand is a different term and needs ( ).
        return (L_ASSIGN,) * n
    return ()


# ---------------------------------------------------------------------------
# type names usable in cast / sizeof / _Alignof / compound literal
# (tokens, expected canon of pycparser's Typename).  T is `typedef int T;`
# and S a struct tag in every context the checks use.
# ---------------------------------------------------------------------------
def _node(cls, *fields):
    return (cls, tuple(fields))


def _typename(quals, inner):
    return _node("Typename", ("name", None), ("quals", tuple(quals)), ("align", None), ("type", inner))


def _typedecl(quals, inner):
    return _node("TypeDecl", ("declname", None), ("quals", tuple(quals)), ("align", None), ("type", inner))


def _idtype(*names):
    return _node("IdentifierType", ("names", tuple(names)))


def _ptr(quals, inner):
    return _node("PtrDecl", ("quals", tuple(quals)), ("type", inner))


TYPES = {
    "int": (["int"], _typename((), _typedecl((), _idtype("int")))),
    "T": (["T"], _typename((), _typedecl((), _idtype("T")))),
    "unsigned char": (["unsigned", "char"], _typename((), _typedecl((), _idtype("unsigned", "char")))),
    "_Bool": (["_Bool"], _typename((), _typedecl((), _idtype("_Bool")))),
    "long long": (["long", "long"], _typename((), _typedecl((), _idtype("long", "long")))),
    "int *": (["int", "*"], _typename((), _ptr((), _typedecl((), _idtype("int"))))),
    "T *": (["T", "*"], _typename((), _ptr((), _typedecl((), _idtype("T"))))),
    "const int": (["const", "int"], _typename(("const",), _typedecl(("const",), _idtype("int")))),
    "struct S": (["struct", "S"], _typename((), _typedecl((), _node("Struct", ("name", "S"), ("decls", None))))),
}

# ---------------------------------------------------------------------------
# constructors
# ---------------------------------------------------------------------------
LEAF = ("id", None, ())


def Id(name):
    return ("id", name, ())


def Const(spelling):
    return ("const", spelling, ())


def Str(*lits):
    return ("str", tuple(lits), ())


def Paren(e):
    return ("paren", None, (e,))


def Index(base, sub):
    return ("idx", None, (base, sub))


def Call(f, *args):
    return ("call", None, (f,) + tuple(args))


def Member(op, e, name):
    assert op in MEMBER_OPS
    return ("mem", (op, name), (e,))


def Postfix(op, e):
    assert op in POSTFIX_INCDEC
    return ("post", op, (e,))


def CompoundLit(typ, *inits):
    assert typ in TYPES and inits
    return ("clit", typ, tuple(inits))


def Prefix(op, e):
    assert op in PREFIX_OPS
    return ("pre", op, (e,))


def SizeofExpr(e):
    return ("sizeof", None, (e,))


def SizeofType(typ):
    assert typ in TYPES
    return ("sizeof_t", typ, ())


def AlignofType(typ):
    assert typ in TYPES
    return ("alignof_t", typ, ())


def Cast(typ, e):
    assert typ in TYPES
    return ("cast", typ, (e,))


def Binary(op, l, r):
    assert op in BINARY_LEVEL
    return ("bin", op, (l, r))


def Cond(c, t, f):
    return ("cond", None, (c, t, f))


def Assign(op, l, r):
    assert op in ASSIGN_OPS
    return ("asg", op, (l, r))


def Comma(*es):
    assert len(es) >= 2
    return ("comma", None, tuple(es))


def children(t):
    return t[2]


def rebuild(t, kids):
    return (t[0], t[1], tuple(kids))


def n_ops(t) -> int:
    """Number of operator nodes (everything that is not a leaf; explicit
    parentheses do not count)."""
    k = t[0]
    own = 0 if k in ("id", "const", "str", "paren") else 1
    return own + sum(n_ops(c) for c in t[2])


def to_json(t):
    return [t[0], list(t[1]) if isinstance(t[1], tuple) else t[1], [to_json(c) for c in t[2]]]


def from_json(j):
    a = tuple(j[1]) if isinstance(j[1], list) else j[1]
    return (j[0], a, tuple(from_json(c) for c in j[2]))


# ---------------------------------------------------------------------------
# operator alphabets for the enumerator: (kind, attr, number of children)
# ---------------------------------------------------------------------------
def _ops_full():
    ops = []
    ops += [("sizeof_t", "int", 0), ("sizeof_t", "T", 0), ("alignof_t", "int", 0)]
    ops += [("pre", o, 1) for o in PREFIX_OPS]
    ops += [("sizeof", None, 1), ("cast", "int", 1), ("cast", "T", 1)]
    ops += [("post", o, 1) for o in POSTFIX_INCDEC]
    ops += [("mem", (o, None), 1) for o in MEMBER_OPS]
    ops += [("call", None, 1), ("clit", "int", 1)]
    ops += [("bin", o, 2) for o in BINARY_OPS]
    ops += [("asg", o, 2) for o in ASSIGN_OPS]
    ops += [("idx", None, 2), ("call", None, 2), ("comma", None, 2), ("clit", "T", 2)]
    ops += [("cond", None, 3), ("call", None, 3), ("comma", None, 3)]
    return tuple(ops)


def _ops_rep():
    """One representative per precedence class (and per production shape)."""
    ops = []
    ops += [("sizeof_t", "int", 0), ("alignof_t", "int", 0)]
    ops += [("pre", "++", 1), ("pre", "-", 1), ("pre", "*", 1), ("pre", "&", 1)]
    ops += [("sizeof", None, 1), ("cast", "T", 1), ("post", "++", 1), ("mem", ("->", None), 1)]
    ops += [("call", None, 1), ("clit", "int", 1)]
    # one per binary level; the ones that are also prefix operators where possible
    ops += [("bin", o, 2) for o in ("*", "-", "<<", "<", "==", "&", "^", "|", "&&", "||")]
    ops += [("asg", "=", 2), ("asg", "+=", 2)]
    ops += [("idx", None, 2), ("call", None, 2), ("comma", None, 2)]
    ops += [("cond", None, 3)]
    return tuple(ops)


def _ops_const():
    """Operators whose result C defines as a compile-time value for integer
    operands (6.6); comma, assignment, ++/--, &, *, calls are excluded."""
    ops = []
    ops += [("sizeof_t", "int", 0), ("alignof_t", "int", 0)]
    ops += [("pre", o, 1) for o in ("+", "-", "~", "!")]
    ops += [("sizeof", None, 1), ("cast", "int", 1), ("cast", "unsigned char", 1), ("cast", "_Bool", 1)]
    ops += [("bin", o, 2) for o in BINARY_OPS]
    ops += [("cond", None, 3)]
    return tuple(ops)


OPS_FULL = _ops_full()
OPS_REP = _ops_rep()
OPS_CONST = _ops_const()

_SHAPE_CACHE = {}


def _compositions(total, parts):
    """All ways to write total as an ordered sum of `parts` non-negative ints."""
    if parts == 0:
        if total == 0:
            yield ()
        return
    if parts == 1:
        yield (total,)
        return
    for first in range(total + 1):
        for rest in _compositions(total - first, parts - 1):
            yield (first,) + rest


def shapes_rooted(n, op, ops=OPS_FULL):
    """Unlabelled terms with exactly n operator nodes whose root is `op`."""
    kind, attr, arity = op
    if n < 1:
        return
    if arity == 0:
        if n == 1:
            yield (kind, attr, ())
        return
    for comp in _compositions(n - 1, arity):
        pools = [shapes(m, ops) for m in comp]
        for kids in itertools.product(*pools):
            yield (kind, attr, kids)


def shapes(n, ops=OPS_FULL):
    """List (memoised) of all unlabelled terms with exactly n operator nodes,
    in a fixed order (operator order of `ops`, then split of n-1 over the
    children, then recursively)."""
    key = (n, ops)
    got = _SHAPE_CACHE.get(key)
    if got is None:
        if n == 0:
            got = [LEAF]
        else:
            got = []
            for op in ops:
                got.extend(shapes_rooted(n, op, ops))
        _SHAPE_CACHE[key] = got
    return got


def count_shapes(n, ops=OPS_FULL, _memo={}):
    """Number of terms with exactly n operator nodes (closed form, no
    enumeration) - used to plan the work and as a cross-check of `shapes`."""
    key = (n, ops)
    if key in _memo:
        return _memo[key]
    if n == 0:
        r = 1
    else:
        r = 0
        for _k, _a, arity in ops:
            if arity == 0:
                r += 1 if n == 1 else 0
                continue
            for comp in _compositions(n - 1, arity):
                p = 1
                for m in comp:
                    p *= count_shapes(m, ops)
                r += p
    _memo[key] = r
    return r


def count_rooted(n, op, ops=OPS_FULL):
    arity = op[2]
    if arity == 0:
        return 1 if n == 1 else 0
    r = 0
    for comp in _compositions(n - 1, arity):
        p = 1
        for m in comp:
            p *= count_shapes(m, ops)
        r += p
    return r


LEAF_NAMES = "abcdehijkopqrs"  # avoid f/g (callee names), l (looks like 1), m/n
MEMBER_NAMES = ["m", "n", "mm", "nn", "m3", "n3"]


def label(t, leaves=None, members=None):
    """Give the placeholder leaves distinct names by position (left to right in
    source order), and member operators distinct member names.  `leaves` may
    be a list of replacement leaf *terms* (used by the gcc audit: primes)."""
    li = [0]
    mi = [0]
    if members is None:
        members = MEMBER_NAMES

    def go(x):
        k = x[0]
        if k == "id" and x[1] is None:
            i = li[0]
            li[0] += 1
            return leaves[i] if leaves is not None else ("id", LEAF_NAMES[i], ())
        if k == "mem" and x[1][1] is None:
            kids = tuple(go(c) for c in x[2])
            i = mi[0]
            mi[0] += 1
            return ("mem", (x[1][0], members[i]), kids)
        if not x[2]:
            return x
        return (k, x[1], tuple(go(c) for c in x[2]))

    return go(t)


def unlabel(t):
    """Inverse of `label`: anonymise identifier leaves and member names."""
    k = t[0]
    if k in ("id", "const", "str"):
        return LEAF
    if k == "mem":
        return ("mem", (t[1][0], None), tuple(unlabel(c) for c in t[2]))
    return (k, t[1], tuple(unlabel(c) for c in t[2]))


def relabel(t):
    """Canonical labelling of an already labelled term: identifier leaves and
    member names are renamed by position, constants and strings are kept."""
    li = [0]
    mi = [0]

    def go(x):
        k = x[0]
        if k == "id":
            i = li[0]
            li[0] += 1
            return ("id", LEAF_NAMES[i], ())
        if k == "mem":
            kids = tuple(go(c) for c in x[2])
            i = mi[0]
            mi[0] += 1
            return ("mem", (x[1][0], MEMBER_NAMES[i]), kids)
        if not x[2]:
            return x
        return (k, x[1], tuple(go(c) for c in x[2]))

    return go(t)


def trees(max_ops, ops=OPS_FULL, min_ops=0, labelled=True):
    """All terms with min_ops..max_ops operator nodes, smallest first; leaves
    are distinct identifiers by position."""
    for n in range(min_ops, max_ops + 1):
        if n <= 2:
            it = shapes(n, ops)
        else:
            it = itertools.chain.from_iterable(shapes_rooted(n, op, ops) for op in ops)
        for s in it:
            yield label(s) if labelled else s


# ---------------------------------------------------------------------------
# sub-term positions
# ---------------------------------------------------------------------------
def subterms(t, _path=()):
    """[(path, sub-term)] in pre-order; path = tuple of child indexes."""
    out = [(_path, t)]
    for i, c in enumerate(t[2]):
        out.extend(subterms(c, _path + (i,)))
    return out


def positions(t):
    """Paths of all sub-expression positions of t (root = ())."""
    return [p for p, _ in subterms(t)]


def get_at(t, path):
    for i in path:
        t = t[2][i]
    return t


def replace_at(t, path, new):
    if not path:
        return new
    i = path[0]
    kids = list(t[2])
    kids[i] = replace_at(kids[i], path[1:], new)
    return (t[0], t[1], tuple(kids))


def wrap_at(t, path):
    """The same term with the sub-expression at `path` wrapped in one
    (redundant) pair of parentheses."""
    return replace_at(t, path, Paren(get_at(t, path)))


# ---------------------------------------------------------------------------
# render
# ---------------------------------------------------------------------------
def _wrap_count(child_level, required, mode):
    if mode == "minimal":
        return 1 if child_level < required else 0
    if mode == "redundant":
        return 2 if child_level < required else 1
    if mode == "full":
        return 1 if child_level < L_PRIMARY else 0
    raise ValueError(mode)


def _emit(t, mode, out, spans, path):
    k = t[0]
    kids = t[2]
    start = len(out)
    if k == "id" or k == "const":
        out.append(t[1])
    elif k == "str":
        out.extend(t[1])
    else:
        req = child_levels(t)

        def kid(i):
            c = kids[i]
            n = _wrap_count(level(c), req[i], mode)
            out.extend("(" * n)
            _emit(c, mode, out, spans, path + (i,))
            out.extend(")" * n)

        if k == "paren":
            out.append("(")
            kid(0)
            out.append(")")
        elif k == "idx":
            kid(0)
            out.append("[")
            kid(1)
            out.append("]")
        elif k == "call":
            kid(0)
            out.append("(")
            for i in range(1, len(kids)):
                if i > 1:
                    out.append(",")
                kid(i)
            out.append(")")
        elif k == "mem":
            kid(0)
            out.append(t[1][0])
            out.append(t[1][1])
        elif k == "post":
            kid(0)
            out.append(t[1])
        elif k == "clit":
            out.append("(")
            out.extend(TYPES[t[1]][0])
            out.append(")")
            out.append("{")
            for i in range(len(kids)):
                if i:
                    out.append(",")
                kid(i)
            out.append("}")
        elif k == "pre":
            out.append(t[1])
            kid(0)
        elif k == "sizeof":
            out.append("sizeof")
            kid(0)
        elif k == "sizeof_t" or k == "alignof_t":
            out.append("sizeof" if k == "sizeof_t" else "_Alignof")
            out.append("(")
            out.extend(TYPES[t[1]][0])
            out.append(")")
        elif k == "cast":
            out.append("(")
            out.extend(TYPES[t[1]][0])
            out.append(")")
            kid(0)
        elif k == "bin" or k == "asg":
            kid(0)
            out.append(t[1])
            kid(1)
        elif k == "cond":
            kid(0)
            out.append("?")
            kid(1)
            out.append(":")
            kid(2)
        elif k == "comma":
            for i in range(len(kids)):
                if i:
                    out.append(",")
                kid(i)
        else:
            raise ValueError(k)
    if spans is not None:
        spans[path] = (start, len(out))


def render_tokens(t, mode="minimal", ctx_level=L_COMMA):
    """Token list of `t` for a slot that requires grammar level `ctx_level`."""
    out = []
    n = _wrap_count(level(t), ctx_level, mode)
    out.extend("(" * n)
    _emit(t, mode, out, None, ())
    out.extend(")" * n)
    return out


def render(t, mode="minimal", ctx_level=L_COMMA):
    return " ".join(render_tokens(t, mode, ctx_level))


def render_spans(t, mode="minimal", ctx_level=L_COMMA):
    """(tokens, {path: (first token index, one past last)}) - the span of a
    sub-term excludes the parentheses the renderer put round it."""
    out = []
    spans = {}
    n = _wrap_count(level(t), ctx_level, mode)
    out.extend("(" * n)
    _emit(t, mode, out, spans, ())
    out.extend(")" * n)
    return out, spans


# ---------------------------------------------------------------------------
# constants: spelling -> pycparser's documented Constant.type
# ---------------------------------------------------------------------------
INT_BASE_SPELLINGS = ["0", "7", "10", "017", "0x1F", "0X1f", "0xabcdef", "0b101", "0B1"]
_U = ["u", "U"]
_LS = ["l", "L"]
_LLS = ["ll", "LL"]
INT_SUFFIXES = (
    [""] + _U + _LS + _LLS
    + [u + l for u in _U for l in _LS + _LLS]
    + [l + u for l in _LS + _LLS for u in _U]
)
FLOAT_FORMS = ["1.5", "1.", ".5", "1e3", "1E+3", "1.5e-3", ".5e3", "0.0",
               "0x1p3", "0x1.8p-1", "0x.8p1", "0X1.P+2", "0xA.Bp0"]
FLOAT_SUFFIXES = ["", "f", "F", "l", "L"]
CHAR_BODIES = ["a", "0", "\\n", "\\'", "\\\\", "\\x41", "\\101", "\\0", "\""]
MULTICHAR_BODIES = ["ab", "uu", "ll", "a\\n"]
CHAR_PREFIXES = ["", "L", "u", "U", "u8"]
STRING_BODIES = ["s", "", "a\\\"b", "\\n", "a b", "'", "//", "/*"]
STRING_PREFIXES = ["", "L", "u8", "u", "U"]

_INT_RE = re.compile(r"^(0[xX][0-9a-fA-F]+|0[bB][01]+|0[0-7]*|[1-9][0-9]*)([uUlL]*)$")
_FLOAT_RE = re.compile(
    r"^(0[xX]([0-9a-fA-F]*\.[0-9a-fA-F]+|[0-9a-fA-F]+\.?)[pP][+-]?[0-9]+"
    r"|([0-9]*\.[0-9]+|[0-9]+\.)([eE][+-]?[0-9]+)?|[0-9]+[eE][+-]?[0-9]+)([fFlL]?)$"
)
WILD = "?"  # expected type the documented conventions do not determine


def constant_type(sp: str) -> str:
    """Constant.type for a constant spelling.  Integer: int with `unsigned`
    for a u and `long` per l; floating: double / float (f) / long double (l);
    'c' -> char, multi-character constant -> int (C99 6.4.4.4p10); prefixed
    character constants: not documented -> WILD."""
    if sp.endswith("'"):
        q = sp.index("'")
        prefix, body = sp[:q], sp[q + 1 : -1]
        n = len(re.findall(r"\\x[0-9a-fA-F]+|\\[0-7]{1,3}|\\.|.", body))
        if prefix:
            return WILD
        return "char" if n == 1 else "int"
    m = _INT_RE.match(sp)
    if m:
        suf = m.group(2).lower()
        nl = suf.count("l")
        nu = suf.count("u")
        assert nu <= 1 and nl <= 2, sp
        return " ".join(["unsigned"] * nu + ["long"] * nl + ["int"])
    m = _FLOAT_RE.match(sp)
    if m:
        suf = m.group(5)
        return {"": "double", "f": "float", "l": "long double"}[suf.lower()]
    raise ValueError(f"not a constant spelling: {sp!r}")


def split_string_literal(lit: str):
    q = lit.index('"')
    return lit[:q], lit[q + 1 : -1]


def concat_strings(lits):
    """Value of a sequence of adjacent string literals as one literal
    (C11 6.4.5p5): contents concatenated; the result carries the encoding
    prefix if any token has one.  Returns None when two *different* prefixes
    are mixed (implementation-defined, outside the model)."""
    prefixes = []
    body = ""
    for l in lits:
        p, b = split_string_literal(l)
        if p and p not in prefixes:
            prefixes.append(p)
        body += b
    if len(prefixes) > 1:
        return None
    return (prefixes[0] if prefixes else "") + '"' + body + '"'


# ---------------------------------------------------------------------------
# expect: canonical form of pycparser's AST
# ---------------------------------------------------------------------------
def _ID(name):
    return ("ID", (("name", name),))


def expect(t):
    k = t[0]
    kids = t[2]
    if k == "id":
        return _ID(t[1])
    if k == "const":
        return ("Constant", (("type", constant_type(t[1])), ("value", t[1])))
    if k == "str":
        return ("Constant", (("type", "string"), ("value", concat_strings(t[1]))))
    if k == "paren":
        return expect(kids[0])
    if k == "idx":
        return ("ArrayRef", (("name", expect(kids[0])), ("subscript", expect(kids[1]))))
    if k == "call":
        args = None
        if len(kids) > 1:
            args = ("ExprList", (("exprs", tuple(expect(a) for a in kids[1:])),))
        return ("FuncCall", (("name", expect(kids[0])), ("args", args)))
    if k == "mem":
        return ("StructRef", (("name", expect(kids[0])), ("type", t[1][0]), ("field", _ID(t[1][1]))))
    if k == "post":
        return ("UnaryOp", (("op", "p" + t[1]), ("expr", expect(kids[0]))))
    if k == "clit":
        init = ("InitList", (("exprs", tuple(expect(a) for a in kids)),))
        return ("CompoundLiteral", (("type", TYPES[t[1]][1]), ("init", init)))
    if k == "pre":
        return ("UnaryOp", (("op", t[1]), ("expr", expect(kids[0]))))
    if k == "sizeof":
        return ("UnaryOp", (("op", "sizeof"), ("expr", expect(kids[0]))))
    if k == "sizeof_t":
        return ("UnaryOp", (("op", "sizeof"), ("expr", TYPES[t[1]][1])))
    if k == "alignof_t":
        return ("UnaryOp", (("op", "_Alignof"), ("expr", TYPES[t[1]][1])))
    if k == "cast":
        return ("Cast", (("to_type", TYPES[t[1]][1]), ("expr", expect(kids[0]))))
    if k == "bin":
        return ("BinaryOp", (("op", t[1]), ("left", expect(kids[0])), ("right", expect(kids[1]))))
    if k == "cond":
        return ("TernaryOp", (("cond", expect(kids[0])), ("iftrue", expect(kids[1])), ("iffalse", expect(kids[2]))))
    if k == "asg":
        return ("Assignment", (("op", t[1]), ("lvalue", expect(kids[0])), ("rvalue", expect(kids[1]))))
    if k == "comma":
        # a comma expression that is an operand of another one was necessarily
        # parenthesised and stays a nested ExprList
        return ("ExprList", (("exprs", tuple(expect(a) for a in kids)),))
    raise ValueError(k)


def normalise_observed(c):
    """Replace, in an observed canon value, the parts the documented
    conventions leave open by the WILD marker `expect` uses: the type of a
    prefixed character constant (L'c', u'c', U'c', u8'c')."""
    if isinstance(c, tuple):
        if len(c) == 2 and c[0] == "Constant" and isinstance(c[1], tuple):
            d = dict(c[1])
            v = d.get("value")
            if isinstance(v, str) and v.endswith("'") and not v.startswith("'"):
                return ("Constant", (("type", WILD), ("value", v)))
            return c
        return tuple(normalise_observed(x) for x in c)
    return c


# ---------------------------------------------------------------------------
# operator classes (failure signatures)
# ---------------------------------------------------------------------------
def op_class(t) -> str:
    k = t[0]
    if k in ("id", "const"):
        return "_"
    if k == "str":
        return "_" if len(t[1]) == 1 else "strings"
    if k in ("idx", "call", "mem", "post"):
        return "postfix"
    if k == "clit":
        return "compound-literal"
    if k == "pre":
        # * and & are also binary operators, ++ -- take a unary-expression
        return {"*": "deref", "&": "addr", "++": "preinc", "--": "preinc"}.get(t[1], "prefix")
    if k == "sizeof":
        return "sizeof"
    if k in ("sizeof_t", "alignof_t"):
        return "sizeof-type"
    if k == "bin":
        return f"bin-L{BINARY_LEVEL[t[1]]}"
    return {"paren": "paren", "cast": "cast", "cond": "cond", "asg": "assign", "comma": "comma"}[k]


def class_term(t) -> str:
    """The term with leaves anonymised and operators replaced by their class,
    e.g. postfix(compound-literal(_))."""
    c = op_class(t)
    kids = t[2]
    if not kids:
        return c
    if t[0] in ("idx", "call"):
        # the operand in the precedence sense is the base; bracketed operands
        # are shown only when they are not plain leaves
        kids = kids[:1] + tuple(x for x in kids[1:] if class_term(x) != "_")
    return c + "(" + ",".join(class_term(x) for x in kids) + ")"


# ---------------------------------------------------------------------------
# evaluate: C semantics of constant-evaluable terms (LP64, 32-bit int)
# ---------------------------------------------------------------------------
class Unevaluable(Exception):
    """The term has no defined compile-time value (not a constant operator,
    undefined behaviour, or implementation-specific beyond LP64)."""


# the arithmetic types that can arise, with their sizes
INT, ULONG, UCHAR, BOOL = "int", "ulong", "uchar", "bool"
TYPE_SIZE = {INT: 4, ULONG: 8, UCHAR: 1, BOOL: 1}
_INT_MIN, _INT_MAX = -(2 ** 31), 2 ** 31 - 1
_M64 = 2 ** 64


def _promote(typ):
    return ULONG if typ == ULONG else INT  # integer promotions (6.3.1.1)


def _fit(v, typ):
    if typ == INT:
        if not (_INT_MIN <= v <= _INT_MAX):
            raise Unevaluable("signed overflow")
        return v
    return v % _M64


def _arith(op, a, b):
    (va, ta), (vb, tb) = a, b
    typ = ULONG if ULONG in (ta, tb) else INT  # usual arithmetic conversions
    if typ == ULONG:
        va %= _M64
        vb %= _M64
    if op == "*":
        return _fit(va * vb, typ), typ
    if op in ("/", "%"):
        if vb == 0:
            raise Unevaluable("division by zero")
        q = abs(va) // abs(vb)
        if (va < 0) != (vb < 0):
            q = -q  # truncation toward zero (6.5.5p6)
        r = va - q * vb
        return (_fit(q, typ) if op == "/" else _fit(r, typ)), typ
    if op == "+":
        return _fit(va + vb, typ), typ
    if op == "-":
        return _fit(va - vb, typ), typ
    if op in ("<", ">", "<=", ">=", "==", "!="):
        r = {"<": va < vb, ">": va > vb, "<=": va <= vb, ">=": va >= vb, "==": va == vb, "!=": va != vb}[op]
        return int(r), INT
    if op == "&":
        return _fit(va & vb, typ), typ
    if op == "^":
        return _fit(va ^ vb, typ), typ
    if op == "|":
        return _fit(va | vb, typ), typ
    raise ValueError(op)


def evaluate(t):
    """(value, type) of a constant-evaluable term whose leaves are decimal
    integer constants; raises Unevaluable otherwise."""
    k = t[0]
    kids = t[2]
    if k == "const":
        if not t[1].isdigit():
            raise Unevaluable("leaf")
        return _fit(int(t[1]), INT), INT
    if k == "paren":
        return evaluate(kids[0])
    if k in ("sizeof_t", "alignof_t"):
        size = {"int": 4, "T": 4, "unsigned char": 1, "_Bool": 1, "long long": 8}.get(t[1])
        if size is None:
            raise Unevaluable("type")
        return size, ULONG
    if k == "sizeof":
        _v, typ = evaluate(kids[0])  # operand is typed, not evaluated
        return TYPE_SIZE[typ], ULONG
    if k == "cast":
        v, _typ = evaluate(kids[0])
        if t[1] in ("int", "T"):
            v %= 2 ** 32
            return (v - 2 ** 32 if v > _INT_MAX else v), INT
        if t[1] == "unsigned char":
            return v % 256, UCHAR
        if t[1] == "_Bool":
            return int(v != 0), BOOL
        raise Unevaluable("cast type")
    if k == "pre":
        v, typ = evaluate(kids[0])
        typ = _promote(typ)
        op = t[1]
        if op == "+":
            return v, typ
        if op == "-":
            return _fit(-v, typ), typ
        if op == "~":
            return _fit(~v, typ), typ
        if op == "!":
            return int(v == 0), INT
        raise Unevaluable("operator")
    if k == "bin":
        op = t[1]
        a = evaluate(kids[0])
        b = evaluate(kids[1])
        if op == "&&":
            return int(a[0] != 0 and b[0] != 0), INT
        if op == "||":
            return int(a[0] != 0 or b[0] != 0), INT
        a = (a[0], _promote(a[1]))
        b = (b[0], _promote(b[1]))
        if op in ("<<", ">>"):
            (va, ta), (vb, _tb) = a, b
            width = 32 if ta == INT else 64
            if vb < 0 or vb >= width or va < 0:
                raise Unevaluable("shift")
            if op == "<<":
                r = va << vb
                if ta == INT and r > _INT_MAX:
                    raise Unevaluable("shift overflow")
                return _fit(r, ta), ta
            return va >> vb, ta
        return _arith(op, a, b)
    if k == "cond":
        c = evaluate(kids[0])
        a = evaluate(kids[1])
        b = evaluate(kids[2])
        typ = ULONG if ULONG in (a[1], b[1]) else INT
        v = a[0] if c[0] != 0 else b[0]
        return _fit(v, typ), typ
    raise Unevaluable(k)


# ---------------------------------------------------------------------------
# gcc audit: the renderer's text means what `evaluate` says
# ---------------------------------------------------------------------------
PRIMES_UP = [2, 3, 5, 7, 11, 13, 17, 19]
PRIMES_DOWN = [251, 83, 29, 11, 5, 3, 2, 7]
# Supplementary assignments (first three leaves chosen by a one-off greedy
# search so that, together with the two prime assignments, the two groupings
# of `a op1 b op2 c` differ in value for every ordered pair of binary operators
# for which they can differ at all: 314 of 324; the other 10 are algebraic
# identities such as (a+b)-c == a+(b-c)).  Zero and repeated values are needed
# for && || == and the shifts; the remaining leaves are primes again.
AUDIT_EXTRA = [
    [0, 12, 3, 7, 5, 11, 13, 17],
    [29, 3, 1, 7, 5, 11, 13, 17],
    [1, 2, 2, 7, 5, 11, 13, 17],
    [0, 0, 2, 7, 5, 11, 13, 17],
    [2, 0, 0, 7, 5, 11, 13, 17],
    [1, 3, 3, 7, 5, 11, 13, 17],
]
AUDIT_PRELUDE = "typedef int T ;\n"


def audit_line(t, mode):
    """One `_Static_assert` line for a term with prime leaves, or None if the
    term has no defined value."""
    try:
        v, typ = evaluate(t)
    except Unevaluable:
        return None
    text = render(t, mode, L_COMMA)
    val = f"{v}UL" if typ == ULONG else (f"( - {-v - 1} - 1 )" if v < 0 else str(v))
    # the sizeof test binds the *type* the model computed, not only the value
    size = TYPE_SIZE[typ]
    return f'_Static_assert ( ( {text} ) == {val} && sizeof ( {text} ) == {size} , "" ) ;'


def run_gcc_batch(lines, workdir, name):
    """Compile one translation unit of assertion lines with gcc.  Returns the
    list of 0-based indexes of lines gcc objected to (empty = all hold)."""
    path = os.path.join(workdir, name + ".c")
    with open(path, "w") as f:
        f.write(AUDIT_PRELUDE)
        for l in lines:
            f.write(l + "\n")
    p = subprocess.run(
        ["gcc", "-std=c11", "-fsyntax-only", "-w", "-fmax-errors=0", path],
        capture_output=True, text=True,
    )
    os.unlink(path)
    bad = set()
    for m in re.finditer(r"^[^:\n]+:(\d+):\d+: (?:fatal )?error", p.stderr, re.M):
        bad.add(int(m.group(1)) - 1 - AUDIT_PRELUDE.count("\n"))
    if p.returncode != 0 and not bad:
        bad.add(-1)  # gcc failed in a way we could not attribute to a line
    return sorted(bad), p.stderr[:2000]

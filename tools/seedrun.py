#!/venv/bin/python
"""seedrun.py <patch.diff> <demo.py> [--checks C06,C18 | --all] [--tier quick]

Evaluates one seeded change: copies /repo to a scratch directory outside /repo
and /verif, applies the patch, confirms the repository's own test-suite still
passes and that the demonstration fails with the change and passes without,
then runs the listed checks with VERIF_REPO pointing at the copy (evidence and
replays redirected to the scratch dir, so /verif/evidence keeps describing
/repo).  Prints a JSON summary; removes the copy.
"""
import argparse
import json
import os
import shutil
import subprocess
import sys
import tempfile
import time

VERIF = os.path.dirname(os.path.dirname(os.path.abspath(__file__)))
ALL = [f"C{i:02d}" for i in range(1, 20)]


def sh(cmd, cwd=None, env=None, timeout=3600):
    r = subprocess.run(cmd, cwd=cwd, env=env, capture_output=True, text=True, timeout=timeout)
    return r.returncode, r.stdout + r.stderr


def main():
    ap = argparse.ArgumentParser()
    ap.add_argument("patch")
    ap.add_argument("demo", nargs="?")
    ap.add_argument("--checks", default="")
    ap.add_argument("--all", action="store_true")
    ap.add_argument("--tier", default="quick")
    ap.add_argument("--skip-tests", action="store_true")
    ap.add_argument("--nproc", default=os.environ.get("VERIF_NPROC", "16"))
    a = ap.parse_args()
    scratch = tempfile.mkdtemp(prefix="seedrun_")
    res = {"patch": a.patch,
           "repo_commit": subprocess.run(["git", "-C", "/repo", "rev-parse", "--short", "HEAD"],
                                         capture_output=True, text=True).stdout.strip()}
    try:
        repo = os.path.join(scratch, "repo")
        shutil.copytree("/repo", repo, ignore=shutil.ignore_patterns(".git", "__pycache__", "*.egg-info"))
        rc, out = sh(["git", "init", "-q"], cwd=repo)
        rc, out = sh(["git", "apply", "--whitespace=nowarn", os.path.abspath(a.patch)], cwd=repo)
        if rc != 0:
            # /repo may have moved on since the patch was made: retry with fuzz
            rc, out2 = sh(["patch", "-p1", "--fuzz=3", "-i", os.path.abspath(a.patch)], cwd=repo)
            res["applied_with_fuzz"] = rc == 0
            out += out2
        res["applied"] = rc == 0
        if rc != 0:
            res["apply_error"] = out[-400:]
            print(json.dumps(res, indent=1))
            return 2
        env = dict(os.environ, PYTHONDONTWRITEBYTECODE="1")
        if not a.skip_tests:
            rc, out = sh(["/venv/bin/python", "-m", "pytest", "-q", "-p", "no:cacheprovider", "-x"], cwd=repo, env=env)
            res["tests"] = out.strip().split("\n")[-1]
            res["tests_pass"] = rc == 0
        if a.demo:
            rc1, o1 = sh(["/venv/bin/python", os.path.abspath(a.demo), repo], env=env, timeout=900)
            rc0, o0 = sh(["/venv/bin/python", os.path.abspath(a.demo), "/repo"], env=env, timeout=900)
            res["demo_changed_exit"] = rc1
            res["demo_unchanged_exit"] = rc0
            res["demo_changed_out"] = o1[-300:]
        checks = ALL if a.all else [c for c in a.checks.split(",") if c]
        env2 = dict(env, VERIF_REPO=repo, VERIF_EVIDENCE_DIR=os.path.join(scratch, "ev"),
                    VERIF_REPLAY_DIR=os.path.join(scratch, "rp"), VERIF_NPROC=str(a.nproc))
        res["checks"] = {}
        for c in checks:
            if not os.path.exists(os.path.join(VERIF, "checks", c.lower() + ".py")):
                continue
            t = time.time()
            try:
                rc, out = sh(["/venv/bin/python", os.path.join(VERIF, "check.py"), c, "--tier", a.tier], env=env2, timeout=2400)
            except subprocess.TimeoutExpired:
                rc, out = -9, "timeout"
            sigs = [l.strip()[:200] for l in out.split("\n") if l.strip().startswith("signature=")]
            res["checks"][c] = {"exit": rc, "violation": "VIOLATION" in out, "wall": round(time.time() - t, 1),
                                "signatures": sigs[:6], "tail": "" if (rc == 0 or "VIOLATION" in out) else out[-600:]}
        res["detected_by"] = [c for c, v in res["checks"].items() if v["exit"] == 1 and v["violation"]]
    finally:
        shutil.rmtree(scratch, ignore_errors=True)
    print(json.dumps(res, indent=1))
    return 0


if __name__ == "__main__":
    sys.exit(main())

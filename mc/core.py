"""Core of the bounded-exhaustive checking framework.

Everything here is deterministic: no sampling decides a verdict.  `VERIF_SEED`
only rotates which explored cases are shown as `samples` in the evidence.
"""
from __future__ import annotations

import hashlib
import json
import multiprocessing as mp
import os
import re
import sys
import time
import traceback

VERIF = os.path.dirname(os.path.dirname(os.path.abspath(__file__)))
REPO = os.environ.get("VERIF_REPO", "/repo")
NPROC = int(os.environ.get("VERIF_NPROC", "16"))
# evidence/replays can be redirected when a check is pointed at a scratch copy
# (seeded-change demonstrations) so that /verif/evidence keeps describing /repo
EVIDENCE_DIR = os.environ.get("VERIF_EVIDENCE_DIR") or os.path.join(VERIF, "evidence")
REPLAY_DIR = os.environ.get("VERIF_REPLAY_DIR") or os.path.join(VERIF, "replays")
SEED = int(os.environ.get("VERIF_SEED", "0") or 0)


# ---------------------------------------------------------------------------
# bootstrap: make sure we import pycparser from the tree under test
# ---------------------------------------------------------------------------
def bootstrap() -> None:
    """Re-exec once with a fixed hash seed; put the tree under test first on
    sys.path and verify that this is what gets imported."""
    if os.environ.get("PYTHONHASHSEED") != "0" or os.environ.get(
        "PYTHONDONTWRITEBYTECODE"
    ) != "1":
        env = dict(os.environ)
        env["PYTHONHASHSEED"] = "0"
        env["PYTHONDONTWRITEBYTECODE"] = "1"
        os.execve(sys.executable, [sys.executable] + sys.argv, env)
    if VERIF not in sys.path:
        sys.path.insert(0, VERIF)
    sys.path.insert(0, REPO)
    import pycparser  # noqa

    got = os.path.realpath(os.path.dirname(pycparser.__file__))
    want = os.path.realpath(os.path.join(REPO, "pycparser"))
    if got != want:
        raise SystemExit(f"imported pycparser from {got}, expected {want}")
    sys.setrecursionlimit(3000)


# ---------------------------------------------------------------------------
# canonical AST forms (walk __slots__, never children()/attr_names)
# ---------------------------------------------------------------------------
def canon(x):
    """Structural canonical form, coordinates dropped."""
    from pycparser import c_ast

    if isinstance(x, c_ast.Node):
        return (
            x.__class__.__name__,
            tuple(
                (s, canon(getattr(x, s)))
                for s in x.__slots__
                if s not in ("coord", "__weakref__")
            ),
        )
    if isinstance(x, (list, tuple)):
        return tuple(canon(e) for e in x)
    if x is None or isinstance(x, (str, int, float, bool, bytes)):
        return x
    # a slot value of a type the specification does not provide for (a set, a
    # dict view, ...): keep it distinguishable from every legal value and hashable
    return ("!foreign-slot-value", type(x).__name__, repr(x))


def canon_coord(x):
    """Structural canonical form including (file, line, column)."""
    from pycparser import c_ast

    if isinstance(x, c_ast.Node):
        c = x.coord
        cc = None if c is None else (c.file, c.line, c.column)
        return (
            x.__class__.__name__,
            cc,
            tuple(
                (s, canon_coord(getattr(x, s)))
                for s in x.__slots__
                if s not in ("coord", "__weakref__")
            ),
        )
    if isinstance(x, (list, tuple)):
        return tuple(canon_coord(e) for e in x)
    if x is None or isinstance(x, (str, int, float, bool, bytes)):
        return x
    # a slot value of a type the specification does not provide for (a set, a
    # dict view, ...): keep it distinguishable from every legal value and hashable
    return ("!foreign-slot-value", type(x).__name__, repr(x))


def first_diff(a, b, path=()):
    """Path to the first difference between two canon() values."""
    if a == b:
        return None
    if (
        isinstance(a, tuple)
        and isinstance(b, tuple)
        and len(a) == 2
        and len(b) == 2
        and isinstance(a[0], str)
        and isinstance(b[0], str)
        and isinstance(a[1], tuple)
        and isinstance(b[1], tuple)
        and a[0][:1].isupper()
        and b[0][:1].isupper()
    ):
        if a[0] != b[0]:
            return path + (f"class:{a[0]}!={b[0]}",)
        for (sa, va), (sb, vb) in zip(a[1], b[1]):
            if va != vb:
                return first_diff(va, vb, path + (f"{a[0]}.{sa}",))
        return path + ("slots",)
    if isinstance(a, tuple) and isinstance(b, tuple):
        if len(a) != len(b):
            return path + (f"len:{len(a)}!={len(b)}",)
        for i, (va, vb) in enumerate(zip(a, b)):
            if va != vb:
                return first_diff(va, vb, path + (f"[{i}]",))
    return path + (f"value:{a!r}!={b!r}"[:80],)


def diff_sig(a, b):
    """Short signature of an AST mismatch: last Class.field steps + kind."""
    d = first_diff(a, b)
    if d is None:
        return "equal"
    steps = [s for s in d if "." in s and not s.startswith(("value:", "class:", "len:"))]
    kind = d[-1].split(":")[0] if ":" in d[-1] else "diff"
    if kind == "class":
        kind = d[-1]  # which class became which: part of the root cause
    return "/".join(steps[-3:]) + ":" + kind


# ---------------------------------------------------------------------------
# running the parser and classifying the outcome
# ---------------------------------------------------------------------------
_LOC_RE_CACHE = {}


def exc_site(exc) -> str:
    """ExcType@module.function of the innermost pycparser frame."""
    tb = exc.__traceback__
    site = "?"
    while tb is not None:
        fn = tb.tb_frame.f_code.co_filename
        if os.sep + "pycparser" + os.sep in fn:
            mod = os.path.splitext(os.path.basename(fn))[0]
            site = f"{mod}.{tb.tb_frame.f_code.co_name}"
        tb = tb.tb_next
    return f"{type(exc).__name__}@{site}"


def parse_outcome(text, filename="", parser=None):
    """('ok', ast) | ('perr', msg) | ('rec',) | ('exc', site, repr)."""
    from pycparser.c_parser import CParser, ParseError

    p = parser or CParser()
    try:
        return ("ok", p.parse(text, filename))
    except ParseError as e:
        if type(e) is ParseError:
            return ("perr", str(e))
        return ("exc", exc_site(e), repr(e)[:200])
    except RecursionError:
        return ("rec",)
    except Exception as e:  # noqa
        return ("exc", exc_site(e), repr(e)[:200])


def perr_has_location(msg: str, filename: str) -> bool:
    key = filename
    r = _LOC_RE_CACHE.get(key)
    if r is None:
        r = re.compile("^" + re.escape(filename) + r"(:\d+(:\d+)?)?: ")
        _LOC_RE_CACHE[key] = r
    return r.match(msg) is not None


def generate(ast, reduce_parentheses=False):
    from pycparser.c_generator import CGenerator

    return CGenerator(reduce_parentheses=reduce_parentheses).visit(ast)


# ---------------------------------------------------------------------------
# deterministic parallel map
# ---------------------------------------------------------------------------
_POOL = None


def _init_worker():
    import signal

    signal.signal(signal.SIGINT, signal.SIG_IGN)
    sys.setrecursionlimit(3000)


def pool():
    global _POOL
    if _POOL is None:
        ctx = mp.get_context("fork")
        _POOL = ctx.Pool(NPROC, initializer=_init_worker)
    return _POOL


def close_pool():
    global _POOL
    if _POOL is not None:
        _POOL.close()
        _POOL.join()
        _POOL = None


def pmap(fn, tasks, chunksize=None):
    """Ordered parallel map (results in task order => deterministic merge)."""
    tasks = list(tasks)
    if not tasks:
        return []
    if NPROC <= 1 or len(tasks) == 1:
        return [fn(t) for t in tasks]
    if chunksize is None:
        chunksize = max(1, len(tasks) // (NPROC * 8))
    return pool().map(fn, tasks, chunksize)


def chunked(seq, n):
    seq = list(seq)
    return [seq[i : i + n] for i in range(0, len(seq), n)]


# ---------------------------------------------------------------------------
# known findings, violations, evidence
# ---------------------------------------------------------------------------
def load_known():
    p = os.path.join(VERIF, "known_findings.json")
    if not os.path.exists(p):
        return []
    with open(p) as f:
        return json.load(f)["findings"]


def known_examples(pid=None):
    """Example inputs of all recorded findings (fixed ones are regression
    anchors: they stay in the explored set explicitly)."""
    return [k["example"] for k in load_known() if k.get("example") and (pid is None or k["property"] == pid)]


class Run:
    """Collects what one check run explored and decided."""

    def __init__(self, pid: str, tier: str, level: str):
        self.pid = pid
        self.tier = tier
        self.level = level
        self.t0 = time.time()
        self.viol = {}  # sig -> (case, detail, count)
        self.known_hits = {}  # finding index -> count
        self.cov = {}
        self.assumptions = []
        self.notes = []
        self._known = [k for k in load_known() if k["property"] == pid]

    # -- counters -----------------------------------------------------------
    def add(self, key, n=1):
        self.cov[key] = self.cov.get(key, 0) + n

    def set(self, key, v):
        self.cov[key] = v

    # -- failures -----------------------------------------------------------
    def fail(self, sig: str, case, detail=""):
        """Record one failing case under a signature (first = smallest kept)."""
        for i, k in enumerate(self._known):
            if k.get("status") == "open" and sig in k["signatures"]:
                # an entry may be narrowed to the input families it was seen on:
                # the same signature on another family is a different violation
                if "families" in k and not (isinstance(case, dict) and case.get("family") in k["families"]):
                    continue
                self.known_hits[i] = self.known_hits.get(i, 0) + 1
                return
        if sig in self.viol:
            c, d, n = self.viol[sig]
            self.viol[sig] = (c, d, n + 1)
        else:
            self.viol[sig] = (case, detail, 1)

    def fail_many(self, items):
        for sig, case, detail in items:
            self.fail(sig, case, detail)

    # -- finishing ----------------------------------------------------------
    def finish(self, samples, rule: str, exhaustive=True) -> int:
        close_pool()
        wall = time.time() - self.t0
        cov = dict(self.cov)
        cov.setdefault("evaluations", 0)
        cov.setdefault("distinct_nontrivial", 0)
        cov["rule"] = rule
        samples = list(samples)
        if samples:
            k = SEED % len(samples)
            samples = samples[k:] + samples[:k]
        cov["samples"] = samples[:12]
        cov["exhaustive"] = bool(exhaustive)
        if self.known_hits:
            cov["known_finding_hits"] = {
                self._known[i]["signatures"][0]: n for i, n in self.known_hits.items()
            }
        if self.notes:
            cov["notes"] = self.notes
        ev = {
            "property_id": self.pid,
            "tier": self.tier,
            "seed": SEED,
            "level": self.level,
            "coverage": cov,
            "assumptions": self.assumptions,
            "wall_s": round(wall, 2),
            "violations": len(self.viol),
        }
        os.makedirs(EVIDENCE_DIR, exist_ok=True)
        evp = os.path.join(EVIDENCE_DIR, f"{self.pid}.json")
        with open(evp + ".tmp", "w") as f:
            json.dump(ev, f, indent=1, sort_keys=True, default=str)
        os.replace(evp + ".tmp", evp)

        for i in sorted(self.known_hits):
            k = self._known[i]
            print(f"KNOWN-FINDING: property={self.pid} {k['what']} [{k['signatures'][0]}] x{self.known_hits[i]}")
        rc = 0
        for sig in sorted(self.viol):
            case, detail, n = self.viol[sig]
            d = os.path.join(REPLAY_DIR, self.pid)
            os.makedirs(d, exist_ok=True)
            h = hashlib.sha1(sig.encode()).hexdigest()[:10]
            path = os.path.join(d, f"{h}.json")
            with open(path, "w") as f:
                json.dump(
                    {
                        "property": self.pid,
                        "signature": sig,
                        "case": case,
                        "detail": detail,
                        "occurrences": n,
                        "tier": self.tier,
                    },
                    f,
                    indent=1,
                    default=str,
                )
            print(f"  signature={sig} occurrences={n} detail={str(detail)[:300]}")
            print(f"VIOLATION property={self.pid} replay={path}")
            rc = 1
        st = "FAIL" if rc else "ok"
        print(
            f"[{self.pid} {self.tier}] {st} evaluations={cov.get('evaluations')} "
            f"distinct_nontrivial={cov.get('distinct_nontrivial')} "
            f"states={cov.get('states')} transitions={cov.get('transitions')} "
            f"traces={cov.get('traces_validated_against_impl')} "
            f"exhaustive={cov['exhaustive']} wall={wall:.1f}s"
        )
        return rc


def pick_samples(seq, n=12):
    """Deterministic spread of n items over a list."""
    seq = list(seq)
    if len(seq) <= n:
        return seq
    step = len(seq) / n
    return [seq[int(i * step)] for i in range(n)]


# ---------------------------------------------------------------------------
# helpers for signatures of rejected (re-)parses
# ---------------------------------------------------------------------------
_KEYWORDS = None


def tok_class(spelling: str) -> str:
    """Class of a token spelling for signatures: punctuators and keywords are
    themselves, everything else is ID / CONST / STR."""
    global _KEYWORDS
    if _KEYWORDS is None:
        from models import vocab

        _KEYWORDS = set(vocab.KEYWORDS) | set(vocab.PUNCT)
    s = spelling.strip()
    if s in _KEYWORDS:
        return s
    if not s:
        return "EOF"
    if s[0] in "\"" or s.endswith('"'):
        return "STR"
    if s[0].isdigit() or s[0] in "'." or s.endswith("'"):
        return "CONST"
    if s[0].isalpha() or s[0] in "_$":
        return "ID"
    return s[:3]


def reject_sig(text, filename=""):
    """'reject@<innermost _parse_* frame>:<class of offending token>' for a
    text the parser rejects (None if it is accepted)."""
    from pycparser.c_parser import CParser, ParseError

    try:
        CParser().parse(text, filename)
        return None
    except ParseError as e:
        tb = e.__traceback__
        site = "?"
        while tb is not None:
            nm = tb.tb_frame.f_code.co_name
            if nm.startswith("_parse_") and nm != "_parse_error":
                site = nm
            tb = tb.tb_next
        msg = str(e)
        m = re.search(r": before: (.*)$", msg, re.S)
        if m:
            what = tok_class(m.group(1))
        else:
            what = re.sub(r"^[^ ]*: ", "", msg)[:40]
        return f"reject@{site}:{what}"
    except RecursionError:
        return "reject@RecursionError"
    except Exception as e:  # noqa
        return "reject@" + exc_site(e)


# ---------------------------------------------------------------------------
# attribution of failures on model-generated items to minimal feature sets
# ---------------------------------------------------------------------------
def shape_features(sig: str):
    """Constructor names and parent>child edges of a shape string such as
    'fordecl(block(goto;break))' or 'bin11(_,pre-(_))'."""
    feats = set()
    stack = []
    name = ""
    for ch in sig + "\0":
        if ch in "(),;\0":
            nm = name.strip()
            if nm and nm != "_":
                feats.add(nm)
                if stack and stack[-1]:
                    feats.add(stack[-1] + ">" + nm)
            if ch == "(":
                stack.append(nm)
            elif ch == ")":
                if stack:
                    stack.pop()
            name = ""
        else:
            name += ch
    return feats


def attribute_failures(all_sigs, failing):
    """all_sigs: list of shape strings of every enumerated item; failing: set of
    indices that failed.  Returns {index: minimal feature set (string)} where a
    feature set S qualifies if *every* enumerated item containing S failed
    (exhaustive over the enumerated set); singletons are tried before pairs."""
    import itertools as _it

    feats = [shape_features(s) for s in all_sigs]
    total1, fail1 = {}, {}
    for i, fs in enumerate(feats):
        for f in fs:
            total1[f] = total1.get(f, 0) + 1
            if i in failing:
                fail1[f] = fail1.get(f, 0) + 1
    out = {}
    need_pairs = []
    for i in sorted(failing):
        c = sorted(f for f in feats[i] if fail1.get(f, 0) == total1[f])
        if c:
            # prefer plain constructor names over edges, then shortest
            c.sort(key=lambda f: (">" in f, len(f), f))
            out[i] = c[0]
        else:
            need_pairs.append(i)
    if need_pairs:
        total2, fail2 = {}, {}
        cand = set()
        for i in need_pairs:
            for p in _it.combinations(sorted(feats[i]), 2):
                cand.add(p)
        for i, fs in enumerate(feats):
            fl = sorted(fs)
            for p in _it.combinations(fl, 2):
                if p in cand:
                    total2[p] = total2.get(p, 0) + 1
                    if i in failing:
                        fail2[p] = fail2.get(p, 0) + 1
        for i in need_pairs:
            c = [p for p in _it.combinations(sorted(feats[i]), 2) if fail2.get(p, 0) == total2.get(p, -1)]
            if c:
                c.sort(key=lambda p: (sum(">" in f for f in p), len(p[0]) + len(p[1]), p))
                out[i] = "+".join(c[0])
            else:
                out[i] = all_sigs[i]
    return out

"""C04 - an identifier is a type name exactly where C scoping makes it one.

History explorer (DESIGN 3.H / 4.7 / 5 C04): BFS/DFS over every valid history
of <= L declaration / brace events over two names, nesting depth <= 2, on the
reference scope stack of models/scope_model.py; every history (= every prefix:
"after every declaration and after every scope exit") is replayed on the real
parser followed by every probe for every name, and the probe's AST must be the
one the reference classification (typedef name / ordinary identifier) implies.
"""
from __future__ import annotations

from mc import core
from models import scope_model as S
from models import declist_model as DL

PID = "C04"
PREFIX_LEN = 2          # histories up to this length are the parallel tasks


# ---------------------------------------------------------------------------
# running one program and finding the probe node
# ---------------------------------------------------------------------------
def _probe_node(ast, depth):
    n = ast.ext[-1]
    for _ in range(depth):
        n = n.body if n.__class__.__name__ == "FuncDef" else n
        if n.__class__.__name__ != "Compound" or not n.block_items:
            return None
        n = n.block_items[-1]
    return n


def _cls(c):
    """Short classification of a canon form (for histograms / messages)."""
    if not isinstance(c, tuple) or len(c) != 2:
        return repr(c)[:30]
    name, slots = c
    d = dict(slots)
    if name == "UnaryOp":
        return "UnaryOp(%s)" % (d["expr"][0] if isinstance(d["expr"], tuple) else d["expr"])
    if name == "Decl":
        if d.get("init") is not None:
            i = d["init"]
            if i[0] == "InitList":
                i = dict(i[1])["exprs"][0]
            return "Decl=" + _cls(i)
        t = d["type"]
        if t[0] == "ArrayDecl" and dict(t[1])["dim"] is not None:
            return "Decl[" + _cls(dict(t[1])["dim"]) + "]"
        return "Decl"
    return name


def run_probe(text, depth, want, parser):
    """None if fine, else (kind, detail): kind 'reject' | 'exc' | 'mismatch'."""
    out = core.parse_outcome(text, parser=parser)
    if out[0] == "perr":
        return ("reject", out[1])
    if out[0] != "ok":
        return ("exc", out[1] if len(out) > 1 else out[0])
    node = _probe_node(out[1], depth)
    got = core.canon(node)
    if got != want:
        return ("mismatch", "expected %s got %s" % (_cls(want), _cls(got)))
    return None


# ---------------------------------------------------------------------------
# worker: DFS below one prefix
# ---------------------------------------------------------------------------
class _Acc:
    def __init__(self):
        self.fails = []
        self.nfail = 0
        self.c = {}
        self.states = set()
        self.full_states = set()
        self.hist = {}
        self.samples = []

    def add(self, k, n=1):
        self.c[k] = self.c.get(k, 0) + n

    def fail(self, sig, case, detail):
        self.nfail += 1
        # keep the first (smallest) few per signature
        if sum(1 for f in self.fails if f[0] == sig) < 2:
            self.fails.append((sig, case, detail))
        self.add("fail:" + sig)


def _reject_sig(ev, st_before):
    k, n = ev
    if k != "td" and n is not None and S.is_typedef(st_before, n):
        return {"enum": "enumerator", "init_enum": "enumerator", "member_enum": "enumerator"}.get(k, k) + "-named-like-typedef"
    return "reject-after:" + k


def _probes_fail(hist, st, name, parser):
    td = S.is_typedef(st, name)
    d = S.depth(st)
    for pid, where, tmpl, if_td, if_ord in S.probes_for(st):
        if run_probe(S.program(hist, st, tmpl % name), d, (if_td if td else if_ord)(name), parser) is not None:
            return True
    return False


def _culprit(hist, name, parser):
    """The event that starts the current streak of failing probes of `name`:
    walk back while the shorter history still fails."""
    i = len(hist)
    while i > 0:
        prefix = hist[: i - 1]
        if not _probes_fail(prefix, S.run(prefix), name, parser):
            break
        i -= 1
    return hist[i - 1] if i > 0 else ("none", None)


def _check_history(hist, st, parent_st, bad, diverged, acc, parser, probes_on, subchecks):
    """Replay one history.  Returns (bad, diverged) to hand down to extensions."""
    acc.add("histories")
    acc.states.add(tuple((k, o) for k, o, t in st[0]))
    acc.full_states.add(st)
    d = S.depth(st)
    base = S.program(hist, st, "")
    if bad is None:
        out = core.parse_outcome(base, parser=parser)
        acc.add("programs")
        if out[0] != "ok":
            bad = _reject_sig(hist[-1], parent_st) if hist else "reject-empty"
            acc.fail(bad, {"text": base, "history": [list(e) for e in hist], "kind": "history"},
                     "valid history rejected: %s" % (out[1],))
            return bad, diverged
    else:
        # an earlier event of this history is already rejected by the parser:
        # same root cause, nothing new to learn from the probes
        acc.add("histories_behind_rejected_prefix")
        acc.fail(bad, {"text": base, "history": [list(e) for e in hist], "kind": "history"}, "extension of a rejected history")
        return bad, diverged
    if not probes_on:
        return bad, diverged
    acc.add("histories_probed")
    declared = {ev[1] for ev in hist if ev[1] is not None and ev[0] not in ("tag", "member", "label", "proto")}
    for name in S.NAMES:
        td = S.is_typedef(st, name)
        failed_here = False
        for pid, where, tmpl, if_td, if_ord in S.probes_for(st):
            text = S.program(hist, st, tmpl % name)
            want = (if_td if td else if_ord)(name)
            r = run_probe(text, d, want, parser)
            acc.add("programs")
            acc.add("probes")
            acc.add("expect_typedef" if td else "expect_ordinary")
            if name in declared:
                acc.add("probes_of_declared_name")
            k = "%s:%s" % (pid, _cls(want))
            acc.hist[k] = acc.hist.get(k, 0) + 1
            if r is not None:
                failed_here = True
                sig = diverged.get(name)
                if sig is None:
                    ev = _culprit(hist, name, parser)
                    rel = "(other-name)" if ev[1] not in (None, name) else ""
                    what = "misclassified" if r[0] == "mismatch" else "probe-" + r[0]
                    evname = {"init_enum": "enumerator-inside-braces", "member_enum": "enumerator-inside-braces"}.get(ev[0], ev[0])
                    sig = "%s-after:%s%s:expected-%s" % (what, evname, rel, "typedef" if td else "ordinary")
                    diverged = dict(diverged)
                    diverged[name] = sig
                acc.fail(sig, {"text": text, "depth": d, "probe": pid, "name": name, "typedef": td,
                               "history": [list(e) for e in hist], "kind": "probe"}, r[1])
        if not failed_here and name in diverged:
            diverged = dict(diverged)
            del diverged[name]
    if len(acc.samples) < 2 and len(hist) >= 2:
        acc.samples.append(S.program(hist, st, S.PROBES[0][2] % "A" if S.in_function(st) else S.PROBES[4][2] % "A"))

    if subchecks:
        _subchecks(hist, st, acc, parser)
    return bad, diverged


def _subchecks(hist, st, acc, parser):
    d = S.depth(st)
    for name in S.NAMES:
        td = S.is_typedef(st, name)
        # (S1) a label spelled like a visible typedef name: own name space,
        # must parse and must not change what the name means
        if td and S.in_function(st):
            ev = ("label", name)
            st2 = S.apply(st, ev, typedef_labels=True)
            if st2 is not None:
                h2 = hist + (ev,)
                acc.add("sub_label_histories")
                base = S.program(h2, st2, "")
                out = core.parse_outcome(base, parser=parser)
                acc.add("programs")
                if out[0] != "ok":
                    acc.fail("label-named-like-typedef", {"text": base, "history": [list(e) for e in h2], "kind": "history"},
                             "label spelled like a typedef name rejected: %s" % (out[1],))
                else:
                    for pid, where, tmpl, if_td, if_ord in S.probes_for(st2):
                        text = S.program(h2, st2, tmpl % name)
                        r = run_probe(text, d, if_td(name), parser)
                        acc.add("programs")
                        acc.add("sub_label_probes")
                        if r is not None:
                            acc.fail("label-named-like-typedef:" + r[0],
                                     {"text": text, "depth": d, "probe": pid, "name": name, "typedef": True,
                                      "history": [list(e) for e in h2], "kind": "probe"}, r[1])
                # the same label in every sub-statement position (a labeled
                # statement is a statement like any other)
                for pid, tmpl, want in _label_substatement_forms(name):
                    text = S.program(hist, st, tmpl)
                    r = run_probe(text, d, want, parser)
                    acc.add("programs")
                    acc.add("sub_label_substatement_probes")
                    if r is not None:
                        acc.fail("label-named-like-typedef:substatement:" + r[0],
                                 {"text": text, "depth": d, "probe": pid, "name": name, "typedef": True,
                                  "history": [list(e) for e in hist], "kind": "label-sub"}, r[1])
        # (S4) a block nested inside braces that are not a scope (initializer
        # list, struct body): what it declares ends with it, the name is a type
        # again for the rest of those braces
        if td and S.in_function(st):
            _nested_block_in_braces_check(hist, st, name, d, acc, parser)
        # (S3) enumerators: visible after their own enumerator, not inside it
        if td and S.apply(st, ("enum", name)) is not None:
            _enum_self_check(hist, st, name, d, acc, parser)
        # (S2) the declared name is visible from the end of its declarator
        if td and S.apply(st, ("obj", name)) is not None:
            for pid, tmpl, want in S.OWN_INIT_PROBES:
                text = S.program(hist, st, tmpl % (name, name))
                r = run_probe(text, d, want(name), parser)
                acc.add("programs")
                acc.add("sub_owninit_probes")
                if r is not None:
                    acc.fail("declared-name-not-visible-before-declaration-ends" if r[0] == "mismatch" else "own-initializer:" + r[0],
                             {"text": text, "depth": d, "probe": pid, "name": name, "typedef": False,
                              "history": [list(e) for e in hist], "kind": "own-init"}, r[1])


def _label_substatement_forms(name):
    """(id, statement text, expected canon) for the label `name : ;` as the body
    of if / else / while / do / for, after a case prefix and after a label."""
    from models.stmt_model import N as _N, INT, EMPTY

    lab = _N("Label", name, EMPTY)
    l = "%s : ;" % name
    return (
        ("label-in-if", "if ( 1 ) " + l, _N("If", INT(1), lab, None)),
        ("label-in-else", "if ( 1 ) ; else " + l, _N("If", INT(1), EMPTY, lab)),
        ("label-in-while", "while ( 0 ) " + l, _N("While", INT(0), lab)),
        ("label-in-do", "do " + l + " while ( 0 ) ;", _N("DoWhile", INT(0), lab)),
        ("label-in-for", "for ( ; ; ) " + l, _N("For", None, None, None, lab)),
        ("label-after-case", "switch ( 1 ) { case 1 : " + l + " }",
         _N("Switch", INT(1), _N("Compound", (_N("Case", INT(1), (lab,)),)))),
        ("label-after-label", "lab9 : " + l, _N("Label", "lab9", lab)),
    )


def _nested_block_in_braces_check(hist, st, name, d, acc, parser):
    from models.stmt_model import N as _N

    tn = _N("Typename", None, (), None, _N("TypeDecl", None, (), None, _N("IdentifierType", (name,))))
    forms = (
        ("init", "int z9 [ ] = { ( { int %s ; 1 ; } ) , sizeof ( %s ) } ;" % (name, name),
         lambda node: core.canon(node.init.exprs[1]), _N("UnaryOp", "sizeof", tn)),
        ("struct", "struct Q9 { int m [ ( { int %s ; 2 ; } ) ] ; %s * p ; } ;" % (name, name),
         lambda node: core.canon(node.type.decls[1].type.type.type), _N("IdentifierType", (name,))),
        ("enum", "enum { K9 = ( { int %s ; 3 ; } ) , L9 = sizeof ( %s ) } ;" % (name, name),
         lambda node: core.canon(node.type.values.enumerators[1].value), _N("UnaryOp", "sizeof", tn)),
    )
    for pid, probe, pick, want in forms:
        text = S.program(hist, st, probe)
        acc.add("programs")
        acc.add("sub_nested_block_probes")
        out = core.parse_outcome(text, parser=parser)
        case = {"text": text, "depth": d, "probe": "nested-block-in-" + pid, "name": name, "typedef": True,
                "history": [list(e) for e in hist], "kind": "nested-block"}
        if out[0] != "ok":
            acc.fail("block-inside-non-scope-braces:" + ("reject" if out[0] == "perr" else "exc"), case, str(out[1:])[:150])
            continue
        try:
            got = pick(_probe_node(out[1], d))
        except Exception as e:  # noqa
            acc.fail("block-inside-non-scope-braces:shape", case, repr(e)[:100])
            continue
        if got != want:
            acc.fail("block-inside-non-scope-braces:name-still-hidden-after-the-block", case,
                     "expected %s got %s" % (_cls(want), _cls(got)))


def _enum_self_check(hist, st, name, d, acc, parser):
    """(S3) the scope of an enumerator begins just after its own enumerator
    (C99 6.2.1p7): inside its value the name still means the outer typedef,
    in the NEXT enumerator's value it is the enumeration constant."""
    from models.stmt_model import N as _N, ID as _ID

    tn = _N("Typename", None, (), None, _N("TypeDecl", None, (), None, _N("IdentifierType", (name,))))
    forms = (
        ("sizeof", "sizeof ( %s )" % name, _N("UnaryOp", "sizeof", tn)),
        ("cast", "( %s ) 1" % name, _N("Cast", tn, _N("Constant", "int", "1"))),
    )
    for pid, val, want in forms:
        text = S.program(hist, st, "enum { %s = %s , z9 = sizeof ( %s ) } ;" % (name, val, name))
        acc.add("programs")
        acc.add("sub_enum_self_probes")
        out = core.parse_outcome(text, parser=parser)
        case = {"text": text, "depth": d, "probe": "enum-self-" + pid, "name": name, "typedef": True,
                "history": [list(e) for e in hist], "kind": "enum-self"}
        if out[0] != "ok":
            acc.fail("enumerator-own-value:" + ("reject" if out[0] == "perr" else "exc"), case, str(out[1:])[:150])
            continue
        node = _probe_node(out[1], d)
        try:
            enums = node.type.values.enumerators
            got1, got2 = core.canon(enums[0].value), core.canon(enums[1].value)
        except Exception as e:  # noqa
            acc.fail("enumerator-own-value:shape", case, repr(e)[:100])
            continue
        if got1 != want:
            acc.fail("enumerator-visible-inside-its-own-value", case, "expected %s got %s" % (_cls(want), _cls(got1)))
        if got2 != _N("UnaryOp", "sizeof", _ID(name)):
            acc.fail("enumerator-not-visible-in-next-enumerator", case, "got %s" % (_cls(got2),))


def _work(task):
    prefix, extend, L, alpha_kind, init_enum, min_len, subcheck_max = task
    from pycparser.c_parser import CParser

    # "<alphabet>@<k>": the same sweep with spelling variant k of the td/obj events
    alpha_kind, _, variant = alpha_kind.partition("@")
    S.SPELLING = int(variant or 0)

    parser = CParser()
    alpha = S.alphabet(alpha_kind, init_enum)
    acc = _Acc()
    # verdicts inherited from the proper prefixes (replayed into a throw-away
    # accumulator so that a failure keeps the signature of the event that
    # first caused it)
    st = S.INITIAL
    parent = None
    bad = None
    diverged = {}
    dummy = _Acc()
    for i, ev in enumerate(prefix):
        bad, diverged = _check_history(tuple(prefix[:i]), st, parent, bad, diverged, dummy, parser, True, False)
        parent = st
        st = S.apply(st, ev)

    def visit(hist, st, parent_st, bad, diverged):
        n = len(hist)
        bad2, div2 = _check_history(hist, st, parent_st, bad, diverged, acc, parser,
                                    probes_on=n >= min_len, subchecks=(n >= min_len and n <= subcheck_max))
        if n:
            acc.add("transitions")
        if extend and n < L:
            for ev in alpha:
                s2 = S.apply(st, ev)
                if s2 is not None:
                    visit(hist + (ev,), s2, st, bad2, div2)

    visit(tuple(prefix), st, parent, bad, diverged)
    return acc.fails, acc.nfail, acc.c, (acc.states, acc.full_states), acc.hist, acc.samples


def _tasks(L, alpha_kind, init_enum, min_len, subcheck_max):
    alpha = S.alphabet(alpha_kind.partition("@")[0], init_enum)
    P = min(PREFIX_LEN, L)
    frontier = [((), S.INITIAL)]
    tasks = [((), P == 0, L, alpha_kind, init_enum, min_len, subcheck_max)]
    for l in range(1, P + 1):
        nf = []
        for h, st in frontier:
            for ev in alpha:
                s2 = S.apply(st, ev)
                if s2 is not None:
                    nf.append((h + (ev,), s2))
        for h, _ in nf:
            tasks.append((h, l == P, L, alpha_kind, init_enum, min_len, subcheck_max))
        frontier = nf
    return tasks


# ---------------------------------------------------------------------------
# audit of the reference model against gcc: the histories are valid C
# ---------------------------------------------------------------------------
def _gcc_audit(texts):
    import subprocess

    bad = []
    for t in texts:
        p = subprocess.run(["gcc", "-std=c11", "-fsyntax-only", "-w", "-x", "c", "-"],
                           input=t.encode(), capture_output=True)
        if p.returncode != 0:
            bad.append((t, p.stderr.decode(errors="replace")[:300]))
    return len(texts), bad


def _audit_programs(L, alpha_kind, init_enum):
    alpha = S.alphabet(alpha_kind, init_enum)
    out = []
    frontier = [((), S.INITIAL)]
    for _ in range(L):
        nf = []
        for h, st in frontier:
            for ev in alpha:
                s2 = S.apply(st, ev)
                if s2 is not None:
                    nf.append((h + (ev,), s2))
                    out.append(S.program(h + (ev,), s2, ""))
                # the sub-check's label spelled like a visible typedef name
                if ev[0] == "label" and s2 is None:
                    s3 = S.apply(st, ev, typedef_labels=True)
                    if s3 is not None:
                        out.append(S.program(h + (ev,), s3, ""))
        frontier = nf
    return out


# ---------------------------------------------------------------------------
# declarator-list family: visible from the end of its declarator, inside one
# declaration with 2-4 declarators (models/declist_model.py)
# ---------------------------------------------------------------------------
def check_declist(case, parser):
    """None if fine, else (kind, detail)."""
    out = core.parse_outcome(case["text"], parser=parser)
    want = case["want"]
    if want == "reject":
        if out[0] == "perr":
            return None
        if out[0] == "ok":
            return ("accepted", "T is an object at declarator %d, this text can only parse with T as a type" % case["j"])
        return ("exc", out[1] if len(out) > 1 else out[0])
    if out[0] == "perr":
        return ("reject", out[1])
    if out[0] != "ok":
        return ("exc", out[1] if len(out) > 1 else out[0])
    try:
        nodes = DL.locate(out[1], case)
    except (AttributeError, IndexError, TypeError):
        return ("mismatch", "declaration list not where the text puts it")
    if len(nodes) != case["n"]:
        return ("mismatch", "%d declarations for %d declarators" % (len(nodes), case["n"]))
    got = core.canon(nodes[case["j"] - 1])
    want = _tuplify(want)
    if got != want:
        return ("mismatch", "/".join(core.first_diff(got, want) or ()))
    return None


def _tuplify(x):
    if isinstance(x, list):
        return tuple(_tuplify(e) for e in x)
    if isinstance(x, tuple):
        return tuple(_tuplify(e) for e in x)
    return x


def _declist_sig(case):
    return "declarator-list:%s@%s:name-introduced-by-%s-declarator-not-in-scope-in-later-one" % (
        case["kind"], case["ctx"], "first" if case["i"] == 1 else "later")


def _declist_work(rng):
    from pycparser.c_parser import CParser

    parser = CParser()
    lo, hi = rng
    cases = DL.cases()[lo:hi]
    fails = []
    cnt = {}
    for case in cases:
        r = check_declist(case, parser)
        k = "%s:%s" % (case["kind"], "reject" if case["want"] == "reject" else "ast")
        cnt[k] = cnt.get(k, 0) + 1
        if r is not None:
            cj = {k2: v for k2, v in case.items() if k2 != "want"}
            cj["kind_of_case"] = "declist"
            fails.append((_declist_sig(case), cj, "%s: %s" % r))
    return len(cases), fails, cnt


def _declist_audit():
    """gcc accepts every typedef declarator list of the family that it can
    type-check (each in its own function body, one translation unit)."""
    import subprocess

    decls = sorted({c["decl"] for c in DL.cases() if c["gcc"]})
    tu = "".join("void a%d(void){ %s }\n" % (k, d) for k, d in enumerate(decls))
    p = subprocess.run(["gcc", "-std=c11", "-fsyntax-only", "-w", "-x", "c", "-"], input=tu.encode(), capture_output=True)
    return len(decls), p.returncode, p.stderr.decode(errors="replace")[:600]


# ---------------------------------------------------------------------------
def run(tier):
    R = core.Run(PID, tier, "model_checking")
    quick = tier == "quick"
    # (alphabet, L, enumerators inside initializer braces, replay histories of length >= min_len)
    # 'reduced' = without tag / member / prototype events; 'core' = only the
    # events that change the scope stack.  Shorter histories of a smaller
    # alphabet are already part of the larger alphabet's sweep.
    if quick:
        sweeps = [("full", 3, True, 0), ("reduced", 4, False, 4), ("core", 5, False, 5)]
    else:
        sweeps = [("full", 4, True, 0), ("reduced", 5, False, 5), ("core", 7, False, 6)]
    # spelling variants of the declaring events (struct/enum specifiers,
    # pointer/array/parenthesised declarators, initialisers, two declarators)
    for v in sorted(S.SPELLINGS)[1:]:
        sweeps.append((f"core@{v}", 4 if quick else 5, False, 0))
    sweeps.append(("kr", 4 if quick else 5, False, 0))
    sweeps.append(("abs", 4 if quick else 5, False, 0))
    sweeps.append(("stmt", 4 if quick else 5, False, 0))
    tasks = []
    for kind, L, ie, min_len in sweeps:
        # the sub-checks run after every replayed history (their extra label /
        # declaration is part of the probe, not an event of the history)
        tasks += _tasks(L, kind, ie, min_len, L)
    # smallest first so that the first failure per signature is minimal
    tasks.sort(key=lambda t: len(t[0]))
    states = set()
    full_states = set()
    tot = {}
    hist = {}
    samples = []
    allfails = []
    for fails, nfail, c, sts, h, smp in core.pmap(_work, tasks, chunksize=1):
        allfails += fails
        # occurrences beyond the recorded ones
        for k, v in c.items():
            tot[k] = tot.get(k, 0) + v
        for k, v in h.items():
            hist[k] = hist.get(k, 0) + v
        states |= sts[0]
        full_states |= sts[1]
        samples += smp
    # smallest history first, so that the recorded case per signature is minimal
    allfails.sort(key=lambda f: (len(f[1].get("history", ())), len(f[1].get("text", ""))))
    R.fail_many(allfails)
    # make occurrence counts honest (R.fail only saw <= 2 per task and signature)
    for sig in list(R.viol):
        case, detail, n = R.viol[sig]
        R.viol[sig] = (case, detail, tot.get("fail:" + sig, n))

    for i, k in enumerate(R._known):
        if k.get("status") == "open" and i in R.known_hits:
            R.known_hits[i] = sum(tot.get("fail:" + s, 0) for s in k["signatures"]) or R.known_hits[i]

    # declarator-list family (same in both tiers: the space is small)
    ncases = len(DL.cases())
    dl_n = 0
    dl_cnt = {}
    dl_fails = []
    for n, fl, cnt in core.pmap(_declist_work, [(lo, min(ncases, lo + 200)) for lo in range(0, ncases, 200)], chunksize=1):
        dl_n += n
        dl_fails += fl
        for k, v in cnt.items():
            dl_cnt[k] = dl_cnt.get(k, 0) + v
    # smallest first: fewest declarators, then earliest positions
    dl_fails.sort(key=lambda f: (f[1]["n"], f[1]["j"], f[1]["i"], len(f[1]["text"])))
    R.fail_many(dl_fails)
    nd, rc, err = _declist_audit()
    if rc != 0:
        R.fail("model-audit:gcc-rejects-declarator-list", {"text": err, "kind": "history"}, err)
    R.set("declarator_list_family", {"cases": dl_n, "by_kind_and_oracle": dl_cnt, "failures": len(dl_fails),
                                     "typedef_declarations_accepted_by_gcc": nd if rc == 0 else 0,
                                     "bounds": {"declarators": [2, 4], "introducing_position<=": 3, "contexts": list(DL.CONTEXTS),
                                                "kinds": list(DL.KINDS), "intro_shapes": list(DL.INTRO_SHAPES),
                                                "use_forms": [u[0] for u in DL.USE_FORMS], "specs": list(DL.SPECS)}})
    if dl_n < 3000 or len(dl_cnt) < 4:
        R.fail("vacuous:declarator-list-family", {"cases": dl_n}, "declarator-list family smaller than its bounds imply")

    # model audit: gcc accepts every history (no probes: they use undeclared x)
    audit = _audit_programs(2 if quick else 3, "full", True)
    n_aud = 0
    for n, bad in core.pmap(_gcc_audit, core.chunked(audit, 40), chunksize=1):
        n_aud += n
        for t, err in bad:
            R.fail("model-audit:gcc-rejects-history", {"text": t, "kind": "history"}, err)
    R.set("model_audit", {"histories_accepted_by_gcc": n_aud, "what": "every history of <= %d events (full alphabet, plus typedef-named labels) "
                          "compiled with gcc -std=c11 -fsyntax-only" % (2 if quick else 3)})

    probes = tot.get("probes", 0)
    R.set("states", len(states))
    R.set("model_states_incl_tags_labels_linkage", len(full_states))
    R.set("transitions", tot.get("transitions", 0))
    R.set("histories", tot.get("histories", 0))
    R.set("histories_replayed_with_probes", tot.get("histories_probed", 0))
    R.set("traces_validated_against_impl", tot.get("programs", 0) + dl_n)
    R.set("evaluations", probes + tot.get("sub_label_probes", 0) + tot.get("sub_owninit_probes", 0) + tot.get("histories", 0) + dl_n)
    R.set("distinct_nontrivial", tot.get("probes_of_declared_name", 0))
    R.set("probes", probes)
    R.set("expect_typedef", tot.get("expect_typedef", 0))
    R.set("expect_ordinary", tot.get("expect_ordinary", 0))
    R.set("expected_classification_histogram", hist)
    R.set("distinct_outcomes", len(hist))
    R.set("histories_behind_rejected_prefix", tot.get("histories_behind_rejected_prefix", 0))
    R.set("subcheck_label_named_like_typedef", {"histories": tot.get("sub_label_histories", 0), "probes": tot.get("sub_label_probes", 0)})
    R.set("subcheck_own_initializer_probes", tot.get("sub_owninit_probes", 0))
    R.set("subcheck_label_substatement_probes", tot.get("sub_label_substatement_probes", 0))
    R.set("failure_counts", {k[5:]: v for k, v in tot.items() if k.startswith("fail:")})
    R.set("bounds", {"names": list(S.NAMES), "max_depth": S.MAX_DEPTH,
                     "sweeps": [{"alphabet": k, "events": [e[0] for e in S.alphabet(k, ie) if e[1] in (None, "A")],
                                 "L": L, "replayed_lengths": [m, L]} for k, L, ie, m in sweeps]})
    R.assumptions += [
        "for-loop scopes are not in the event alphabet (not in the property's quantifier)",
        "histories C forbids (same-scope redeclaration as a different kind, duplicate tag/label/enumerator) are not generated",
        "a label spelled like a visible typedef name is explored by the separately signed sub-check label-named-like-typedef, not in the main sweep",
    ]
    # vacuity guards
    floor_h = 10000 if quick else 150000
    if tot.get("histories", 0) < floor_h or probes < 8 * floor_h // 2:
        R.fail("vacuous:too-few-histories", {"histories": tot.get("histories", 0)}, "explored set smaller than the bound implies")
    if min(tot.get("expect_typedef", 0), tot.get("expect_ordinary", 0)) < probes // 20 or len(hist) < 2 * len(S.PROBES):
        R.fail("vacuous:one-sided", {"hist": hist}, "expected classifications are not two-sided for every probe")
    if len(states) < (800 if quick else 2000):
        R.fail("vacuous:few-states", {"states": len(states)}, "reference model reached too few states")
    return R.finish(
        core.pick_samples(samples),
        "every valid history of <= L events over names A, B (nesting depth <= 2) of the reference scope "
        "stack, each replayed on a fresh parse as history + probe + closing braces, for every probe and both "
        "names. states = distinct reference scope-stack states reached; transitions = events applied; traces = "
        "programs parsed. non-trivial = probes of a name that some event of the history declared as an ordinary "
        "identifier (typedef/object/function/parameter/enumerator), i.e. the registration/lookup path was used",
    )


def replay(rep):
    from pycparser.c_parser import CParser

    c = rep["case"]
    print("input:", c["text"])
    if c.get("kind_of_case") == "declist":
        case = [x for x in DL.cases() if x["text"] == c["text"]][0]
        r = check_declist(case, CParser())
        print("reference: T is %s at declarator %d (introduced by declarator %d)" % (
            "an object" if case["kind"] == "obj-over-td" else "a type", case["j"], case["i"]))
        print("expected:", "ParseError" if case["want"] == "reject" else _cls(case["want"]))
        print("observed:", "as expected" if r is None else r)
        return 0 if r is None else 1
    if c.get("kind") == "history":
        out = core.parse_outcome(c["text"])
        print("expected: accepted (valid C history)")
        print("observed:", "accepted" if out[0] == "ok" else out[1:])
        return 0 if out[0] == "ok" else 1
    name, td, pid = c["name"], c["typedef"], c["probe"]
    want = None
    for p in S.PROBES:
        if p[0] == pid:
            want = (p[3] if td else p[4])(name)
    for p in S.OWN_INIT_PROBES:
        if p[0] == pid:
            want = p[2](name)
    for p in _label_substatement_forms(name):
        if p[0] == pid:
            want = p[2]
    r = run_probe(c["text"], c["depth"], want, CParser())
    print("reference: %s is %s here; expected probe AST %s" % (name, "a typedef name" if td else "an ordinary identifier", _cls(want)))
    print("observed:", "as expected" if r is None else r)
    return 0 if r is None else 1

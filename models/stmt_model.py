"""Statement reference model (DESIGN 3.B / 4.7) - used by C05, reusable by
C07/C08/C11/C17.

A model term is a nested tuple.  Two independent interpretations:

  render(tree, mode) -> C text of the *items of a function body*
  expect(tree, mode) -> tuple of core.canon() forms of the block items the
                        parser has to produce for that text

plus body_text()/body_expect() which put a tree into `void f(void){...}`.

Nothing here imports pycparser: the expected forms are written in the
class/field vocabulary of pycparser's _c_ast.cfg (transcribed in _CFG below).

Terms (after label(); shapes produced by trees() carry None in the name slots)

  ('expr', id)                     id ;
  ('empty',)                       ;
  ('compound', items)              { items }          items: block items
  ('if', id, then, els|None)
  ('while', id, body)   ('do', body, id)
  ('for', form, names, body)       form = (init, has_cond, has_next),
                                   init in 'none' | 'expr' | 'decl' | 'decl2'
  ('switch', id, body)
  ('case', k, stmt|None)  ('default', stmt|None)  ('label', name, stmt|None)
        stmt None = the label is directly followed by '}' (only legal as the
        last item of a compound; pycparser documents an EmptyStatement there)
  ('goto', name) ('break',) ('continue',) ('return', id|None)
  ('decl', name, init_id|None)     int name [= id] ;       block item only
  ('sassert', k)                   _Static_assert(k, "m"); block item only
  ('pragma', form, text)           form 'hash': #pragma text <newline>
                                   form 'op'  : _Pragma("text")   block item
  ('pp', pragmas, stmt)            pragma-prefixed *sub*statement (body of
                                   if/else/loop/switch/label/case/default)
"""
from __future__ import annotations

import itertools

# ---------------------------------------------------------------------------
# canonical forms, from _c_ast.cfg (attributes and children in cfg order)
# ---------------------------------------------------------------------------
_CFG = {
    "Break": [], "Case": ["expr", "stmts"], "Compound": ["block_items"],
    "Constant": ["type", "value"], "Continue": [],
    "Decl": ["name", "quals", "align", "storage", "funcspec", "type", "init", "bitsize"],
    "DeclList": ["decls"], "Default": ["stmts"], "DoWhile": ["cond", "stmt"],
    "EmptyStatement": [], "FileAST": ["ext"], "For": ["init", "cond", "next", "stmt"],
    "FuncDecl": ["args", "type"], "FuncDef": ["decl", "param_decls", "body"],
    "Goto": ["name"], "ID": ["name"], "IdentifierType": ["names"],
    "If": ["cond", "iftrue", "iffalse"], "Label": ["name", "stmt"],
    "ParamList": ["params"], "PtrDecl": ["quals", "type"], "Return": ["expr"],
    "StaticAssert": ["cond", "message"], "Struct": ["name", "decls"],
    "Switch": ["cond", "stmt"], "TypeDecl": ["declname", "quals", "align", "type"],
    "Typename": ["name", "quals", "align", "type"], "While": ["cond", "stmt"],
    "Pragma": ["string"],
    # expression / declarator classes needed by the scope probes (C04)
    "ArrayDecl": ["type", "dim", "dim_quals"], "BinaryOp": ["op", "left", "right"],
    "Cast": ["to_type", "expr"], "ExprList": ["exprs"], "FuncCall": ["name", "args"],
    "InitList": ["exprs"], "UnaryOp": ["op", "expr"],
    "Typedef": ["name", "quals", "storage", "type"],
}


def N(cls, *vals):
    f = _CFG[cls]
    assert len(f) == len(vals), cls
    return (cls, tuple(zip(f, vals)))


def ID(n):
    return N("ID", n)


def INT(k):
    return N("Constant", "int", str(k))


def STR(s):
    return N("Constant", "string", '"%s"' % s)


def INT_TYPE(name):
    return N("TypeDecl", name, (), None, N("IdentifierType", ("int",)))


def DECL(name, init=None, ptr=False):
    t = INT_TYPE(name)
    if ptr:
        t = N("PtrDecl", (), t)
    return N("Decl", name, (), (), (), (), t, init, None)


EMPTY = N("EmptyStatement")
SA_MSG = "m"


# Pragma forms.  'hash' / 'op' are the two plain ones; the styled variants put
# blanks where a verbatim copy could lose them.  For a #pragma line the Pragma
# string is the text from the first non-blank after `pragma` up to (not
# including) the newline, verbatim - '' if there is none; for _Pragma("...") it
# is the string literal, verbatim.
#   form -> (blanks written between `pragma` and the text, text template)
PRAGMA_STYLES = {
    "hash": (" ", "%s omp for"),
    "hash:trail": (" ", "%s omp for  "),           # trailing blanks
    "hash:tab": (" ", "%s unroll 4\t"),            # trailing tab
    "hash:trail-mixed": (" ", "%s x \t "),
    "hash:runs": (" ", "%s   omp \t  for"),        # internal runs of blanks
    "hash:lead": ("  \t ", "%s omp for"),          # leading blanks are skipped
    "hash:lead-tab": ("\t", "%s(2)"),
    "hash:lead-trail": ("   ", "%s once \t"),
    "hash:blank": ("  \t ", ""),                   # only blanks: empty string
    "hash:none": ("", ""),                         # bare #pragma
    "op": (None, "%s omp for"),
    "op:lead": (None, "  %s omp for"),
    "op:trail": (None, "%s omp for  "),
    "op:both": (None, " \t%s  omp for \t"),
}
PLAIN_FORMS = ("hash", "op")
EXTRA_FORMS = tuple(f for f in PRAGMA_STYLES if f not in PLAIN_FORMS)


def is_hash(form):
    return form.startswith("hash")


def PRAGMA(form, text):
    # '#pragma text' keeps the raw text; _Pragma("text") keeps the string literal
    return N("Pragma", text if is_hash(form) else STR(text))


# ---------------------------------------------------------------------------
# alphabets
# ---------------------------------------------------------------------------
FOR_FORMS_MAIN = (("none", 0, 0), ("expr", 1, 1), ("decl", 1, 1))
FOR_FORMS_ALL = FOR_FORMS_MAIN + (
    ("none", 1, 0), ("none", 0, 1), ("expr", 0, 0), ("decl", 0, 0), ("decl2", 1, 1),
)

FULL = {
    "leaves": ("expr", "empty", "goto", "break", "continue", "return", "return_e", "block0"),
    "decls": ("decl", "decl_init", "sassert"),
    "unary": ("if", "while", "do", "switch", "case", "default", "label"),
    "for": FOR_FORMS_MAIN,
    "binary": ("ifelse",),
    "compound": 2,          # max number of block items
    "tail_labels": ("case", "default", "label"),  # 'L: }' forms
}
# one loop kind, one jump kind, one declaration kind
REDUCED = {
    "leaves": ("expr", "break", "block0"),
    "decls": ("decl",),
    "unary": ("if", "while", "switch", "case", "default", "label"),
    "for": (),
    "binary": ("ifelse",),
    "compound": 2,
    "tail_labels": ("case",),
}


# reduced + the remaining loop kinds + static assertion + every brace-terminated
# label: the alphabet of the quick tier's pragma insertions at depth 2
MID = {
    "leaves": ("expr", "break", "block0"),
    "decls": ("decl", "sassert"),
    "unary": ("if", "while", "do", "switch", "case", "default", "label"),
    "for": (("decl", 1, 1),),
    "binary": ("ifelse",),
    "compound": 2,
    "tail_labels": ("case", "default", "label"),
}


def _leaf(kind):
    return {
        "expr": ("expr", None), "empty": ("empty",), "goto": ("goto", None),
        "break": ("break",), "continue": ("continue",), "return": ("return", 0),
        "return_e": ("return", 1), "block0": ("compound", ()),
        "decl": ("decl", None, 0), "decl_init": ("decl", None, 1), "sassert": ("sassert", None),
    }[kind]


def _unary(kind, s):
    if kind in ("if",):
        return ("if", None, s, None)
    if kind == "while":
        return ("while", None, s)
    if kind == "do":
        return ("do", s, None)
    if kind == "switch":
        return ("switch", None, s)
    if kind == "case":
        return ("case", None, s)
    if kind == "default":
        return ("default", s)
    if kind == "label":
        return ("label", None, s)
    raise KeyError(kind)


def _tail(kind):
    return {"case": ("case", None, None), "default": ("default", None),
            "label": ("label", None, None)}[kind]


def statements(depth, alpha=FULL):
    """List of all statement shapes of depth <= `depth`, smallest depth first.
    Depth 0 = leaves (incl. '{}'); a constructor adds 1 to its deepest child;
    declarations and brace-terminated labels are depth-0 block items."""
    out = []
    for lv in levels(depth, alpha):
        out.extend(lv)
    return out


def levels(depth, alpha=FULL):
    """levels[d] = statement shapes of depth exactly d."""
    leaves = [_leaf(k) for k in alpha["leaves"]]
    decls = [_leaf(k) for k in alpha["decls"]]
    tails = [_tail(k) for k in alpha["tail_labels"]]
    exact = [leaves]
    for d in range(1, depth + 1):
        prev = exact[d - 1]
        lower = [s for lv in exact[: d - 1] for s in lv]
        cur = []
        for k in alpha["unary"]:
            cur.extend(_unary(k, s) for s in prev)
        for form in alpha["for"]:
            cur.extend(("for", form, None, s) for s in prev)
        if "ifelse" in alpha["binary"]:
            for s1 in prev:
                for s2 in prev:
                    cur.append(("if", None, s1, s2))
                for s2 in lower:
                    cur.append(("if", None, s1, s2))
                    cur.append(("if", None, s2, s1))
        # block items: (shape, is_new) ; declarations / tails have depth 0
        d0 = d == 1
        first = [(s, True) for s in prev] + [(s, False) for s in lower] + [(s, d0) for s in decls]
        second = first + [(s, d0) for s in tails]
        if alpha["compound"] >= 1:
            cur.extend(("compound", (s,)) for s, new in second if new)
        if alpha["compound"] >= 2:
            for s1, n1 in first:
                for s2, n2 in second:
                    if n1 or n2:
                        cur.append(("compound", (s1, s2)))
        exact.append(cur)
    return exact


def deep_shallow(deep, shallow, alpha=REDUCED, decls_shallow=True):
    """One more level on top of `deep` where two-child constructors get one
    child from `deep` and the other from `shallow` (both orders)."""
    out = []
    for k in alpha["unary"]:
        out.extend(_unary(k, s) for s in deep)
    for form in alpha["for"]:
        out.extend(("for", form, None, s) for s in deep)
    sh_items = list(shallow) + ([_leaf(k) for k in alpha["decls"]] if decls_shallow else [])
    tails = [_tail(k) for k in alpha["tail_labels"]]
    for s in deep:
        out.append(("compound", (s,)))
        for t in tails:
            out.append(("compound", (s, t)))
        for x in sh_items:
            out.append(("compound", (s, x)))
            out.append(("compound", (x, s)))
        for x in shallow:
            out.append(("if", None, s, x))
            out.append(("if", None, x, s))
    return out


def trees(depth, alphabet=FULL):
    """All *valid, labelled* statement trees of depth <= depth (smallest first).
    Shapes that C cannot spell without braces (an if/else whose then-branch ends
    in an open if) are kept: render('minimal') braces them and expect follows."""
    for s in statements(depth, alphabet):
        yield label(s)


# ---------------------------------------------------------------------------
# labelling: every name slot gets a distinct spelling, numbered in source order
# ---------------------------------------------------------------------------
def label(t):
    c = itertools.count()
    return _label(t, c)


def _label(t, c):
    k = t[0]
    nx = lambda p: "%s%d" % (p, next(c))
    if k == "expr":
        return ("expr", nx("x"))
    if k in ("empty", "break", "continue"):
        return t
    if k == "compound":
        return ("compound", tuple(_label(i, c) for i in t[1]))
    if k == "if":
        cond = nx("x")
        th = _label(t[2], c)
        el = None if t[3] is None else _label(t[3], c)
        return ("if", cond, th, el)
    if k == "while":
        cond = nx("x")
        return ("while", cond, _label(t[2], c))
    if k == "do":
        body = _label(t[1], c)
        return ("do", body, nx("x"))
    if k == "for":
        init, hc, hn = t[1]
        names = (
            nx("v") if init in ("decl", "decl2") else None,
            nx("x") if init != "none" else None,
            nx("w") if init == "decl2" else None,
            nx("x") if hc else None,
            nx("x") if hn else None,
        )
        return ("for", t[1], names, _label(t[3], c))
    if k == "switch":
        cond = nx("x")
        return ("switch", cond, _label(t[2], c))
    if k == "case":
        n = next(c) + 1
        return ("case", n, None if t[2] is None else _label(t[2], c))
    if k == "default":
        return ("default", None if t[1] is None else _label(t[1], c))
    if k == "label":
        n = nx("L")
        return ("label", n, None if t[2] is None else _label(t[2], c))
    if k == "goto":
        return ("goto", nx("G"))
    if k == "return":
        return ("return", nx("x") if t[1] else None)
    if k == "decl":
        n = nx("v")
        return ("decl", n, nx("x") if t[2] else None)
    if k == "sassert":
        return ("sassert", next(c) + 1)
    if k == "pragma":
        # several words, to see the text kept verbatim
        tmpl = PRAGMA_STYLES[t[1]][1]
        return ("pragma", t[1], tmpl % nx("p") if tmpl else "")
    if k == "pp":
        ps = tuple(_label(p, c) for p in t[1])
        return ("pp", ps, _label(t[2], c))
    raise KeyError(k)


# ---------------------------------------------------------------------------
# dangling else
# ---------------------------------------------------------------------------
def open_if(s):
    """Does the text of s end in an if that still accepts an else?"""
    if s is None:
        return False
    k = s[0]
    if k == "if":
        return True if s[3] is None else open_if(s[3])
    if k in ("while", "switch"):
        return open_if(s[2])
    if k == "for":
        return open_if(s[3])
    if k in ("case", "label"):
        return open_if(s[2])
    if k == "default":
        return open_if(s[1])
    if k == "pp":
        return open_if(s[2])
    return False  # do..while(); compound, leaves: closed


def has_dangling(t):
    """Is there an if/else anywhere whose then-branch ends in an open if?"""
    k = t[0]
    if k == "if" and t[3] is not None and open_if(t[2]):
        return True
    return any(has_dangling(ch) for ch in _children(t))


def _children(t):
    k = t[0]
    if k == "compound":
        return list(t[1])
    if k == "if":
        return [t[2]] + ([t[3]] if t[3] is not None else [])
    if k in ("while", "switch"):
        return [t[2]]
    if k == "do":
        return [t[1]]
    if k == "for":
        return [t[3]]
    if k in ("case", "label"):
        return [t[2]] if t[2] is not None else []
    if k == "default":
        return [t[1]] if t[1] is not None else []
    if k == "pp":
        return [t[2]]
    return []


def _attach_else(s, els):
    """Nearest-if reading: give `els` to the innermost open if at the end of s."""
    k = s[0]
    if k == "if":
        if s[3] is not None:
            return ("if", s[1], s[2], _attach_else(s[3], els))
        if open_if(s[2]):       # a nearer open if inside the then-branch
            return ("if", s[1], _attach_else(s[2], els), None)
        return ("if", s[1], s[2], els)
    if k in ("while", "switch"):
        return (k, s[1], _attach_else(s[2], els))
    if k == "for":
        return ("for", s[1], s[2], _attach_else(s[3], els))
    if k in ("case", "label"):
        return (k, s[1], _attach_else(s[2], els))
    if k == "default":
        return ("default", _attach_else(s[1], els))
    if k == "pp":
        return ("pp", s[1], _attach_else(s[2], els))
    raise AssertionError("not open")


def resolve(t, mode):
    """Tree the text of render(t, mode) really denotes.
    minimal  : a then-branch that would capture the else is braced
               -> ('compound', (then,))
    ambiguous: no braces are written; C gives the else to the nearest if."""
    k = t[0]
    if k == "compound":
        items = []
        for i in t[1]:
            r = resolve(i, mode)
            if r[0] == "pp":
                # in a block, pragmas in front of a statement are block items
                items.extend(r[1])
                items.append(r[2])
            else:
                items.append(r)
        return ("compound", tuple(items))
    if k == "if":
        th = resolve(t[2], mode)
        el = None if t[3] is None else resolve(t[3], mode)
        if el is not None and open_if(th):
            if mode == "minimal":
                braced = th[1] + (th[2],) if th[0] == "pp" else (th,)
                return ("if", t[1], ("compound", braced), el)
            return ("if", t[1], _attach_else(th, el), None)
        return ("if", t[1], th, el)
    if k in ("while", "switch"):
        return (k, t[1], resolve(t[2], mode))
    if k == "do":
        return ("do", resolve(t[1], mode), t[2])
    if k == "for":
        return ("for", t[1], t[2], resolve(t[3], mode))
    if k in ("case", "label"):
        return (k, t[1], None if t[2] is None else resolve(t[2], mode))
    if k == "default":
        return ("default", None if t[1] is None else resolve(t[1], mode))
    if k == "pp":
        return ("pp", t[1], resolve(t[2], mode))
    return t


# ---------------------------------------------------------------------------
# render
# ---------------------------------------------------------------------------
def render(t, mode="minimal"):
    """C text of statement/block item t.  mode 'minimal': braces only where the
    grammar needs them (dangling else); 'ambiguous': not even there."""
    out = []
    _r(t, mode, out)
    return _join(out)


def _join(toks):
    s = []
    for x in toks:
        if x.startswith("#pragma"):
            s.append("\n" + x + "\n")
        else:
            s.append(x + " ")
    return "".join(s)


def _rp(p, out):
    if is_hash(p[1]):
        out.append("#pragma" + PRAGMA_STYLES[p[1]][0] + p[2])
    else:
        out.extend(["_Pragma", "(", '"%s"' % p[2], ")"])


def _r(t, mode, out):
    k = t[0]
    if k == "expr":
        out += [t[1], ";"]
    elif k == "empty":
        out.append(";")
    elif k == "compound":
        out.append("{")
        for i in t[1]:
            _r(i, mode, out)
        out.append("}")
    elif k == "if":
        out += ["if", "(", t[1], ")"]
        if t[3] is not None and mode == "minimal" and open_if(t[2]):
            out.append("{")
            _r(t[2], mode, out)
            out.append("}")
        else:
            _r(t[2], mode, out)
        if t[3] is not None:
            out.append("else")
            _r(t[3], mode, out)
    elif k == "while":
        out += ["while", "(", t[1], ")"]
        _r(t[2], mode, out)
    elif k == "do":
        out.append("do")
        _r(t[1], mode, out)
        out += ["while", "(", t[2], ")", ";"]
    elif k == "for":
        init = t[1][0]
        v, iv, w, cond, nxt = t[2]
        out += ["for", "("]
        if init == "expr":
            out.append(iv)
        elif init == "decl":
            out += ["int", v, "=", iv]
        elif init == "decl2":
            out += ["int", v, "=", iv, ",", "*", w]
        out.append(";")
        if cond:
            out.append(cond)
        out.append(";")
        if nxt:
            out.append(nxt)
        out.append(")")
        _r(t[3], mode, out)
    elif k == "switch":
        out += ["switch", "(", t[1], ")"]
        _r(t[2], mode, out)
    elif k == "case":
        out += ["case", str(t[1]), ":"]
        if t[2] is not None:
            _r(t[2], mode, out)
    elif k == "default":
        out += ["default", ":"]
        if t[1] is not None:
            _r(t[1], mode, out)
    elif k == "label":
        out += [t[1], ":"]
        if t[2] is not None:
            _r(t[2], mode, out)
    elif k == "goto":
        out += ["goto", t[1], ";"]
    elif k == "break":
        out += ["break", ";"]
    elif k == "continue":
        out += ["continue", ";"]
    elif k == "return":
        out.append("return")
        if t[1]:
            out.append(t[1])
        out.append(";")
    elif k == "decl":
        out += ["int", t[1]]
        if t[2]:
            out += ["=", t[2]]
        out.append(";")
    elif k == "sassert":
        out += ["_Static_assert", "(", str(t[1]), ",", '"%s"' % SA_MSG, ")", ";"]
    elif k == "pragma":
        _rp(t, out)
    elif k == "pp":
        for p in t[1]:
            _rp(p, out)
        _r(t[2], mode, out)
    else:
        raise KeyError(k)


# ---------------------------------------------------------------------------
# expect
# ---------------------------------------------------------------------------
def expect(t, mode="minimal"):
    """Tuple of canon() forms this block item contributes to its block."""
    r = resolve(("compound", (t,)), mode)
    out = []
    for i in r[1]:
        out.extend(_items(i))
    return tuple(out)


def expect_stmt(t, mode="minimal"):
    r = expect(t, mode)
    assert len(r) == 1
    return r[0]


def _one(t):
    """canon of a statement in a single-statement slot."""
    r = _items(t)
    assert len(r) == 1, t
    return r[0]


def _labelled_stmt(s):
    # a label/case/default directly followed by '}' carries an EmptyStatement
    return EMPTY if s is None else _one(s)


def _is_case(t):
    return t is not None and t[0] in ("case", "default")


def _case_stmt(t):
    return t[2] if t[0] == "case" else t[1]


def _case_node(t, stmts):
    if t[0] == "case":
        return N("Case", INT(t[1]), tuple(stmts))
    return N("Default", tuple(stmts))


def _switch_block(items):
    """Regrouping of the block items of a switch body (and of nothing else).

    Walk the items in source order.  An item that is a case/default opens a
    maximal chain of directly nested case/default prefixes
    (case 1: case 2: default: s); the members of the chain become siblings in
    the block, all but the last with no statements, the last one holding s.
    Every later item that is not itself a case/default is appended, in source
    order, to the last such sibling.  Items before the first case/default stay
    directly in the block.  Labels reached through anything else (an ordinary
    label, an if, a loop, an inner block, a pragma-wrapped statement) are
    opaque: they stay where the grammar put them.
    """
    out = []          # list of [kind, payload]; kind 'plain' | 'case'
    last = None
    for it in items:
        if _is_case(it):
            cur = it
            while _is_case(_case_stmt(cur)):
                out.append(["case", cur, []])
                cur = _case_stmt(cur)
            last = ["case", cur, [_labelled_stmt(_case_stmt(cur))]]
            out.append(last)
        else:
            forms = _items(it)
            if last is None:
                out.extend(["plain", f, None] for f in forms)
            else:
                last[2].extend(forms)
    res = []
    for kind, a, b in out:
        res.append(a if kind == "plain" else _case_node(a, b))
    return tuple(res)


def _items(t):
    k = t[0]
    if k == "expr":
        return (ID(t[1]),)
    if k == "empty":
        return (EMPTY,)
    if k == "compound":
        if not t[1]:
            return (N("Compound", None),)
        its = []
        for i in t[1]:
            its.extend(_items(i))
        return (N("Compound", tuple(its)),)
    if k == "if":
        return (N("If", ID(t[1]), _one(t[2]), None if t[3] is None else _one(t[3])),)
    if k == "while":
        return (N("While", ID(t[1]), _one(t[2])),)
    if k == "do":
        return (N("DoWhile", ID(t[2]), _one(t[1])),)
    if k == "for":
        init = t[1][0]
        v, iv, w, cond, nxt = t[2]
        if init == "none":
            i = None
        elif init == "expr":
            i = ID(iv)
        elif init == "decl":
            i = N("DeclList", (DECL(v, ID(iv)),))
        else:
            i = N("DeclList", (DECL(v, ID(iv)), DECL(w, None, ptr=True)))
        return (N("For", i, ID(cond) if cond else None, ID(nxt) if nxt else None, _one(t[3])),)
    if k == "switch":
        body = t[2]
        if body[0] == "compound":
            # an empty switch block is an (empty) list of block items, not None:
            # the regrouping always produces a list
            b = N("Compound", _switch_block(body[1]))
        elif body[0] == "pp":
            # the Compound([pragmas..., stmt]) that stands for a pragma-prefixed
            # body *is* the switch body: its items are regrouped like any block's
            b = N("Compound", _switch_block(body[1] + (body[2],)))
        else:
            b = _one(body)
        return (N("Switch", ID(t[1]), b),)
    if k == "case":
        return (N("Case", INT(t[1]), (_labelled_stmt(t[2]),)),)
    if k == "default":
        return (N("Default", (_labelled_stmt(t[1]),)),)
    if k == "label":
        return (N("Label", t[1], _labelled_stmt(t[2])),)
    if k == "goto":
        return (N("Goto", t[1]),)
    if k == "break":
        return (N("Break"),)
    if k == "continue":
        return (N("Continue"),)
    if k == "return":
        return (N("Return", ID(t[1]) if t[1] else None),)
    if k == "decl":
        return (DECL(t[1], ID(t[2]) if t[2] else None),)
    if k == "sassert":
        # pycparser's documented shape (tests/test_c_parser.py test_static_assert):
        # the ';' after _Static_assert(...) in a block is an empty statement
        return (N("StaticAssert", INT(t[1]), STR(SA_MSG)), EMPTY)
    if k == "pragma":
        return (PRAGMA(t[1], t[2]),)
    if k == "pp":
        return (N("Compound", tuple(PRAGMA(p[1], p[2]) for p in t[1]) + (_one(t[2]),)),)
    raise KeyError(k)


# ---------------------------------------------------------------------------
# whole functions / files
# ---------------------------------------------------------------------------
FUNC_HEAD = "void f ( void ) "


def body_text(t, mode="minimal"):
    """Translation unit whose only function has t as the single block item
    (after flattening: t's items) of its body: `void f ( void ) { t }`."""
    return FUNC_HEAD + "{ " + render(t, mode) + "}"


def body_expect(t, mode="minimal"):
    its = expect(t, mode)
    return N("Compound", tuple(its))


def funcdef_expect(body):
    void = N("TypeDecl", None, (), None, N("IdentifierType", ("void",)))
    ft = N("FuncDecl", N("ParamList", (N("Typename", None, (), None, void),)),
           N("TypeDecl", "f", (), None, N("IdentifierType", ("void",))))
    return N("FuncDef", N("Decl", "f", (), (), (), (), ft, None, None), None, body)


# ---------------------------------------------------------------------------
# pragma insertion
# ---------------------------------------------------------------------------
def pragma_sites(t, path=()):
    """Paths of all statement/declaration boundaries of t where a pragma may be
    written: ('item', path, i) = new block item at index i of the compound at
    path; ('sub', path, slot) = in front of the substatement in that slot."""
    k = t[0]
    out = []
    if k == "compound":
        n = len(t[1])
        for i in range(n + 1):
            # not after a label that relies on being directly followed by '}'
            if i == n and n and _tail_open(t[1][-1]):
                continue
            out.append(("item", path, i))
        for i, it in enumerate(t[1]):
            out.extend(pragma_sites(it, path + (("compound", i),)))
        return out
    for slot, ch in _slots(t):
        if ch is None:
            continue
        out.append(("sub", path, slot))
        out.extend(pragma_sites(ch, path + ((k, slot),)))
    return out


def _tail_open(t):
    """Does t end in a label/case/default that has no statement of its own?"""
    k = t[0]
    if k in ("case", "label"):
        return t[2] is None or _tail_open(t[2])
    if k == "default":
        return t[1] is None or _tail_open(t[1])
    if k == "pp":
        return _tail_open(t[2])
    if k == "if":
        return _tail_open(t[3] if t[3] is not None else t[2])
    if k in ("while", "switch"):
        return _tail_open(t[2])
    if k == "for":
        return _tail_open(t[3])
    return False


def valid(t, tail_ok=True, item=True):
    """Is the shape one the model can generate?  declarations, static
    assertions and pragmas only as block items; a label without a statement only
    where the next token is the '}' of the enclosing block."""
    k = t[0]
    if k in ("decl", "sassert", "pragma"):
        return item
    if k == "compound":
        n = len(t[1])
        return all(valid(it, i == n - 1, True) for i, it in enumerate(t[1]))
    if k == "pp":
        return bool(t[1]) and valid(t[2], tail_ok, False)
    if k in ("case", "label", "default"):
        ch = t[2] if k != "default" else t[1]
        if ch is None:
            return tail_ok
        return valid(ch, tail_ok, False)
    if k == "if":
        if t[3] is None:
            return valid(t[2], tail_ok, False)
        return valid(t[2], False, False) and valid(t[3], tail_ok, False)
    if k in ("while", "switch"):
        return valid(t[2], tail_ok, False)
    if k == "for":
        return valid(t[3], tail_ok, False)
    if k == "do":
        return valid(t[1], False, False)
    return True


def _slots(t):
    k = t[0]
    if k == "if":
        return [(2, t[2]), (3, t[3])]
    if k in ("while", "switch"):
        return [(2, t[2])]
    if k == "do":
        return [(1, t[1])]
    if k == "for":
        return [(3, t[3])]
    if k in ("case", "label"):
        return [(2, t[2])]
    if k == "default":
        return [(1, t[1])]
    if k == "pp":
        return [(2, t[2])]
    return []


def insert_pragma(t, site, form):
    """Shape with one more (unlabelled) pragma at `site` (of pragma_sites(t))."""
    kind, path, where = site
    return _ins(t, path, kind, where, ("pragma", form, None))


def _ins(t, path, kind, where, prag):
    if not path:
        if kind == "item":
            assert t[0] == "compound"
            its = t[1]
            return ("compound", its[:where] + (prag,) + its[where:])
        ch = t[where]
        if t[0] == "pp":
            # one more pragma directly in front of the statement
            return ("pp", t[1] + (prag,), ch)
        if ch[0] == "pp":
            new = ("pp", (prag,) + ch[1], ch[2])
        else:
            new = ("pp", (prag,), ch)
        return t[:where] + (new,) + t[where + 1:]
    (k, idx), rest = path[0], path[1:]
    if k == "compound":
        its = t[1]
        return ("compound", its[:idx] + (_ins(its[idx], rest, kind, where, prag),) + its[idx + 1:])
    return t[:idx] + (_ins(t[idx], rest, kind, where, prag),) + t[idx + 1:]


def strip_labels(t):
    """Inverse of label(): back to a shape (so that insertion can relabel)."""
    k = t[0]
    if k == "expr":
        return ("expr", None)
    if k == "compound":
        return ("compound", tuple(strip_labels(i) for i in t[1]))
    if k == "if":
        return ("if", None, strip_labels(t[2]), None if t[3] is None else strip_labels(t[3]))
    if k in ("while", "switch"):
        return (k, None, strip_labels(t[2]))
    if k == "do":
        return ("do", strip_labels(t[1]), None)
    if k == "for":
        return ("for", t[1], None, strip_labels(t[3]))
    if k in ("case", "label"):
        return (k, None, None if t[2] is None else strip_labels(t[2]))
    if k == "default":
        return ("default", None if t[1] is None else strip_labels(t[1]))
    if k == "goto":
        return ("goto", None)
    if k == "return":
        return ("return", 1 if t[1] else 0)
    if k == "decl":
        return ("decl", None, 1 if t[2] else 0)
    if k == "sassert":
        return ("sassert", None)
    if k == "pragma":
        return ("pragma", t[1], None)
    if k == "pp":
        return ("pp", tuple(strip_labels(p) for p in t[1]), strip_labels(t[2]))
    return t


def label_names(t):
    """Names of all ordinary labels of a labelled tree, in source order."""
    out = [t[1]] if t[0] == "label" else []
    for ch in _children(t):
        out.extend(label_names(ch))
    return out


def typedef_prefix(t):
    """File-scope text that makes every label name of t a typedef name (labels
    have their own name space: the tree below must not change)."""
    return "".join("typedef int %s ; " % n for n in label_names(t))


def pragma_texts(t):
    """All pragma texts of a labelled tree, in source order."""
    k = t[0]
    if k == "pragma":
        return [t[2]]
    out = []
    if k == "pp":
        out.extend(p[2] for p in t[1])
    for ch in _children(t):
        out.extend(pragma_texts(ch))
    return out


# ---------------------------------------------------------------------------
# switch bodies as sequences over
#   {case, default, statement, declaration, label+statement, pragma, nested switch}
# ---------------------------------------------------------------------------
SWITCH_ELEMS = ("case", "default", "stmt", "decl", "labstmt", "pragma_hash", "pragma_op", "switch")


def switch_from_sequence(seq):
    """Shape of `switch (x) { ... }` whose body is the given element sequence,
    or None if C11 has no such program.  'case'/'default' are bare prefixes
    that attach to what follows: another prefix, (pragmas and) a statement, or
    the closing brace.  A prefix in front of a declaration is not C11 and is
    not generated."""
    items = []
    i = 0
    n = len(seq)

    def stmt_at(j):
        """Parse a statement starting at j -> (shape, next j) | None."""
        if j >= n:
            return (None, j)            # prefix directly followed by '}'
        e = seq[j]
        if e == "case":
            r = stmt_at(j + 1)
            return None if r is None else (("case", None, r[0]), r[1])
        if e == "default":
            r = stmt_at(j + 1)
            return None if r is None else (("default", r[0]), r[1])
        if e == "stmt":
            return (("expr", None), j + 1)
        if e == "labstmt":
            return (("label", None, ("expr", None)), j + 1)
        if e == "switch":
            inner = ("switch", None, ("compound", (("case", None, ("expr", None)), ("expr", None))))
            return (inner, j + 1)
        if e in ("pragma_hash", "pragma_op"):
            ps = []
            while j < n and seq[j] in ("pragma_hash", "pragma_op"):
                ps.append(("pragma", seq[j][7:], None))
                j += 1
            if j >= n or seq[j] == "decl":
                return None
            r = stmt_at(j)
            if r is None or r[0] is None:
                return None
            return (("pp", tuple(ps), r[0]), r[1])
        return None                     # declaration after a prefix

    while i < n:
        e = seq[i]
        if e in ("case", "default"):
            r = stmt_at(i)
            if r is None:
                return None
            items.append(r[0])
            i = r[1]
        elif e == "decl":
            items.append(("decl", None, 0))
            i += 1
        elif e in ("pragma_hash", "pragma_op"):
            items.append(("pragma", e[7:], None))
            i += 1
        else:
            r = stmt_at(i)
            items.append(r[0])
            i = r[1]
    return ("switch", None, ("compound", tuple(items)))

r"""Layout model: turn a list of token spellings, a layout choice per gap and
optional directive lines per gap into source text, and record where every token
ended up - absolute offset, physical line/column, and the *logical* (file,
line) in force there after `#line N "f"` / `# N "f" flags` / `# N` re-basing.

Semantics implemented (independently of pycparser):

* C99 6.10.4: `#line N` makes the line FOLLOWING the directive line number N;
  `#line N "f"` additionally sets the presumed file name to f.  The GNU
  linemarker `# N "f" flags` means the same (the flags do not affect line or
  name).  A directive occupies a whole line: it starts at the beginning of a
  line (blanks may precede the '#') and ends with the newline.
* `#pragma ...` lines produce, in pycparser's documented token vocabulary, a
  PPPRAGMA token (value "pragma", positioned at the word) and, when text
  follows, a PPPRAGMASTR token (the text up to the end of the line).  They are
  pinned to their own line.
* columns are 1-based offsets from the physical line start; tabs count 1.
* Two tokens may be adjacent (empty separator) only if the reference lexer
  re-splits the concatenation into the same tokens; see `paste=`.

API
---
    lay = lay_out(tokens, separators, directives=None, filename="",
                  paste="space", end_newline=True, is_type=None)

    tokens      list of spellings; a spelling of the form `#pragma ...` (blanks
                allowed before '#' and between '#' and the word, optional
                trailing newline) is a pragma token and gets its own line
    separators  list of blank strings (only ' ', '\t', '\n'): either
                len(tokens)-1 (between tokens) or len(tokens)+1 (leading,
                between..., trailing)
    directives  {gap index: [Directive, ...]} ; gap g lies before token g
                (g == len(tokens): after the last token).  The directive lines
                are emitted at the start of the gap (after a newline if the
                current line is not empty), then the gap's separator.
    paste       what to do with an empty separator the reference lexer would
                not split back: "space" (widen to one blank, recorded in
                lay.widened), "error" (ValueError), "keep" (emit as asked;
                affected tokens are flagged .pasted and lay.chunks tells what
                is glued together)
    end_newline if False, a directive line that is the very last thing in the
                text is not terminated by a newline

    lay.text     the source text
    lay.toks     one TokPos per input token (for a pragma token: the position
                 of the word `pragma`)
    lay.stream   every lexer-level token expected, in order, as TokPos (input
                 tokens, plus PPPRAGMA/PPPRAGMASTR of pragma tokens and pragma
                 directives)
    lay.chunks   maximal runs of tokens glued by empty separators:
                 [(first TokPos, text, [token indices])]
    lay.final_file   presumed file name at end of text
    expected_tokens(lay, is_type) -> [(type, value, logical line, column,
                 file)] using the reference lexer for the types
"""
from __future__ import annotations

import re

from models import lexref

BLANKS = " \t\n"


class Directive:
    """One directive line (text without the newline)."""

    __slots__ = ("kind", "text", "indent", "line", "file", "pragma_col", "str_col", "str")

    def __repr__(self):
        return f"Directive({self.indent + self.text!r})"


def line_directive(n, file=None, flags=(), keyword=True, indent="", field_sep=" ",
                   hash_gap=None):
    """`#line N ["f"]` (keyword=True) or the linemarker `# N ["f" flags]`;
    field_sep: the blanks between the fields (spaces and/or tabs); hash_gap:
    the blanks between '#' and what follows it (default: none before `line`,
    field_sep before the number of a linemarker)."""
    if not field_sep or field_sep.strip(" \t"):
        raise ValueError("field_sep must be blanks")
    if hash_gap is not None and hash_gap.strip(" \t"):
        raise ValueError("hash_gap must be blanks")
    d = Directive()
    d.kind = "line"
    if keyword:
        t = "#" + (hash_gap or "") + "line" + field_sep
    else:
        t = "#" + (field_sep if hash_gap is None else hash_gap)
    t += str(n)
    if file is not None:
        t += field_sep + '"' + file + '"'
        for f in flags:
            t += field_sep + str(f)
    elif flags:
        raise ValueError("flags need a file name")
    d.text = t
    d.indent = indent
    d.line = n
    d.file = file
    return d


def pragma_directive(text=None, indent="", hash_gap="", text_gap=" ", trailing=""):
    """`#pragma text` / bare `#pragma`.

    hash_gap: blanks between '#' and `pragma`; text_gap: blanks between
    `pragma` and the text; trailing: blanks after the text (or, without text,
    after the word).  pycparser's documented PPPRAGMASTR value is everything
    from the first non-blank after `pragma` up to the newline, trailing blanks
    INCLUDED (so `text` itself may also end in blanks); a line with nothing but
    blanks after `pragma` has no PPPRAGMASTR."""
    d = Directive()
    d.kind = "pragma"
    d.indent = indent
    head = "#" + hash_gap
    d.pragma_col = len(head)
    d.text = head + "pragma"
    d.str = None
    d.str_col = None
    for b in (hash_gap, text_gap, trailing):
        if b.strip(" \t"):
            raise ValueError("gaps must be blanks")
    if text:
        if text[0] in " \t" or "\n" in text:
            raise ValueError("pragma text must not start with a blank or contain a newline")
        if not text_gap and (text[0] in lexref.IDCHAR):
            raise ValueError("pragma text must be separated from the word")
        d.str_col = len(d.text) + len(text_gap)
        d.str = text + trailing
        d.text += text_gap + d.str
    else:
        d.text += trailing
    d.line = d.file = None
    return d


_PRAGMA_TOKEN = re.compile(r"^([ \t]*)#([ \t]*)pragma(?![0-9A-Za-z_$])([ \t]*)([^\n]*)\n?$")


def is_pragma_token(spelling):
    """A token spelling that is a pragma line: `#pragma x`, `# pragma x`,
    `  #\tpragma`, `#pragma x \t`, optionally with a trailing newline."""
    return _PRAGMA_TOKEN.match(spelling) is not None


def parse_pragma_token(spelling):
    """'#pragma x\n' / '  # pragma' / '#pragma x  ' -> Directive (indent, hash
    gap, text gap and trailing blanks kept: `"#pragma " + value + "\n"` gives
    back a PPPRAGMASTR with exactly that value)."""
    m = _PRAGMA_TOKEN.match(spelling)
    if m is None:
        raise ValueError(spelling)
    if m.group(4):
        return pragma_directive(m.group(4), indent=m.group(1), hash_gap=m.group(2),
                                text_gap=m.group(3))
    return pragma_directive(None, indent=m.group(1), hash_gap=m.group(2), trailing=m.group(3))


class TokPos:
    __slots__ = ("index", "origin", "value", "offset", "end", "line", "col",
                 "lfile", "lline", "pasted", "type")

    def __init__(self, index, origin, value, offset, line, col, lfile, lline):
        self.index = index      # index in `tokens` (None for directive tokens)
        self.origin = origin    # 'token' | 'pragma' | 'pragmastr'
        self.value = value
        self.offset = offset
        self.end = offset + len(value)
        self.line = line        # physical line, 1-based
        self.col = col          # 1-based
        self.lfile = lfile      # presumed file name in force
        self.lline = lline      # presumed line number
        self.pasted = False
        self.type = None

    def __repr__(self):
        return (f"TokPos({self.value!r}@{self.offset} phys {self.line}:{self.col} "
                f"logical {self.lfile}:{self.lline})")


class Layout:
    __slots__ = ("text", "toks", "stream", "chunks", "widened", "final_file",
                 "final_lline", "directive_lines")


class _Writer:
    def __init__(self, filename):
        self.parts = []
        self.off = 0
        self.line = 1
        self.line_start = 0
        self.delta = 0          # logical line = physical line + delta
        self.file = filename
        self.line_empty = True  # nothing but blanks on the current line so far

    def write(self, s):
        for ch in s:
            if ch == "\n":
                self.line += 1
                self.line_start = self.off + 1
                self.line_empty = True
            elif ch not in " \t":
                self.line_empty = False
            self.off += 1
        self.parts.append(s)

    def pos(self, index, origin, value):
        return TokPos(index, origin, value, self.off, self.line,
                      self.off - self.line_start + 1, self.file, self.line + self.delta)


def _norm_separators(tokens, separators):
    n = len(tokens)
    seps = list(separators)
    if len(seps) == max(n - 1, 0) and len(seps) != n + 1:
        seps = [""] + seps + [""]
    if len(seps) != n + 1:
        raise ValueError(f"need {max(n - 1, 0)} or {n + 1} separators, got {len(separators)}")
    for s in seps:
        for ch in s:
            if ch not in BLANKS:
                raise ValueError(f"separator {s!r} is not blank")
    return seps


def lay_out(tokens, separators, directives=None, filename="", paste="space",
            end_newline=True, is_type=None):
    tokens = list(tokens)
    n = len(tokens)
    seps = _norm_separators(tokens, separators)
    directives = directives or {}
    for g in directives:
        if not 0 <= g <= n:
            raise ValueError(f"no gap {g}")
    w = _Writer(filename)
    lay = Layout()
    lay.toks = []
    lay.stream = []
    lay.chunks = []
    lay.widened = []
    lay.directive_lines = []
    chunk = None  # [first TokPos, [spellings], [indices]]

    def close_chunk():
        nonlocal chunk
        if chunk is not None:
            lay.chunks.append((chunk[0], "".join(chunk[1]), chunk[2]))
            chunk = None

    def emit_directive(d, last_thing):
        if not w.line_empty:
            w.write("\n")
        w.write(d.indent)
        base = w.off
        lay.directive_lines.append((w.line, d))
        if d.kind == "pragma":
            p = TokPos(None, "pragma", "pragma", base + d.pragma_col, w.line,
                       base + d.pragma_col - w.line_start + 1, w.file, w.line + w.delta)
            lay.stream.append(p)
            first = p
            if d.str is not None:
                lay.stream.append(
                    TokPos(None, "pragmastr", d.str, base + d.str_col, w.line,
                           base + d.str_col - w.line_start + 1, w.file, w.line + w.delta))
        else:
            first = None
        w.write(d.text)
        w.line_empty = False
        if not (last_thing and not end_newline):
            w.write("\n")
        if d.kind == "line":
            # the line following the directive has number d.line
            w.delta = d.line - w.line if w.line_empty else d.line - (w.line + 1)
            if d.file is not None:
                w.file = d.file
        return first

    for g in range(n + 1):
        sep = seps[g]
        dirs = directives.get(g, ())
        tail_empty = g == n and sep == ""
        for k, d in enumerate(dirs):
            close_chunk()
            emit_directive(d, tail_empty and k == len(dirs) - 1)
        if g == n:
            w.write(sep)
            break
        tok = tokens[g]
        if "#" in tok and is_pragma_token(tok):
            close_chunk()
            w.write(sep)
            d = parse_pragma_token(tok)
            first = emit_directive(d, g == n - 1 and seps[n] == "" and not directives.get(n))
            first.index = g
            if len(lay.stream) >= 2 and lay.stream[-1].origin == "pragmastr" \
                    and lay.stream[-2] is first:
                lay.stream[-1].index = g
            lay.toks.append(first)
            continue
        glued = (sep == "" and chunk is not None and not dirs and g > 0)
        if glued:
            if not lexref.splits_same(chunk[1] + [tok], is_type):
                if paste == "error":
                    raise ValueError(f"{chunk[1][-1]!r} and {tok!r} cannot be adjacent")
                if paste == "space":
                    sep = " "
                    lay.widened.append(g)
                    glued = False
        if not glued:
            close_chunk()
        w.write(sep)
        p = w.pos(g, "token", tok)
        w.write(tok)
        lay.toks.append(p)
        lay.stream.append(p)
        if glued:
            chunk[1].append(tok)
            chunk[2].append(g)
        else:
            chunk = [p, [tok], [g]]
    close_chunk()
    for first, text, idxs in lay.chunks:
        if len(idxs) > 1 and not lexref.splits_same([tokens[i] for i in idxs], is_type):
            for i in idxs:
                lay.toks[i].pasted = True
    lay.text = "".join(w.parts)
    lay.final_file = w.file
    lay.final_lline = w.line + w.delta
    return lay


def expected_tokens(lay, is_type=None):
    """[(type, value, logical line, column, file)] for a layout without pasted
    tokens (types from the reference lexer, everything else from the layout)."""
    out = []
    for p in lay.stream:
        if p.origin == "pragma":
            t = "PPPRAGMA"
        elif p.origin == "pragmastr":
            t = "PPPRAGMASTR"
        else:
            if p.pasted:
                raise ValueError("layout has pasted tokens; use lay.chunks")
            t = lexref.token_type(p.value, is_type)
        p.type = t
        out.append((t, p.value, p.lline, p.col, p.lfile))
    return out

"""Independent reading of pycparser/_c_ast.cfg and the behaviour the
specification implies for each node class (used by C14 and C15).

Nothing here imports pycparser's _ast_gen: the reader and the expected
children()/iteration order are written from the cfg's own header comment
("<name>* - a child node, <name>** - a sequence of child nodes, <name> - an
attribute") and the property text (single children first, then sequences with
indexed names, absent ones skipped).
"""
from __future__ import annotations

import itertools
import os
import re

_LINE = re.compile(r"^\s*([A-Za-z_]\w*)\s*:\s*\[(.*)\]\s*$")


class ClassSpec:
    __slots__ = ("name", "fields", "kinds")

    def __init__(self, name, fields, kinds):
        self.name = name
        self.fields = fields  # names in cfg order
        self.kinds = kinds  # parallel: 'attr' | 'child' | 'seq'

    @property
    def attrs(self):
        return [f for f, k in zip(self.fields, self.kinds) if k == "attr"]

    @property
    def singles(self):
        return [f for f, k in zip(self.fields, self.kinds) if k == "child"]

    @property
    def seqs(self):
        return [f for f, k in zip(self.fields, self.kinds) if k == "seq"]

    def kind(self, field):
        return self.kinds[self.fields.index(field)]


def cfg_path(repo):
    return os.path.join(repo, "pycparser", "_c_ast.cfg")


def read_cfg(path):
    """-> [ClassSpec] in file order."""
    specs = []
    with open(path, encoding="utf-8") as f:
        for raw in f:
            line = raw.split("#", 1)[0].strip()
            if not line:
                continue
            m = _LINE.match(line)
            if not m:
                raise ValueError(f"cfg line not understood: {raw!r}")
            fields, kinds = [], []
            for item in m.group(2).split(","):
                item = item.strip()
                if not item:
                    continue
                if item.endswith("**"):
                    fields.append(item[:-2])
                    kinds.append("seq")
                elif item.endswith("*"):
                    fields.append(item[:-1])
                    kinds.append("child")
                else:
                    fields.append(item)
                    kinds.append("attr")
                if not re.fullmatch(r"[A-Za-z_]\w*", fields[-1]):
                    raise ValueError(f"bad field name in {raw!r}")
            specs.append(ClassSpec(m.group(1), fields, kinds))
    return specs


SEQ_OPTIONS = ("None", "[]", "[n]", "[n,n']")


def configurations(spec):
    """Every configuration of one class: each '*' child present/absent, each
    '**' child in SEQ_OPTIONS.  A configuration is a tuple parallel to
    spec.fields with entries 'attr' | 'present' | 'absent' | one of SEQ_OPTIONS."""
    axes = []
    for k in spec.kinds:
        if k == "attr":
            axes.append(("attr",))
        elif k == "child":
            axes.append(("present", "absent"))
        else:
            axes.append(SEQ_OPTIONS)
    return list(itertools.product(*axes))


def build_values(spec, config, make_leaf):
    """Field values for a configuration.  make_leaf(tag) returns a fresh
    sentinel node.  Attributes get unique strings."""
    vals = []
    for f, k, c in zip(spec.fields, spec.kinds, config):
        if k == "attr":
            vals.append(f"@{spec.name}.{f}")
        elif k == "child":
            vals.append(make_leaf(f"{spec.name}.{f}") if c == "present" else None)
        elif c == "None":
            vals.append(None)
        elif c == "[]":
            vals.append([])
        elif c == "[n]":
            vals.append([make_leaf(f"{spec.name}.{f}[0]")])
        else:
            vals.append([make_leaf(f"{spec.name}.{f}[0]"), make_leaf(f"{spec.name}.{f}[1]")])
    return vals


def expected_children(spec, vals):
    """[(name, value)] the specification implies: singles in cfg order that
    are present, then every sequence in cfg order with indexed names."""
    byname = dict(zip(spec.fields, vals))
    out = []
    for f in spec.singles:
        if byname[f] is not None:
            out.append((f, byname[f]))
    for f in spec.seqs:
        for i, e in enumerate(byname[f] or []):
            out.append((f"{f}[{i}]", e))
    return out


def spec_children(specs_by_name, node):
    """Children of a real node according to the specification (reads the
    fields with getattr; never calls children()/__iter__)."""
    spec = specs_by_name[node.__class__.__name__]
    out = []
    for f in spec.singles:
        v = getattr(node, f)
        if v is not None:
            out.append((f, v))
    for f in spec.seqs:
        for i, e in enumerate(getattr(node, f) or []):
            out.append((f"{f}[{i}]", e))
    return out


def preorder(specs_by_name, root, stop_class=None):
    """[(depth, name_in_parent, node)] in preorder following the specification;
    does not descend below nodes of class stop_class."""
    out = []
    stack = [(0, None, root)]
    while stack:
        d, nm, n = stack.pop()
        out.append((d, nm, n))
        if stop_class is not None and n.__class__.__name__ == stop_class:
            continue
        ch = spec_children(specs_by_name, n)
        for cn, c in reversed(ch):
            stack.append((d + 1, cn, c))
    return out

"""Reference scope model for C04 (DESIGN 4.7): a stack of dicts
name -> 'typedef' | 'ordinary' driven by declaration / brace events, written
from C99 6.2.1 and 6.2.3 as the property states them:

* a declaration of an ordinary identifier (typedef name, object, function,
  parameter, enumerator) enters the innermost open scope at the end of its
  declarator and stays until that scope's closing brace;
* the parameters of a function *definition* live in the body's block;
* struct/union members, tags, labels and the parameter names of a prototype
  that is not part of a definition are in other name spaces / scopes and never
  change what an identifier means as an ordinary identifier;
* initializer braces are not a scope: an enumerator declared inside them belongs
  to the enclosing block.

An identifier is a type name iff the innermost scope that declares it declares
it as a typedef.  Nothing here imports pycparser.
"""
from __future__ import annotations

from models.stmt_model import N as _N, ID, DECL

NAMES = ("A", "B")
MAX_DEPTH = 2

# per-name event kinds
PER_NAME_FULL = ("td", "obj", "self", "fn", "enum", "tag", "member", "label", "proto", "open_fn")
PER_NAME_REDUCED = ("td", "obj", "self", "fn", "enum", "label", "open_fn")
PER_NAME_CORE = ("td", "obj", "enum", "open_fn")      # the events that change the stack
STRUCTURAL = ("open", "close", "init")


NOOP_STATEMENTS = {
    "s_for_if": "for ( int i%(i)d = 0 ; i%(i)d < 1 ; i%(i)d ++ ) if ( i%(i)d ) ;",
    "s_for_blk": "for ( int j%(i)d = 0 ; ; ) { break ; }",
    "s_if": "if ( 1 ) ;",
    "s_stmt_expr": "( void ) ( { int q%(i)d = 1 ; q%(i)d ; } ) ;",
    "s_for_sa": "for ( _Static_assert ( 1 , \"m\" ) ; ; ) if ( 1 ) break ;",
    "s_sw": "switch ( 1 ) { case 1 : ; default : while ( 0 ) if ( 1 ) ; else ; }",
}


def alphabet(kind="full", init_enum=False):
    per = {"full": PER_NAME_FULL, "reduced": PER_NAME_REDUCED, "core": PER_NAME_CORE,
           # lead: old-style (K&R) definitions - identifier list plus declaration list
           "kr": PER_NAME_CORE + ("open_kr", "open_kr_enum"),
           # lead: definitions with an unnamed parameter of function type whose
           # own parameter list is a visible typedef name ('int * ( B )')
           # lead: statements that declare nothing visible afterwards, between
           # the declarations (their parsing looks ahead / opens scopes of its own)
           "stmt": PER_NAME_CORE + ("for_decl", "for_decl_blk"),
           "abs": PER_NAME_CORE + ("open_abs", "open_abs2")}[kind.partition("@")[0]]
    evs = [(k, n) for k in per for n in NAMES]
    evs += [(k, None) for k in (STRUCTURAL if kind != "core" else ("open", "close"))]
    if kind.partition("@")[0] == "stmt":
        evs += [(k, None) for k in NOOP_STATEMENTS]
    if init_enum:
        # an enumerator declared inside braces that are not a scope
        evs += [("init_enum", n) for n in NAMES] + [("member_enum", n) for n in NAMES]
    return tuple(evs)


# ---------------------------------------------------------------------------
# state: (scopes, labels, linkage)
#   scopes: tuple of (kind, ords, tags); kind 'file' | 'func' | 'block'
#           ords: sorted tuple of (name, 'typedef' | 'ordinary', subkind)
#           tags: sorted tuple of tag names declared in that scope
#   labels: sorted tuple of the labels of the function being defined
#   linkage: sorted tuple of (name, 'fn' | 'obj') for the identifiers declared
#           with external linkage so far (file-scope objects; functions declared
#           in any scope).  Not part of the scoping reference - only used to keep
#           histories valid C: C99 6.2.2/6.7p4 forbid `int A; ... { int A(void); }`
#           (found by the gcc audit of the model).
# ---------------------------------------------------------------------------
INITIAL = ((("file", (), ()),), (), ())


def depth(st):
    return len(st[0]) - 1


def in_function(st):
    return len(st[0]) > 1


def lookup(st, name):
    """(namespace kind, subkind) of the innermost visible ordinary declaration
    of name, or None."""
    for kind, ords, tags in reversed(st[0]):
        for n, k, sub in ords:
            if n == name:
                return (k, sub)
    return None


def is_typedef(st, name):
    r = lookup(st, name)
    return r is not None and r[0] == "typedef"


def _cur(st, name):
    for n, k, sub in st[0][-1][1]:
        if n == name:
            return (k, sub)
    return None


def _declare(st, name, k, sub):
    scopes, labels, linkage = st
    kind, ords, tags = scopes[-1]
    ords = tuple(sorted([o for o in ords if o[0] != name] + [(name, k, sub)]))
    return (scopes[:-1] + ((kind, ords, tags),), labels, linkage)


def _link(st, name, what):
    """Record an external-linkage declaration; None if it clashes."""
    scopes, labels, linkage = st
    for n, w in linkage:
        if n == name and w != what:
            return None
    if (name, what) in linkage:
        return st
    return (scopes, labels, tuple(sorted(linkage + ((name, what),))))


def apply(st, ev, typedef_labels=False):
    """New state after the event, or None if C (or the depth bound) forbids the
    event here.  typedef_labels: also allow a label spelled like a visible
    typedef name (kept out of the main sweep, see checks/c04.py)."""
    k, name = ev
    scopes, labels, linkage = st
    cur = _cur(st, name) if name else None
    if k == "td":            # typedef int N;   (C11: same-type redefinition is fine)
        if cur is not None and cur[0] != "typedef":
            return None
        return _declare(st, name, "typedef", "td")
    if k == "obj":           # int N;
        if cur is not None:
            # tentative definitions may repeat at file scope only
            if not (cur == ("ordinary", "obj") and not in_function(st)):
                return None
        if not in_function(st):
            st = _link(st, name, "obj")
            if st is None:
                return None
        return _declare(st, name, "ordinary", "obj")
    if k == "self":          # N N;  object N of the outer typedef type N
        if cur is not None or not is_typedef(st, name):
            return None
        return _declare(st, name, "ordinary", "obj")
    if k == "fn":            # int N(void);   external linkage in every scope
        if cur is not None and cur != ("ordinary", "fn"):
            return None
        st = _link(st, name, "fn")
        if st is None:
            return None
        return _declare(st, name, "ordinary", "fn")
    if k in ("enum", "init_enum", "member_enum"):
        # enum {N};  /  int z[] = { sizeof(enum {N}) };  /  struct S { enum {N} m; };
        # neither initializer braces nor a struct body is a scope for ordinary
        # identifiers: the enumerator belongs to the enclosing block or file
        if cur is not None:
            return None
        return _declare(st, name, "ordinary", "enum")
    if k == "tag":           # struct N {int m;};  tags: separate name space
        kind, ords, tags = scopes[-1]
        if name in tags:
            return None
        return (scopes[:-1] + ((kind, ords, tuple(sorted(tags + (name,)))),), labels, linkage)
    if k == "member":        # struct S {int N;};
        return st
    if k == "proto":         # void h(int N);   prototype scope ends at the ')'
        return st
    if k == "label":         # N: ;   function scope, own name space
        if not in_function(st) or name in labels:
            return None
        if is_typedef(st, name) and not typedef_labels:
            return None
        return (scopes, tuple(sorted(labels + (name,))), linkage)
    if k == "open_fn":       # void g(int N) {   parameters live in the body block
        if in_function(st):
            return None
        return (scopes + (("func", ((name, "ordinary", "param"),), ()),), (), linkage)
    if k == "open_kr":       # int g(N) int N; {   same scoping as open_fn; an identifier
        # list may not name a visible typedef (C11 6.9.1p6)
        if in_function(st) or is_typedef(st, name):
            return None
        return (scopes + (("func", ((name, "ordinary", "param"),), ()),), (), linkage)
    if k == "open_kr_enum":
        # int g(e) enum { N } e; {   the enumerator declared in the old-style
        # declaration list lives in the body's block like the parameters
        if in_function(st):
            return None
        return (scopes + (("func", ((name, "ordinary", "enum"),), ()),), (), linkage)
    if k in ("open_abs", "open_abs2"):
        # void g(int N, int *(O)) {   with O a visible typedef name: '(O)' is the
        # parameter list of an unnamed function-typed parameter (C99 6.7.5.3p11),
        # nothing named O is declared.  (With O not a typedef the same text would
        # declare a parameter O: those histories are not generated.)
        if in_function(st) or not is_typedef(st, _other(name)):
            return None
        return (scopes + (("func", ((name, "ordinary", "param"),), ()),), (), linkage)
    if k in ("for_decl", "for_decl_blk"):
        # for (int N = 0;;) ...   the loop is a block of its own (C99 6.8.5p5):
        # N hides an outer typedef inside the loop only
        if not in_function(st):
            return None
        return st
    if k in NOOP_STATEMENTS:     # a statement; its own declarations end with it
        if not in_function(st):
            return None
        return st
    if k == "open":
        if not in_function(st) or depth(st) >= MAX_DEPTH:
            return None
        return (scopes + (("block", (), ()),), labels, linkage)
    if k == "close":
        if not in_function(st):
            return None
        return (scopes[:-1], labels if len(scopes) > 2 else (), linkage)
    if k == "init":          # int z[] = { 0 };   braces that are not a scope
        return st
    raise KeyError(k)


# Alternative spellings of the same events (same scope semantics, other
# specifier / declarator shapes); selected per task by the check.
SPELLING = 0
SPELLINGS = {
    0: {"td": "typedef int %(n)s ;", "obj": "int %(n)s ;"},
    # function definitions: implicit int, K&R identifier list, parenthesised
    # and pointer-returning declarators - the parameter must live in the body's block
    1: {"td": "typedef struct { int m ; } %(n)s ;", "obj": "struct { int m ; } %(n)s = { 1 } ;",
        "open_fn": "g%(i)d ( int %(n)s ) {"},
    2: {"td": "typedef int * %(n)s [ 2 ] ;", "obj": "unsigned long * %(n)s [ 2 ] ;",
        "open_fn": "void g%(i)d ( int u%(i)d , int %(n)s ) {"},
    3: {"td": "typedef enum Z%(i)d %(n)s ;", "obj": "struct Z * %(n)s , * * w%(i)d ;",
        "open_fn": "int ( g%(i)d ( int %(n)s ) ) {"},
    # a function returning a pointer to function: the OTHER name is a parameter
    # of the returned type only and must not be declared in the body
    5: {"td": "typedef int %(n)s ;", "obj": "int %(n)s ;",
        "open_fn": "int ( * g%(i)d ( int %(n)s ) ) ( int %(o)s ) {"},
    4: {"td": "typedef int ( %(n)s ) ;", "obj": "struct Z ( * %(n)s ) = 0 , w%(i)d ;",
        "open_fn": "static int * g%(i)d ( int u%(i)d , int %(n)s , ... ) {"},
}


def _other(n):
    return next((m for m in NAMES if m != n), n) if n else n


def text(ev, idx):
    """C text of the event; idx (position in the history) makes helper names
    unique."""
    k, n = ev
    if k in NOOP_STATEMENTS:
        return NOOP_STATEMENTS[k] % {"i": idx}
    sp = SPELLINGS[SPELLING]
    return {
        "td": sp["td"] % {"n": n, "i": idx},
        "obj": sp["obj"] % {"n": n, "i": idx},
        "self": "%s %s ;" % (n, n),
        "fn": "int %s ( void ) ;" % n,
        "enum": "enum { %s } ;" % n,
        "tag": "struct %s { int m ; } ;" % n,
        "member": "struct S%d { int %s ; } ;" % (idx, n),
        "label": "%s : ;" % n,
        "proto": "void h%d ( int %s ) ;" % (idx, n),
        "open_fn": sp.get("open_fn", "void g%(i)d ( int %(n)s ) {") % {"n": n, "i": idx, "o": _other(n)},
        "open_kr": "int g%d ( %s , kk%d ) int %s ; char kk%d ; {" % (idx, n, idx, n, idx),
        "open_kr_enum": "int g%d ( ee%d , kk%d ) char kk%d ; enum { %s } ee%d ; {" % (idx, idx, idx, idx, n, idx),
        "open_abs": "void g%d ( int %s , int * ( %s ) ) {" % (idx, n, _other(n)),
        "open_abs2": "void g%d ( int ( * ( %s ) ) , int * const ( ( %s ) ) , int %s ) {" % (idx, _other(n), _other(n), n),
        "for_decl": "for ( int %s = 0 ; ; ) if ( %s ) break ;" % (n, n),
        "for_decl_blk": "for ( int * %s = 0 , k%d ; ; ) { %s ++ ; }" % (n, idx, n),
        "open": "{",
        "close": "}",
        "init": "int z%d [ ] = { 0 } ;" % idx,
        "init_enum": "int z%d [ ] = { sizeof ( enum { %s } ) } ;" % (idx, n),
        "member_enum": "struct S%d { enum { %s } m ; } ;" % (idx, n),
    }[k]


def history_text(hist):
    return " ".join(text(ev, i) for i, ev in enumerate(hist))


def closers(st):
    return " }" * depth(st)


def run(hist, typedef_labels=False):
    st = INITIAL
    for ev in hist:
        st = apply(st, ev, typedef_labels)
        if st is None:
            return None
    return st


# ---------------------------------------------------------------------------
# probes: (id, where, text template, expected canon if typedef, if ordinary)
# ---------------------------------------------------------------------------
def _tn(n):       # type name 'N' as an abstract Typename
    return _N("Typename", None, (), None, _N("TypeDecl", None, (), None, _N("IdentifierType", (n,))))


def _named(v, n, ptr=False):
    t = _N("TypeDecl", v, (), None, _N("IdentifierType", (n,)))
    if ptr:
        t = _N("PtrDecl", (), t)
    return _N("Decl", v, (), (), (), (), t, None, None)


def _call(n):
    return _N("FuncCall", ID(n), _N("ExprList", (ID("x"),)))


def _cast(n):
    return _N("Cast", _tn(n), ID("x"))


def _sizeof(n, ty):
    return _N("UnaryOp", "sizeof", _tn(n) if ty else ID(n))


def _arr(v, dim, init=None):
    t = _N("ArrayDecl", _N("TypeDecl", v, (), None, _N("IdentifierType", ("int",))), dim, ())
    return _N("Decl", v, (), (), (), (), t, init, None)


def _int(v, init):
    return DECL(v, init)


# where: 'func' (statement inside a function), 'file', 'any'
PROBES = (
    ("mul",      "func", "%s * x ;",                 lambda n: _named("x", n, ptr=True), lambda n: _N("BinaryOp", "*", ID(n), ID("x"))),
    ("castcall", "func", "( %s ) ( x ) ;",           _cast, _call),
    ("sizeof",   "func", "sizeof ( %s ) ;",          lambda n: _sizeof(n, True), lambda n: _sizeof(n, False)),
    ("parendecl", "func", "%s ( x ) ;",              lambda n: _named("x", n), _call),
    ("f-sizeof", "file", "int q [ sizeof ( %s ) ] ;", lambda n: _arr("q", _sizeof(n, True)), lambda n: _arr("q", _sizeof(n, False))),
    ("f-cast",   "file", "int q = ( %s ) ( x ) ;",   lambda n: _int("q", _cast(n)), lambda n: _int("q", _call(n))),
    # the same two inside initializer braces (a scope for nobody)
    ("i-sizeof", "any", "int q [ ] = { sizeof ( %s ) } ;",
     lambda n: _arr("q", None, _N("InitList", (_sizeof(n, True),))), lambda n: _arr("q", None, _N("InitList", (_sizeof(n, False),)))),
    ("i-cast",   "any", "int q [ ] = { ( %s ) ( x ) } ;",
     lambda n: _arr("q", None, _N("InitList", (_cast(n),))), lambda n: _arr("q", None, _N("InitList", (_call(n),)))),
)

# a declaration is visible from the end of its declarator: inside its own
# initializer and in later declarators of the same declaration the new
# (ordinary) N is what the name means.  Only formed where `int N;` is legal.
OWN_INIT_PROBES = (
    ("own-sizeof", "int %s = sizeof ( %s ) ;", lambda n: _int(n, _sizeof(n, False))),
    ("own-cast", "int %s = ( %s ) ( x ) ;", lambda n: _int(n, _call(n))),
    ("next-sizeof", "int %s , y = sizeof ( %s ) ;", lambda n: _int("y", _sizeof(n, False))),
)


def probes_for(st):
    w = "func" if in_function(st) else "file"
    return [p for p in PROBES if p[1] in (w, "any")]


def program(hist, st, probe_text):
    """history + probe + the closing braces the model says are open."""
    h = history_text(hist)
    return (h + " " if h else "") + probe_text + closers(st)

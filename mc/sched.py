"""Schedule explorer (DESIGN §3.S): a cooperative scheduler over real threads
with preemption bounding.

Each task (a `parser.parse(text)`, a `generator.visit(ast)`, ...) runs in its
own thread; exactly one thread holds the baton (one lock per thread, handed
over directly by the thread that gives the baton up).  A task gives the
scheduler a chance to switch at its *scheduling points*:

  (1) every `token()` call of a `CLexer` subclass injected through the public
      `CParser(lexer=...)` parameter (`token_lexer`);
  (2) in the fine-grained mode every `call` event (`sys.setprofile` in the
      task's thread) whose code object lives in a pycparser module
      (`with_call_points`).

The explorer is a deviation-bounded depth-first search: an execution replays
a choice prefix (any divergence from what was recorded when the prefix was
created is a hard error), then continues with "keep running the current
task" (when the current task has finished: the lowest-numbered live task),
and always runs to completion.  Every decision after the prefix at which
another live task could have been chosen gives a child prefix, provided its
number of preemptions (switching away from a task that could have continued)
stays within the bound; switching at the end of a task is free.  bound=None
explores all interleavings.  Every schedule within the bound is executed
exactly once.

The oracle's reference - what each task returns when it runs alone - is taken
in pristine processes (`solo_baseline`, mc/pristine.py), one per task, before
anything else has run, and shipped to the workers with their tasks; the
processes that explore run thousands of executions, so module-level state is
part of what is compared against that reference.

Work is split over processes by the first-level choices: the parent runs the
root execution, each child prefix is the root of a subtree explored by one
worker process with its own threads, for at most a fixed number of executions
(a count, not a time); the unexplored rest of a worker's DFS stack is handed
back and forms the pieces of the next round.  Prefixes cross the process
boundary as sparse deviation lists plus a digest of the decisions they were
recorded with, so the divergence check survives the hand-over.
"""
from __future__ import annotations

import _thread
import hashlib
import importlib
import os
import sys
import threading
import traceback

from . import core

HORIZON = 100_000
# every execution starts with this interpreter recursion limit (the value
# core.bootstrap gives the main process and the pmap workers), in the exploring
# processes and in the pristine solo baselines alike; the limit is process-wide
# state that code under test might change
RECURSION_LIMIT = 3000


class Divergence(RuntimeError):
    """Replaying a recorded choice prefix did not meet the recorded decisions."""


class _Abort(BaseException):
    """Raised inside a task at its next scheduling point once the horizon is
    exceeded, so that a runaway execution still comes to an end."""


# ---------------------------------------------------------------------------
# the baton scheduler (one per process, persistent worker threads)
# ---------------------------------------------------------------------------
class Scheduler:
    def __init__(self):
        self.pid = os.getpid()
        self.locks = []
        self.threads = []
        self.points = []
        self.done = _thread.allocate_lock()
        self.done.acquire()
        self.jobs = []
        self.executions = 0

    # -- worker threads -----------------------------------------------------
    def _ensure(self, n):
        while len(self.threads) < n:
            t = len(self.threads)
            lk = _thread.allocate_lock()
            lk.acquire()
            self.locks.append(lk)
            self.points.append(self._make_point(t))
            # large thread stacks: the interpreter's recursion limit, not the C
            # stack, must be what stops a deeply nested parse
            old = threading.stack_size(256 * 1024 * 1024)
            try:
                th = threading.Thread(target=self._worker, args=(t,), daemon=True,
                                      name=f"sched-task-{t}")
                th.start()
            finally:
                threading.stack_size(old)
            self.threads.append(th)

    def _make_point(self, t):
        def point(label="point"):
            if self.aborting:
                raise _Abort()
            # a task may arrive here a few frames below the recursion limit;
            # the scheduler's own bookkeeping must not die half-way, so it gets
            # some headroom and puts the limit back before the baton moves
            lim = sys.getrecursionlimit()
            sys.setrecursionlimit(lim + 200)
            try:
                self.steps[t] += 1
                nxt = self._decide(t, label, False)
            finally:
                sys.setrecursionlimit(lim)
            if nxt != t:
                self.switches += 1
                self.locks[nxt].release()
                self.locks[t].acquire()

        return point

    def _worker(self, t):
        lk = self.locks[t]
        while True:
            lk.acquire()  # wait for the baton
            job = self.jobs[t]
            if job is None:
                return
            try:
                res = ("ret", job(self.points[t]))
            except BaseException as e:  # noqa - a harness problem, never an oracle value
                sys.setprofile(None)
                res = ("harness-exc", type(e).__name__, str(e), traceback.format_exc()[-1500:])
            self.results[t] = res
            # the task is over: hand the baton on, or report completion
            self.alive.remove(t)
            if not self.alive:
                self.done.release()
            else:
                nxt = self._decide(t, "end", True)
                self.switches += 1
                self.locks[nxt].release()

    # -- one decision -------------------------------------------------------
    def _decide(self, cur, label, finished):
        i = len(self.trace)
        enabled = tuple(self.alive)
        key = (cur, label, enabled, tuple(self.steps))
        if i < self.upto and self.expect is not None and self.expect[i][:4] != key:
            if self.error is None:
                self.error = Divergence(
                    f"decision {i}: recorded {self.expect[i][:4]} replayed {key}")
        default = enabled[0] if finished else cur
        choice = self.dev.get(i, default)
        if choice not in enabled:
            if self.error is None:
                self.error = Divergence(f"decision {i}: task {choice} not live in {enabled}")
            choice = default
        if i >= HORIZON:
            self.aborting = True
            if self.error is None:
                self.error = RuntimeError(f"scheduling horizon of {HORIZON} decisions exceeded")
        if not finished and choice != cur:
            self.preemptions += 1
        self.trace.append(key + (finished, choice))
        return choice

    # -- one complete execution --------------------------------------------
    def execute(self, jobs, dev=None, expect=None, upto=0):
        """Run the jobs to completion under the schedule `dev` ({decision
        index: task to run}; everything else default).  Returns (trace,
        results); trace[i] = (current, label, live tasks, per-task points
        reached, finished?, choice)."""
        assert os.getpid() == self.pid, "a Scheduler must not cross a fork"
        n = len(jobs)
        self._ensure(n)
        self.jobs = list(jobs) + [None] * (len(self.threads) - n)
        self.results = [None] * n
        self.alive = list(range(n))
        self.steps = [0] * n
        self.trace = []
        self.dev = dev or {}
        self.expect = expect
        self.upto = upto
        self.error = None
        self.aborting = False
        self.preemptions = 0
        self.switches = 0
        self.executions += 1
        sys.setrecursionlimit(RECURSION_LIMIT)
        first = self._decide(None, "start", True)
        self.locks[first].release()
        if not self.done.acquire(timeout=300):
            raise RuntimeError("schedule execution did not complete (hung task)")
        if self.error is not None:
            raise self.error
        if self.dev and max(self.dev) >= len(self.trace):
            raise Divergence(f"schedule has a choice at decision {max(self.dev)} but the "
                             f"execution made only {len(self.trace)} decisions")
        for r in self.results:
            if r[0] != "ret":
                raise RuntimeError(f"task crashed outside the code under test: {r[1:]}")
        return self.trace, [r[1] for r in self.results]


_SCHED = None


def scheduler():
    global _SCHED
    if _SCHED is None or _SCHED.pid != os.getpid():
        _SCHED = Scheduler()
    return _SCHED


# ---------------------------------------------------------------------------
# scheduling points
# ---------------------------------------------------------------------------
def token_lexer(point, first=None, every=None):
    """A CLexer subclass (to be passed as CParser(lexer=...)) whose every
    token() call is a scheduling point (taken *before* the pull).  For very
    long inputs the points can be thinned out: with first=f, every=e only the
    first f pulls and then every e-th pull are points."""
    from pycparser.c_lexer import CLexer

    if first is None:
        class SchedLexer(CLexer):
            def token(self):
                point("token")
                return super().token()
    else:
        class SchedLexer(CLexer):
            _pulls = 0

            def token(self):
                n = self._pulls
                self._pulls = n + 1
                if n < first or n % every == 0:
                    point("token")
                return super().token()

    return SchedLexer


_PYC_DIR = None
_CODE_LABEL = {}


def _label_of(code, only):
    k = (code, only)
    v = _CODE_LABEL.get(k, 0)
    if v == 0:
        global _PYC_DIR
        if _PYC_DIR is None:
            import pycparser

            _PYC_DIR = os.path.dirname(os.path.abspath(pycparser.__file__)) + os.sep
        fn = code.co_filename
        v = None
        if fn.startswith(_PYC_DIR) and (only is None or code.co_name in only):
            v = os.path.basename(fn)[:-3] + "." + code.co_name
        _CODE_LABEL[k] = v
    return v


def with_call_points(fn, point, only=None):
    """Run fn() in the current thread with a scheduling point at every `call`
    event whose code object lives in a pycparser module (optionally only the
    functions named in `only`).  The profile function is not itself profiled,
    so blocking inside `point` is safe."""

    def prof(frame, event, arg):
        if event == "call":
            lab = _label_of(frame.f_code, only)
            if lab is not None:
                point(lab)

    sys.setprofile(prof)
    try:
        return fn()
    finally:
        sys.setprofile(None)


# ---------------------------------------------------------------------------
# scenarios: created inside each process from (module, factory, args)
# ---------------------------------------------------------------------------
# A scenario is any object with
#     name        str
#     ntasks      int
#     job(t)      -> callable job(point) -> observation of task t (fresh
#                    objects on every call: every execution starts from scratch)
#     jobs()      -> [job(t) for every task]
_SCN = {}


def get_scenario(ref):
    ref = (ref[0], ref[1], tuple(ref[2]))
    s = _SCN.get(ref)
    if s is None:
        s = getattr(importlib.import_module(ref[0]), ref[1])(*ref[2])
        s._solo = None
        _SCN[ref] = s
    return s


def solo(scn):
    """Each task's observation and number of scheduling points when it runs
    alone (under the same instrumentation): [(observation, points), ...].

    The table is never computed here: `solo_baseline()` takes every entry in
    its own pristine process before anything else has run (a module- or
    class-level cache would otherwise be in the reference as well), and the
    table travels to the workers with their tasks (`install_solo`)."""
    if scn._solo is None:
        raise RuntimeError(f"{scn.name}: no pristine solo baseline installed")
    return scn._solo


def install_solo(ref, table):
    scn = get_scenario(ref)
    scn._solo = [tuple(x) for x in table]
    return scn


def _solo_work(task):
    ref, t = task
    scn = get_scenario(ref)
    # a scenario may name another job as the REFERENCE of a task (an instance
    # whose output must, by construction, equal that of a simpler one); the
    # observation then comes from the reference, the points from the task
    rj = scn.reference_job(t) if hasattr(scn, "reference_job") else None
    if rj is not None:
        _, res0 = scheduler().execute([rj])
        tr, _ = scheduler().execute([scn.job(t)])
        return (res0[0], len(tr) - 1, [d[1] for d in tr])
    tr, res = scheduler().execute([scn.job(t)])
    return (res[0], len(tr) - 1, [d[1] for d in tr])


def solo_baseline(items):
    """items: [(scenario ref, ntasks)].  Returns ({ref: [(obs, points), ...]},
    unstable) where every task of every scenario ran alone in its own pristine
    process, twice (two processes); unstable lists (ref, task, obs1, obs2) for
    tasks on which the two pristine processes disagree."""
    from . import pristine

    jobs = [(ref, t) for ref, n in items for t in range(n)]
    res = pristine.pristine_map(_solo_work, jobs)
    tables, unstable = {}, []
    for (ref, t), (a, b) in zip(jobs, res):
        tables.setdefault(ref, []).append((a[0], a[1]))
        if a != b:
            unstable.append((ref, t, a[0], b[0]))
    return tables, unstable


def _digest_keys(trace, upto):
    h = hashlib.sha1()
    for d in trace[:upto]:
        h.update(repr(d[:4]).encode())
    return h.hexdigest()[:16]


def _children(trace, start, pre, bound):
    """Child prefixes of an execution: (decision index, alternative, cost)."""
    out = []
    for i in range(start, len(trace)):
        cur, label, enabled, config, finished, choice = trace[i]
        if len(enabled) < 2:
            continue
        cost = pre + (0 if finished else 1)
        if bound is not None and cost > bound:
            continue
        for alt in enabled:
            if alt != choice:
                out.append((i, alt, cost))
    return out


class Summary:
    """What a set of executions showed (mergeable, picklable)."""

    def __init__(self, ntasks):
        self.schedules = 0
        self.decisions = 0
        self.points = 0
        self.switches = 0
        self.max_preemptions = 0
        self.by_preemptions = {}
        self.configs = set()
        self.outcomes = [dict() for _ in range(ntasks)]  # digest -> count
        self.fails = []
        self.interleaved = 0  # executions in which some task ran between two points of another
        self.diverged = 0  # prefixes that did not replay (recorded as failures)

    def merge(self, o):
        self.schedules += o.schedules
        self.decisions += o.decisions
        self.points += o.points
        self.switches += o.switches
        self.max_preemptions = max(self.max_preemptions, o.max_preemptions)
        for k, v in o.by_preemptions.items():
            self.by_preemptions[k] = self.by_preemptions.get(k, 0) + v
        self.configs |= o.configs
        for a, b in zip(self.outcomes, o.outcomes):
            for k, v in b.items():
                a[k] = a.get(k, 0) + v
        self.fails.extend(o.fails)
        self.interleaved += o.interleaved
        self.diverged += o.diverged


def _record(scn, ref, summ, trace, results, dev, bound, oracle):
    from . import obs as O

    summ.schedules += 1
    summ.decisions += len(trace)
    npre = 0
    for d in trace:
        summ.configs.add((d[0], d[3]))
        if not d[4]:
            summ.points += 1
            if d[5] != d[0]:
                npre += 1
    summ.max_preemptions = max(summ.max_preemptions, npre)
    summ.by_preemptions[npre] = summ.by_preemptions.get(npre, 0) + 1
    if npre:
        summ.interleaved += 1
    sol = solo(scn)
    for t, r in enumerate(results):
        dg = O.digest(r)
        summ.outcomes[t][dg] = summ.outcomes[t].get(dg, 0) + 1
        if r != sol[t][0] and len(summ.fails) < 20:
            sig, detail = oracle(scn, t, sol[t][0], r)
            summ.fails.append((sig, {"scenario": list(ref), "bound": bound,
                                     "schedule": sorted(dev.items()),
                                     "preemptions": npre, "task": t}, detail))


def default_oracle(scn, t, exp, got):
    from . import obs as O

    kind = scn.kinds[t] if hasattr(scn, "kinds") else "task"
    return f"interference:{kind}:{O.obs_sig(exp, got)}", \
        f"{scn.name} task {t}: alone -> {O.obs_detail(exp, got)}"


def _cum_digests(trace):
    """cum[k] = digest of the decision keys trace[:k]."""
    h = hashlib.sha1()
    out = [h.hexdigest()[:16]]
    for d in trace:
        h.update(repr(d[:4]).encode())
        out.append(h.hexdigest()[:16])
    return out


def explore_subtree(ref, bound, dev, pre, expect=None, digest=None, summ=None,
                    oracle=default_oracle, budget=None):
    """Execute the schedule `dev` and, depth-first, every schedule below it
    within the preemption bound.  With a budget (a number of executions, never
    a time), the unexplored rest of the DFS stack is returned as a list of
    (deviations, preemptions, digest) pieces for somebody else to continue."""
    scn = get_scenario(ref)
    sch = scheduler()
    if summ is None:
        summ = Summary(scn.ntasks)
    solo(scn)
    stack = [(dict(dev), pre, expect, digest)]
    done = 0
    while stack and (budget is None or done < budget):
        dev, pre, expect, digest = stack.pop()
        start = (max(dev) + 1) if dev else 0
        done += 1
        try:
            trace, results = sch.execute(scn.jobs(), dev, expect, start)
            if digest is not None and _digest_keys(trace, start) != digest:
                raise Divergence(f"prefix {sorted(dev.items())} diverged after crossing the process boundary")
        except Divergence as e:
            # Tasks are deterministic functions of their own input, so a
            # recorded prefix can only fail to replay if what a task does
            # depends on what ran earlier in the process - which is the very
            # interference C13 is about (with a correct harness; the self check
            # and the silent run on the pinned tree vouch for that).  Recorded
            # as a failure; the subtree below this prefix is not explored.
            summ.diverged += 1
            if len(summ.fails) < 20:
                summ.fails.append(("interference:schedule-does-not-replay",
                                   {"scenario": list(ref), "bound": bound, "schedule": sorted(dev.items()),
                                    "preemptions": pre, "task": None, "diverged": True},
                                   f"{scn.name}: a choice prefix recorded in one execution did not replay in a later "
                                   f"one (the number or kind of a task's scheduling points changed): {e}"))
            continue
        _record(scn, ref, summ, trace, results, dev, bound, oracle)
        kids = _children(trace, start, pre, bound)
        for i, alt, cost in reversed(kids):
            d = dict(dev)
            d[i] = alt
            stack.append((d, cost, trace, None))
    rest = []
    cums = {}
    for d, cost, trace, dg in stack:
        if dg is None:
            c = cums.get(id(trace))
            if c is None:
                c = cums[id(trace)] = _cum_digests(trace)
            dg = c[max(d) + 1]
        rest.append((sorted(d.items()), cost, dg))
    return summ, rest


def _subtree_work(task):
    ref, bound, budget, table, pieces = task
    scn = install_solo(ref, table)
    summ = Summary(scn.ntasks)
    rest = []
    for dev, pre, digest in pieces:
        _, r = explore_subtree(ref, bound, dict(dev), pre, None, digest, summ, budget=budget)
        rest.extend(r)
    return summ, rest


NCHUNKS = 128  # pieces per round are grouped into at most this many tasks


def explore(ref, bound, table, budget=400):
    """All schedules of the scenario with <= bound preemptions (None: all
    interleavings).  Returns a Summary.

    `table` is the pristine solo baseline of the scenario (solo_baseline); it
    is shipped with every task.  The parent runs the root execution; its
    children (the first-level choices) are the pieces of round 1.  In every round each piece is explored
    depth-first by a worker process (with its own threads) for at most
    `budget` executions; what is left of its stack comes back as the pieces of
    the next round.  The budget is a count, so the partition - and therefore
    the set of executions - does not depend on timing."""
    scn = install_solo(ref, table)
    summ = Summary(scn.ntasks)
    _, pieces = explore_subtree(ref, bound, {}, 0, summ=summ, budget=1)
    rounds = 0
    while pieces:
        rounds += 1
        per = -(-len(pieces) // NCHUNKS)
        tasks = [(ref, bound, budget, table, pieces[i:i + per]) for i in range(0, len(pieces), per)]
        pieces = []
        for s, rest in core.pmap(_subtree_work, tasks, chunksize=1):
            summ.merge(s)
            pieces.extend(rest)
    summ.rounds = rounds
    summ.fails.sort(key=lambda f: (f[1]["preemptions"], len(f[1]["schedule"]), f[1]["schedule"]))
    return summ


def _confirm_work(task):
    """In a pristine process: the prelude (tasks of other scenarios run alone,
    one after the other), then one schedule.  Returns the tasks whose result
    differs from the solo baseline."""
    ref, table, dev, prelude = task
    for r2, tab2, t2 in prelude:
        scheduler().execute([install_solo(r2, tab2).job(t2)])
    scn = install_solo(ref, table)
    trace, results = scheduler().execute(scn.jobs(), {int(i): int(t) for i, t in dev})
    return [t for t, r in enumerate(results) if r != scn._solo[t][0]]


def confirm(fails, tables):
    """The processes that explore run many executions, so a failure seen there
    may owe something to what the process did earlier (module-level state).
    For the smallest case of every signature look for a self-contained
    reproduction in a pristine process: the schedule alone, else the schedule
    after one task of one of the scenarios has run alone.  The case records
    the prelude it needs, or self_contained: false."""
    from . import pristine

    cands = [[]] + [[(r2, tables[r2], t2)] for r2 in tables for t2 in range(len(tables[r2]))]
    seen, out = set(), []
    for sig, case, detail in fails:
        if sig not in seen and "schedule" in case and not case.get("diverged"):
            seen.add(sig)
            ref = (case["scenario"][0], case["scenario"][1], tuple(case["scenario"][2]))
            res = pristine.pristine_map(
                _confirm_work, [(ref, tables[ref], case["schedule"], pre) for pre in cands], repeat=1)
            case = dict(case, self_contained=False)
            for pre, (bad,) in zip(cands, res):
                if bad:
                    case["prelude"] = [[list(r2), t2] for r2, _, t2 in pre]
                    case["self_contained"] = True
                    if pre:
                        detail += (f" [needs process state: reproduced in a pristine process after task {pre[0][2]} "
                                   f"of scenario {pre[0][0][2][0]!r} ran alone first]")
                    break
        out.append((sig, case, detail))
    return out


# ---------------------------------------------------------------------------
# self checks
# ---------------------------------------------------------------------------
def replay_twice(ref, dev=None):
    """Replay one recorded schedule twice; the decisions and the observations
    must be identical.  Without `dev`, a schedule with two preemptions in the
    middle of the root execution is used."""
    try:
        return _replay_twice(ref, dev)
    except Divergence as e:
        return False, {"schedule": sorted((dev or {}).items()), "diverged": str(e)}


def _replay_twice(ref, dev=None):
    scn = get_scenario(ref)
    sch = scheduler()
    if dev is None:
        root, _ = sch.execute(scn.jobs())
        dev = {}
        cand = [i for i, d in enumerate(root) if not d[4] and len(d[2]) > 1]
        if cand:
            i = cand[len(cand) // 2]
            dev[i] = [t for t in root[i][2] if t != root[i][0]][0]
            tr, _ = sch.execute(scn.jobs(), dev, root, i + 1)
            cand2 = [j for j, d in enumerate(tr) if j > i and not d[4] and len(d[2]) > 1]
            if cand2:
                j = cand2[len(cand2) // 2]
                dev[j] = [t for t in tr[j][2] if t != tr[j][0]][0]
    t1, r1 = sch.execute(scn.jobs(), dev)
    t2, r2 = sch.execute(scn.jobs(), dev, t1, len(t1))
    return t1 == t2 and r1 == r2, {"schedule": sorted(dev.items()), "decisions": len(t1)}


class _ToyScenario:
    """Two tasks doing a read / scheduling point / write on one shared cell:
    the classic lost update, visible only if a task is preempted between its
    read and its write."""

    def __init__(self, shared):
        self.name = "toy-shared" if shared else "toy-private"
        self.ntasks = 2
        self.shared = shared
        self.kinds = ["toy", "toy"]

    def jobs(self):
        cell = {"v": 0}
        cells = [cell, cell] if self.shared else [{"v": 0}, {"v": 0}]

        def mk(t):
            def job(point):
                c = cells[t]
                point("a")
                x = c["v"]
                point("b")
                c["v"] = x + 1
                point("c")
                return ("text", str(c["v"]))

            return job

        self._made = [mk(0), mk(1)]
        return self._made

    def job(self, t):
        return self.jobs()[t]


def toy_scenario(shared):
    return _ToyScenario(bool(shared))


def selfcheck():
    """The explorer must: stay silent on tasks with private state at any
    bound; stay silent on the shared cell with 0 preemptions... no - with 0
    preemptions the second task already sees the first one's write, so it must
    FIND the interference there too; enumerate exactly C(8,4)=70 interleavings
    of two 4-block tasks with bound=None and 2 with bound 0; replay
    deterministically."""
    priv = ("mc.sched", "toy_scenario", (0,))
    shar = ("mc.sched", "toy_scenario", (1,))
    for r in (priv, shar):
        # the toys run no pycparser code: their solo results may be taken here
        sc = get_scenario(r)
        sc._solo = []
        for t in range(2):
            tr, res = scheduler().execute([sc.job(t)])
            sc._solo.append((res[0], len(tr) - 1))
    a = explore_subtree(priv, None, {}, 0)[0]
    b0 = explore_subtree(priv, 0, {}, 0)[0]
    b1 = explore_subtree(priv, 1, {}, 0)[0]
    s = explore_subtree(shar, None, {}, 0)[0]
    # the budgeted, resumable exploration must enumerate the same schedules
    part, rest = explore_subtree(priv, None, {}, 0, budget=7)
    while rest:
        dv, pr, dg = rest.pop()
        _, more = explore_subtree(priv, None, dict(dv), pr, None, dg, part, budget=5)
        rest.extend(more)
    ok = a.schedules == 70 and not a.fails and b0.schedules == 2
    ok = ok and part.schedules == 70 and part.configs == a.configs
    # <=1 preemption: 2 serial orders + one preemption at any of 3 points of
    # the first task (then the other runs to its end, then back) x 2
    ok = ok and b1.schedules == 2 + 2 * 3 and b1.max_preemptions == 1
    ok = ok and len(s.fails) > 0 and s.schedules == 70
    ok = ok and all(len(o) == 1 for o in a.outcomes) and any(len(o) > 1 for o in s.outcomes)
    ok = ok and replay_twice(shar)[0]
    # a wrong recorded prefix must be refused
    sch = scheduler()
    scn = get_scenario(priv)
    root, _ = sch.execute(scn.jobs())
    bad = [(d[0], "other", d[2], d[3]) + d[4:] for d in root]
    try:
        sch.execute(scn.jobs(), {1: 1}, bad, 2)
        ok = False
    except Divergence:
        pass
    return bool(ok)

"""Grammar DP (DESIGN 3.G): Lang(X, n) = the set of n-token sentences of
nonterminal X of a context-free grammar given as data, for all n <= N.

    prods : dict  nonterminal -> list of right-hand sides (tuples of symbols)
            a symbol that is a key of prods is a nonterminal, `X?` is X_opt,
            the empty tuple is an epsilon production, anything else a terminal.

normalise()  expands `X?`, eliminates epsilon productions (nullable-set
             construction), drops `X -> X`, removes unproductive and (given
             roots) unreachable nonterminals.
Table        fills the cells (X, n) bottom-up in n.  After normalisation every
             symbol derives at least one token, so a right-hand side with >= 2
             symbols only needs cells with smaller n (this is what makes left
             recursion harmless); unit productions X -> Y need the cell (Y, n)
             of the same n and are applied in a topological order of the unit
             graph (asserted acyclic).

Sentences are stored as Python strings with one character per terminal symbol
(compact and fast to concatenate); Table.decode() gives the symbol tuple.
Everything is deterministic: cells are exposed as sorted lists.
"""
from __future__ import annotations


def is_opt(sym):
    return len(sym) > 1 and sym.endswith("?")


def normalise(prods, roots=None):
    """-> (prods', report).  prods' has no `?`, no epsilon, no X -> X."""
    g = {k: [tuple(r) for r in v] for k, v in prods.items()}
    # 1. X? -> fresh nonterminal  X? : X | epsilon
    opts = set()
    for v in g.values():
        for r in v:
            for s in r:
                if is_opt(s):
                    opts.add(s)
    for o in sorted(opts):
        assert o not in g
        g[o] = [(o[:-1],), ()]
    # 2. nullable set
    nullable = set()
    changed = True
    while changed:
        changed = False
        for k, v in g.items():
            if k in nullable:
                continue
            for r in v:
                if all(s in nullable for s in r):
                    nullable.add(k)
                    changed = True
                    break
    # 3. expand: every subset of nullable occurrences may be omitted
    out = {}
    for k, v in g.items():
        acc = []
        seen = set()
        for r in v:
            variants = [()]
            for s in r:
                if s in nullable:
                    variants = [x + (s,) for x in variants] + variants
                else:
                    variants = [x + (s,) for x in variants]
            for x in variants:
                if not x or x == (k,):
                    continue
                if x not in seen:
                    seen.add(x)
                    acc.append(x)
        out[k] = acc
    # 4. inline the X? helpers (they are now `X? : X`)
    for o in opts:
        base = o[:-1]
        for k in out:
            out[k] = [tuple(base if s == o else s for s in r) for r in out[k]]
        del out[o]
    for k in out:  # de-duplicate after inlining
        seen, acc = set(), []
        for r in out[k]:
            if r not in seen and r != (k,):
                seen.add(r)
                acc.append(r)
        out[k] = acc
    # 5. productive nonterminals
    productive = set()
    changed = True
    while changed:
        changed = False
        for k, v in out.items():
            if k in productive:
                continue
            for r in v:
                if all((s not in out) or (s in productive) for s in r):
                    productive.add(k)
                    changed = True
                    break
    unproductive = sorted(set(out) - productive)
    out = {
        k: [r for r in v if all((s not in unproductive) for s in r)]
        for k, v in out.items()
        if k in productive
    }
    # 6. reachable from the roots
    unreachable = []
    if roots is not None:
        reach = set()
        todo = [r for r in roots]
        while todo:
            x = todo.pop()
            if x in reach or x not in out:
                continue
            reach.add(x)
            for r in out[x]:
                todo.extend(s for s in r if s in out)
        unreachable = sorted(set(out) - reach)
        out = {k: v for k, v in out.items() if k in reach}
    report = {
        "nullable": sorted(nullable),
        "unproductive": unproductive,
        "unreachable": unreachable,
        "nonterminals": len(out),
        "productions": sum(len(v) for v in out.values()),
    }
    return out, report


def reachable(prods, root):
    reach, todo = set(), [root]
    while todo:
        x = todo.pop()
        if x in reach or x not in prods:
            continue
        reach.add(x)
        for r in prods[x]:
            todo.extend(s for s in r if s in prods)
    return reach


def unit_order(prods):
    """Topological order of the nonterminals w.r.t. unit productions
    (X -> Y puts Y before X).  Raises on a unit cycle."""
    deps = {k: sorted({r[0] for r in v if len(r) == 1 and r[0] in prods}) for k, v in prods.items()}
    order, state = [], {}

    def visit(x, path):
        st = state.get(x)
        if st == 2:
            return
        if st == 1:
            raise ValueError("unit cycle: " + " -> ".join(path + [x]))
        state[x] = 1
        for y in deps[x]:
            visit(y, path + [x])
        state[x] = 2
        order.append(x)

    for k in sorted(prods):
        visit(k, [])
    return order


class Table:
    """Lang(X, n) for n <= need[X] (need: nonterminal -> bound)."""

    def __init__(self, prods, need):
        self.prods = prods
        self.need = dict(need)
        terms = sorted({s for v in prods.values() for r in v for s in r if s not in prods})
        assert len(terms) < 200
        self.code = {t: chr(0x30 + i) for i, t in enumerate(terms)}
        self.sym = {c: t for t, c in self.code.items()}
        self.cells = {}  # (X, n) -> set of encoded sentences
        self.transitions = 0  # production instances combined
        self.order = unit_order(prods)
        self.nmax = max(self.need.values()) if self.need else 0
        self._fill()

    # -- construction -------------------------------------------------------
    def _get(self, s, n):
        if s in self.prods:
            return self.cells.get((s, n), ())
        return (self.code[s],) if n == 1 else ()

    def _fill(self):
        prods, cells = self.prods, self.cells
        for n in range(1, self.nmax + 1):
            # (a) right-hand sides with >= 2 symbols: smaller cells only
            for X in self.order:
                if self.need.get(X, 0) < n:
                    continue
                acc = set()
                for r in prods[X]:
                    k = len(r)
                    if k == 1:
                        if r[0] not in prods and n == 1:
                            acc.add(self.code[r[0]])
                            self.transitions += 1
                        continue
                    if k > n:
                        continue
                    # prefixes[j] = sentences of r[:i] with j tokens
                    prefixes = {0: ("",)}
                    for i, s in enumerate(r):
                        rest = k - i - 1  # symbols still to come, >= 1 token each
                        nxt = {}
                        for j, pre in prefixes.items():
                            hi = n - j - rest
                            if i == k - 1:
                                lens = (hi,) if hi >= 1 else ()
                            else:
                                lens = range(1, hi + 1)
                            for m in lens:
                                part = self._get(s, m)
                                if not part:
                                    continue
                                tgt = nxt.get(j + m)
                                if tgt is None:
                                    tgt = nxt[j + m] = []
                                if len(pre) == 1 and pre[0] == "":
                                    tgt.extend(part)
                                else:
                                    tgt.extend([p + q for p in pre for q in part])
                        prefixes = nxt
                        if not prefixes:
                            break
                    got = prefixes.get(n)
                    if got:
                        self.transitions += len(got)
                        acc.update(got)
                if acc:
                    cells[(X, n)] = acc
            # (b) unit productions, dependencies first
            for X in self.order:
                if self.need.get(X, 0) < n:
                    continue
                for r in prods[X]:
                    if len(r) == 1 and r[0] in prods:
                        src = cells.get((r[0], n))
                        if src:
                            assert self.need.get(r[0], 0) >= n
                            self.transitions += len(src)
                            cur = cells.get((X, n))
                            if cur is None:
                                cells[(X, n)] = set(src)
                            else:
                                cur.update(src)

    # -- access -------------------------------------------------------------
    def lang(self, X, n):
        """Sorted list of the encoded n-token sentences of X."""
        return sorted(self.cells.get((X, n), ()))

    def decode(self, enc):
        return tuple(self.sym[c] for c in enc)

    def states(self):
        return sum(1 for v in self.cells.values() if v)

    def count(self, X, upto=None):
        upto = self.need[X] if upto is None else upto
        return sum(len(self.cells.get((X, n), ())) for n in range(1, upto + 1))


def needs(prods, targets):
    """targets: nonterminal -> N.  Every nonterminal reachable from a target
    must be tabulated up to that target's N."""
    need = {}
    for t, n in targets.items():
        for x in reachable(prods, t):
            if need.get(x, 0) < n:
                need[x] = n
    return need

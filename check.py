#!/venv/bin/python
"""check.py <ID> [--tier quick|thorough] | <ID> --replay <path> | setup

Runs one bounded-exhaustive check against the working tree of pycparser
(VERIF_REPO, default /repo).  Exit 0: the property held on everything explored
(or only listed known findings were hit); exit 1 + 'VIOLATION property=<id>
replay=<path>' otherwise.
"""
import argparse
import importlib
import json
import os
import sys

HERE = os.path.dirname(os.path.abspath(__file__))
sys.path.insert(0, HERE)

from mc import core  # noqa: E402


def main() -> int:
    ap = argparse.ArgumentParser()
    ap.add_argument("id")
    ap.add_argument("--tier", default=os.environ.get("VERIF_TIER", "quick"),
                    choices=["quick", "thorough"])
    ap.add_argument("--replay")
    a = ap.parse_args()
    if a.id == "setup":
        # nothing to build: pure Python, imported from the tree under test
        core.bootstrap()

        print("setup ok")
        return 0
    core.bootstrap()
    pid = a.id.upper()
    mod = importlib.import_module(f"checks.{pid.lower()}")
    if a.replay:
        with open(a.replay) as f:
            rep = json.load(f)
        return mod.replay(rep)
    return mod.run(a.tier)


if __name__ == "__main__":
    try:
        rc = main()
    except SystemExit:
        raise
    except BaseException:  # a crash of the harness is not a verdict: exit 2, never 1
        import traceback

        traceback.print_exc()
        sys.stdout.flush()
        sys.stderr.flush()
        os._exit(2)
    sys.stdout.flush()
    os._exit(rc)

#!/venv/bin/python
"""Regenerates /verif/MANIFEST.json from the table below (single source)."""
import json
import os

HERE = os.path.dirname(os.path.dirname(os.path.abspath(__file__)))
PY = "/venv/bin/python /verif/check.py"

# id -> (category, technique, level text, level note, design ref, engine)
CHECKS = {
    "C01": (
        "model_checking",
        "exhaustive enumeration of all sentences <= N tokens of a C99 Annex-A grammar model (dynamic programming over nonterminal x length), each replayed on the real parser in every syntactic frame; rejections cross-checked with gcc",
        "Every sentence of the transcribed C99/C11 grammar up to N tokens per nonterminal, placed in every frame where the nonterminal may occur, plus every single-position vocabulary substitution, is parsed by the real CParser; each is valid by construction so each must be accepted.",
        "Bounded by sentence length N per nonterminal; the model excludes constraint-violating specifier combinations that pycparser diagnoses on purpose; typedef-name rule made static (one typedef name T). A rejection counts only if gcc reports no syntax error for the same text.",
        "DESIGN.md §3.G, §4.4, §5 C01", "gramdp"),
    "C02": (
        "model_checking",
        "exhaustive enumeration of all expression trees <= k operator nodes of a reference expression model (render + expected AST), each rendering replayed on the real parser; renderer audited with gcc _Static_assert",
        "Every expression tree with up to k operator nodes over all C operators, in three parenthesisation modes and ten expression contexts, is rendered from C99's grammar levels, parsed by the real parser and compared with the AST the model computes independently.",
        "Bounded by operator count k; leaves are position-distinct identifiers/constants; the model's precedence knowledge is bound to gcc by a _Static_assert audit of constant-evaluable trees.",
        "DESIGN.md §3.B, §4.5, §5 C02", "tree-models"),
    "C03": (
        "model_checking",
        "exhaustive enumeration of all declarator derivation sequences <= L (x contexts x base specifiers x parenthesisation), multi-declarator pairs, specifier orderings, struct/enum bodies, initialisers and K&R definitions of a reference declaration model, each replayed on the real parser; model audited with gcc __builtin_types_compatible_p",
        "Every derivation sequence up to length L over pointer/array/function variants in ten declaration contexts (named and abstract, plain and redundantly parenthesised, four base specifier shapes), every pair in multi-declarator lists, every legal specifier ordering, struct/union/enum bodies, designated initialisers, K&R definitions and the _Atomic(T) == _Atomic T differential are parsed by the real parser and compared with the chain the model derives from C99 6.7.5.",
        "Bounded by sequence length, member/specifier list length and initialiser depth. Only semantically possible types are generated. The model's reading of 6.7.5 is audited against gcc with one-derivation-per-typedef chains.",
        "DESIGN.md §3.B, §4.6, §5 C03", "tree-models"),
    "C04": (
        "model_checking",
        "breadth-first exploration of all declaration/scope event histories <= L over two names with a reference scope-stack state machine; every history x probe replayed on the real parser",
        "Every valid history of up to L scope/declaration events over two names (nesting depth <= 2) is generated from a reference scope stack; after every history each name is probed with four ambiguous statements and the real parser's classification (declaration/cast/type operand vs expression) must match the reference.",
        "Bounded by history length, two names, depth 2. Besides the declaration/scope events the histories contain statements whose parsing opens scopes of its own or looks one token ahead (for-declarations, if without else, switch, statement expression), K&R and abstract-parameter definition spellings; sub-checks: typedef-named labels in every sub-statement position, own-initializer visibility, enumerator own-value visibility; a declarator-list family (2-4 declarators, 7 introducing shapes).",
        "DESIGN.md §3.H, §4.7, §5 C04", "history-bfs"),
    "C05": (
        "model_checking",
        "exhaustive enumeration of all statement trees to depth d of a reference statement model (incl. every single pragma insertion and all short switch bodies), each replayed on the real parser against the model's expected AST",
        "Every statement tree up to the depth bound over the full statement alphabet, every switch body up to the length bound, and every single pragma insertion at a statement boundary is rendered, parsed by the real parser and compared with the AST the model computes (dangling else, case regrouping, pragma wrapping, for-init declaration lists).",
        "Bounded by tree depth / switch-body length; buried case labels are treated as opaque (the property does not decide them); _Static_assert's ';' convention follows the repository's own test.",
        "DESIGN.md §3.B, §4.7, §5 C05", "tree-models"),
    "C06": (
        "model_checking",
        "stateless exhaustive exploration of the real parser with the lexer as environment (all token strings <= N, exact unread-suffix reduction), plus exhaustive 1-edit and character-string enumeration",
        "Every token string up to the bound over the full token vocabulary, in six syntactic contexts, is executed on the real CParser (strings sharing an unread suffix are decided together by an exact reduction that is itself checked mechanically); every single-token edit of the small corpus files and every character string up to the bound are executed too. The outcome of every execution must be FileAST or a located ParseError.",
        "Bounded: token strings <= N after a context prefix, the vocabulary's spellings, strings <= L over 20 characters; longer inputs only as 1-edit neighbourhoods of corpus files. RecursionError tolerated as the property says.",
        "DESIGN.md §3.A, §5 C06", "tokex"),
    "C07": (
        "exploration",
        "exhaustive sweep of a bounded program pool (all accepted token strings <= N per context from TokEx, reference-model sentences, corpus and its accepted 1-token edits) through parse/generate/parse",
        "Every program of the bounded, deterministic pool is parsed, regenerated with both generator configurations, re-parsed and compared structurally (slots, not children()), and regenerated again (fixed point). Exhaustive inside the pool bounds.",
        "Pool bounds: token strings <= N after six context prefixes, model sentences at the tier's depth, corpus files and their 1-token edits. AST equality ignores coordinates only.",
        "DESIGN.md §4.9, §5 C07", "pool"),
    "C08": (
        "exploration",
        "exhaustive enumeration of a typed (type-correct by construction) program model; gcc -S of original vs regenerated text as per-case oracle, failing batches bisected exhaustively, failures attributed to minimal feature sets",
        "Every typed expression term up to k operators, every typed statement tree to depth 2, every declarator derivation sequence with sizeof probes and a table of declaration forms is compiled with gcc before and after a trip through parse+CGenerator; the assembly texts must be identical.",
        "gcc 12 output at -O0 (thorough: also -O1) with .file/.ident/nop lines dropped is taken as the program's meaning; both texts are laid out one token per line. Programs outside the typed model (floating point semantics, VLAs, ...) are not covered.",
        "DESIGN.md §3.T, §4.8, §5 C08", "typed-gcc"),
    "C09": (
        "model_checking",
        "exhaustive enumeration of all token pairs/triples x separators x directive placements against a hand-written C99 reference lexer and layout model, plus all character strings <= L with model-free progress/position invariants, replayed on the real CLexer",
        "Every ordered pair over a 178-token vocabulary under every separator (incl. the empty one, where the reference re-tokenises the paste), every directive form in every gap, both type-lookup answers, and every character string up to L over 20 characters are lexed by the real lexer and compared with the reference scanner's tokens, classes, logical lines/columns and file names.",
        "Bounded by pair/triple length and string length. Position and gap rules are evaluated up to the first error report, as the property promises positions only for valid token sequences.",
        "DESIGN.md §3.C, §4.2, §4.3, §5 C09", "lexref"),
    "C10": (
        "model_checking",
        "exhaustive enumeration of all strings <= L over a 17-character literal alphabet (plus suffix/escape tables) against a three-valued hand-written C99 literal grammar, replayed on the real lexer and parser",
        "Every string up to L over the literal alphabet, alone and followed by a blank or ';', every integer body x suffix spelling, float body x suffix, escape body x prefix is classified by the reference (must-accept / must-reject / don't-care) and lexed by the real lexer; every must-accept literal also goes through the parser to check Constant.value/type.",
        "Bounded by string length; the lenient zone pycparser documents (extra escape letters, decimal escapes, pp-numbers split into two tokens) is don't-care and never raises an alarm.",
        "DESIGN.md §4.2, §5 C10", "lexref"),
    "C11": (
        "model_checking",
        "exhaustive enumeration of every pool program x 3 layouts x a linemarker in every gap, rendered by a layout model that records every token's position and logical file/line; every AST coordinate and every injected-illegal-character error location replayed on the real parser and checked against that table",
        "For every distinct token sequence of the bounded pool, in three base layouts and with a file+line changing linemarker inserted at every gap, every coordinate of the AST must be the start of a real token under the logical file/line in force there (exact spelling token for identifiers, constants, declared names, enumerators, labels), listed node classes must carry a coordinate, and every single illegal-character injection must be reported at exactly its logical position.",
        "Bounded pool (programs <= 30/60 tokens), single linemarker per variant; 'inside the construct' is checked only as 'a real token with the right logical position' for model-free programs.",
        "DESIGN.md §4.3, §5 C11", "lexref"),
    "C12": (
        "model_checking",
        "exhaustive breadth-first exploration of all operation histories <= n on real CParser / CLexer / CGenerator objects, each history replayed on a fresh object and compared call-by-call with fresh-instance results; canonical object states counted",
        "Every sequence of up to n parse calls over 24 operations chosen one per way of leaving state behind, every (input, k tokens, input) lexer chain and every sequence of generator visits is executed on one reused object; each result must equal a fresh instance's and ASTs must share no nodes.",
        "Bounded by history length and the operation alphabet; object states are only counted (never merged).",
        "DESIGN.md §3.H, §5 C12", "history-bfs"),
    "C13": (
        "model_checking",
        "stateless schedule exploration with preemption bounding (CHESS-style) of 2-3 concurrent parses/generations under a cooperative thread-baton scheduler, switch points at every token pull and at every call into pycparser",
        "All schedules with up to b preemptions of two or three parsers/generators/visitors on clashing programs (switch points at token pulls through the public lexer= seam and at every call event into pycparser), and all interleavings of the smallest pair, are executed on the real code; every task's result must equal its solo result.",
        "Cooperative scheduling only (no bytecode-level preemption, no free-running OS threads); bounded by preemption count and program size.",
        "DESIGN.md §3.S, §5 C13", "sched"),
    "C14": (
        "exploration",
        "exhaustive configuration sweep over all 49 node classes of _c_ast.cfg (every subset of optional children, sequences of length 0-2) against an independent reader of the specification and a module regenerated in memory, plus every pool AST under instrumented visitors",
        "Every node class is instantiated in every configuration of present/absent children; slots, constructor order, attr_names, children(), iteration are compared with an independent reading of the specification and with a freshly generated module; on every pool AST generic traversal, visit_X interception and show() line counts are checked.",
        "The class space is finite and covered completely; tree-level claims hold for the bounded pool.",
        "DESIGN.md §5 C14", "sweep"),
    "C15": (
        "exploration",
        "exhaustive sweep of every pool AST, every string/char constant body <= 3 over 7 characters and every C14 configuration through repr/eval, pickle (all protocols >= 2) and deepcopy",
        "Every AST of the bounded pool and every hand-built constant/configuration is rebuilt through repr/eval, pickle and deepcopy and compared structurally (with coordinates for pickle/deepcopy), by generated text, by node identity and under mutation of the copy.",
        "Bounded pool; constant bodies <= 3 characters.",
        "DESIGN.md §5 C15", "sweep"),
    "C16": (
        "exploration",
        "exhaustive sweep of a construct catalogue: every repeatable construct (also with distinct names per item) and every nestable construct alone, and every ordered pair of nestable constructs nested alternately, at doubling sizes; five deterministic cost counters (parser calls, all Python calls, calls of one function, bulk-container items moved by builtins, executed lines of one function) plus child-process timing for work none of them sees; CPU-time families for every lexer regex and directive form",
        "For every family of the catalogue (68 repeatable, 60 nestable constructs and all 3600 ordered pairs) the parser's deterministic step count is measured at doubling sizes and the marginal cost must not grow (s(4k)-s(2k) <= 2.5 (s(2k)-s(k))); 66 adversarial lexer families are timed with wide margins. Every family member must be accepted.",
        "Bounded by the catalogue and the largest size run; the evidence names the counter that decided each bad family; two open known findings are narrowed to the input families they were seen on; lexer part uses CPU time with wide margins and re-measures alone before it counts.",
        "DESIGN.md §3.F, §5 C16", "family"),
    "C17": (
        "exploration",
        "exhaustive sweep of every pool program x every whole-layout variant and every single-gap deviation (4 separators, 3 directive forms; pairs in thorough), and of every expression-model tree x every single redundant parenthesis pair",
        "Every distinct token sequence of the bounded pool is re-laid out in every single-gap way (newline, tab, blanks, mixed, linemarker, #line with and without file) and in whole-layout variants; every expression-model tree gets one redundant pair of parentheses at every non-comma position. Canonical AST (no coordinates) and regenerated text must equal the default layout's.",
        "Bounded pool (programs <= 40/80 tokens plus small corpus files); pairs of deviations only in the thorough tier.",
        "DESIGN.md §5 C17", "lexref"),
    "C19": (
        "exploration",
        "exhaustive configuration sweep: every fake libc header x 4 dialects x both cpp_args forms through parse_file, all-in-one in both orders, every typedef name used as a type (thorough: all ordered header pairs)",
        "Every header found under utils/fake_libc_include is included alone in a generated file and run through pycparser.parse_file(use_cpp=True) under -std=c99/c11/gnu99/gnu11 with cpp_args as a string and as a list; all headers together in directory order and reversed; a unit declaring an object of every typedef name of _fake_typedefs.h. The result must equal preprocessing and parsing by hand.",
        "The grid is finite and covered completely; ordered pairs of headers only in the thorough tier; the system cpp (gcc 12) is trusted.",
        "DESIGN.md §5 C19", "sweep"),
    "C18": (
        "model_checking",
        "TokEx invariant 'accepted => brackets balanced' on every explored token string (full vocabulary and a bracket-heavy vocabulary to a deeper bound), plus exhaustive single-bracket mutations and non-token injections of every pool program",
        "Every token string up to N (full vocabulary, six contexts) and up to a larger N over a bracket-heavy vocabulary in expression/declarator/statement contexts is executed on the real parser: an accepted string must be bracket-balanced by a reference stack matcher. Every pool program x every single bracket deletion/duplication/kind swap and x every non-token text at every gap must raise ParseError.",
        "Bounded by N and by the pool; brackets inside literals/pragma text do not occur in the explored vocabulary.",
        "DESIGN.md §5 C18", "tokex"),
}

PENDING = {
}

ALL = [f"C{i:02d}" for i in range(1, 20)]
ENABLED = [f"C{i:02d}" for i in range(1, 20)]


def main():
    checks = []
    for pid in ALL:
        if pid not in CHECKS or pid not in ENABLED:
            continue
        cat, tech, text, note, ref, eng = CHECKS[pid]
        checks.append(
            {
                "property_id": pid,
                "quick_cmd": f"{PY} {pid} --tier quick",
                "thorough_cmd": f"{PY} {pid} --tier thorough",
                "evidence_file": f"/verif/evidence/{pid}.json",
                "replay_cmd_template": f"{PY} {pid} --replay {{path}}",
                "engine": eng,
                "level_claimed": {"category": cat, "text": text, "design_ref": ref},
                "level_note": note,
                "technique": tech,
            }
        )
    na = [
        {"property_id": pid, "reason": PENDING.get(pid, "check not built yet in this revision of /verif (planned in DESIGN.md §5); not claimed until it runs")}
        for pid in ALL
        if pid not in CHECKS or pid not in ENABLED
    ]
    m = {
        "version": 1,
        "setup_cmd": f"{PY} setup",
        "hooks": {
            "guard": "PYCPARSER_VERIF",
            "enable": "no hooks: checks import pycparser from /repo's working tree (VERIF_REPO) and use only public seams (CParser(lexer=...), CLexer callbacks, sys.setprofile)",
            "baseline_off_cmd": "cd /repo && /venv/bin/python -m pytest -ra -q -p no:cacheprovider --timeout=900 --continue-on-collection-errors",
            "source_commits": [],
            "add_only": True,
        },
        "engines": [
            {"name": "tokex", "path": "/verif/mc/tokex.py", "serves_properties": ["C06", "C18", "C07", "C11", "C15", "C17"],
             "kind_free_text": "stateless BFS over token strings on the real parser, environment = lexer answers, exact unread-suffix reduction"},
            {"name": "tree-models", "path": "/verif/models/", "serves_properties": ["C02", "C03", "C05", "C08"],
             "kind_free_text": "bounded enumeration of reference-model terms (render + expected AST), every term replayed on the real parser"},
            {"name": "gramdp", "path": "/verif/mc/gramdp.py", "serves_properties": ["C01"],
             "kind_free_text": "dynamic programming enumeration of all sentences <= N of a grammar model"},
            {"name": "history-bfs", "path": "/verif/mc/hist.py", "serves_properties": ["C04", "C12"],
             "kind_free_text": "BFS over operation/event histories replayed on fresh real objects"},
            {"name": "sched", "path": "/verif/mc/sched.py", "serves_properties": ["C13"],
             "kind_free_text": "deviation-bounded DFS over schedules with a thread-baton cooperative scheduler"},
            {"name": "lexref", "path": "/verif/models/lexref.py", "serves_properties": ["C09", "C10", "C11", "C17"],
             "kind_free_text": "hand-written three-valued C99 reference lexer + layout model"},
            {"name": "family", "path": "/verif/mc/family.py", "serves_properties": ["C16"],
             "kind_free_text": "deterministic cost functions (call-event counts via sys.monitoring) over scalable input families"},
            {"name": "pool", "path": "/verif/mc/progpool.py", "serves_properties": ["C07", "C11", "C14", "C15", "C17", "C18"],
             "kind_free_text": "bounded deterministic program pool: TokEx-accepted strings, model sentences, corpus and its accepted 1-token edits"},
            {"name": "sweep", "path": "/verif/checks/", "serves_properties": ["C14", "C15", "C19"],
             "kind_free_text": "exhaustive configuration sweeps over finite spaces"},
            {"name": "typed-gcc", "path": "/verif/models/typed_model.py", "serves_properties": ["C08", "C01"],
             "kind_free_text": "typed program model with gcc as per-case oracle"},
        ],
        "checks": checks,
        "not_applicable": na,
        "notes": "All checks are bounded exhaustive enumerations executed on the real code from /repo's working tree; nothing that decides a verdict is sampled. See DESIGN.md.",
    }
    with open(os.path.join(HERE, "MANIFEST.json"), "w") as f:
        json.dump(m, f, indent=1)
    print("MANIFEST.json:", len(checks), "checks,", len(na), "not claimed")


if __name__ == "__main__":
    main()

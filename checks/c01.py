"""C01 - every valid C99 / supported-C11 translation unit is accepted.

Grammar DP (DESIGN 3.G) over models/c99_grammar.py: every sentence of the
listed nonterminals up to N tokens, placed in every frame where the nonterminal
may occur, plus the single-position vocabulary substitutions.  Every text must
be accepted by CParser().parse.  A rejected text is a violation unless gcc
reports a *syntax* diagnostic for it (then the model is in doubt, the text is
listed under model_doubts and dropped).
"""
from __future__ import annotations

import os
import re
import subprocess
import sys

from mc import core, gramdp
from models import c99_grammar as G

PID = "C01"
P = "typedef int T; "  # the static typedef-name rule: T is the typedef name
F = P + "void f(void) { "  # inside a function body

# nonterminal -> frames (prefix, suffix); the first one is the primary frame
# (used for the substitution sweep)
FRAMES = {
    "translation-unit": [
        ("file", P, ""),
    ],
    "external-declaration": [
        ("file", P, ""),
        ("between", P + "int b; ", " int c;"),
        ("after-fndef", P + "void g(void) { } ", " void h(void) { }"),
    ],
    "declaration": [
        ("file", P, ""),
        ("block", F, " }"),
        ("block-after-stmt", F + "; ", " a; }"),
        ("for-init", F + "for ( ", " ; ) ; }"),
        ("nested-block", F + "if (a) { ", " } }"),
    ],
    "ordinary-declaration": [
        ("K&R-list", P + "int f(a) ", " { }"),
        ("K&R-list-2nd", P + "int f(a, b) int b; ", " { }"),
    ],
    "struct-declaration": [
        ("struct-body", P + "struct S { ", " };"),
        ("struct-body-mid", P + "struct S { int b; ", " int c; };"),
        ("union-body", P + "union S { ", " } v;"),
        ("body-in-type-name", P + "int v = sizeof(struct { ", " });"),
        ("nested-body", P + "struct S { struct { ", " } b; };"),
    ],
    "enumerator-list": [
        ("enum-body", P + "enum E { ", " };"),
        ("enum-body-comma", P + "enum { ", " , } e;"),
        ("enum-in-cast", F + "(enum { ", " }) 1; }"),
        ("enum-in-param", P + "void f(enum E { ", " } e);"),
    ],
    "parameter-type-list": [
        ("prototype", P + "void f( ", " );"),
        ("definition", P + "void f( ", " ) { }"),
        ("pointer-to-function", P + "void (*f)( ", " );"),
        ("abstract-in-sizeof", P + "int v = sizeof(int (*)( ", " ));"),
        ("abstract-in-param", P + "void f(int ( ", " ));"),
        ("member", P + "struct S { int (*m)( ", " ); };"),
    ],
    "declarator": [
        ("file", P + "int ", " ;"),
        ("first-of-two", P + "int ", " , b;"),
        ("second-of-two", P + "int b, ", " ;"),
        ("initialised", P + "T ", " = { 1 };"),
        ("parameter", P + "void f(int ", " );"),
        ("member", P + "struct S { int ", " ; };"),
        ("bit-field", P + "struct S { int ", " : 1; };"),
        ("block", F + "int ", " ; }"),
        ("for-init", F + "for (int ", " ; ; ) ; }"),
        ("paren", P + "int ( ", " );"),
    ],
    "abstract-declarator": [
        ("parameter", P + "void f(int ", " );"),
        ("parameter-T", P + "void f(T ", " , int);"),
        ("sizeof", P + "int v = sizeof(int ", " );"),
        ("cast", F + "(int ", " ) a; }"),
        ("paren", P + "void f(int ( ", " ));"),
    ],
    "type-name": [
        ("sizeof", P + "int v = sizeof( ", " );"),
        ("cast", F + "( ", " ) a; }"),
        ("compound-literal", F + "( ", " ){ 1 }; }"),
        ("_Alignof", P + "int v = _Alignof( ", " );"),
        ("_Alignas", P + "_Alignas( ", " ) int v;"),
        ("cast-in-bound", P + "int v[( ", " ) 1];"),
    ],
    "initializer": [
        ("file", P + "int v = ", " ;"),
        ("block", F + "int v = ", " ; }"),
        ("list-only", P + "int v[] = { ", " };"),
        ("list-middle", P + "int v[] = { 1, ", " , 1 };"),
        ("list-trailing-comma", P + "int v[] = { ", " , };"),
        ("designated-index", P + "int v[] = { [0] = ", " };"),
        ("designated-member", P + "struct S v = { .m = ", " };"),
        ("compound-literal", F + "(T){ ", " }; }"),
        ("second-declarator", P + "int b = 1, v = ", " ;"),
    ],
    "statement": [
        ("block", F, " }"),
        ("if-then", F + "if (a) ", " }"),
        ("if-then-else", F + "if (a) ", " else ; }"),
        ("else", F + "if (a) ; else ", " }"),
        ("while-body", F + "while (a) ", " }"),
        ("do-body", F + "do ", " while (a); }"),
        ("for-body", F + "for (;;) ", " }"),
        ("switch-body", F + "switch (a) ", " }"),
        ("after-label", F + "b: ", " }"),
        ("after-case", F + "switch (a) { case 1: ", " } }"),
        ("after-default", F + "switch (a) { default: ", " break; } }"),
    ],
    "block-item": [
        ("only", F, " }"),
        ("middle", F + "; ", " ; }"),
        ("nested", F + "{ ", " } }"),
        ("switch-block", F + "switch (a) { case 1: ; ", " } }"),
        ("function-body-K&R", P + "int f(a) int a; { ", " }"),
    ],
    "expression": [
        ("statement", F, " ; }"),
        ("if-condition", F + "if ( ", " ) ; }"),
        ("while-condition", F + "while ( ", " ) ; }"),
        ("switch-condition", F + "switch ( ", " ) ; }"),
        ("do-condition", F + "do ; while ( ", " ); }"),
        ("for-1", F + "for ( ", " ; ; ) ; }"),
        ("for-2", F + "for ( ; ", " ; ) ; }"),
        ("for-3", F + "for ( ; ; ", " ) ; }"),
        ("for-decl-2", F + "for (int b; ", " ; ) ; }"),
        ("return", F + "return ", " ; }"),
        ("subscript", F + "a[ ", " ]; }"),
        ("paren", F + "( ", " ); }"),
        ("?:-middle", F + "a ? ", " : a; }"),
    ],
    "assignment-expression": [
        ("argument", F + "a( ", " ); }"),
        ("argument-2nd", F + "a(a, ", " ); }"),
        ("argument-1st", F + "a( ", " , a); }"),
        ("array-bound", P + "int v[ ", " ];"),
        ("array-bound-block", F + "int v[ ", " ]; }"),
        ("array-bound-param", P + "void f(int v[ ", " ]);"),
        ("array-bound-static", P + "void f(int v[static ", " ]);"),
        ("array-bound-qual", P + "void f(int v[const ", " ]);"),
        ("array-bound-abstract", P + "int v = sizeof(int [ ", " ]);"),
        ("array-bound-2nd", P + "int v[1][ ", " ];"),
        ("assignment-rhs", F + "a = ", " ; }"),
        ("comma-right", F + "a , ", " ; }"),
    ],
    "constant-expression": [
        ("case-label", F + "switch (a) { case ", " : ; } }"),
        ("bit-width", P + "struct S { int m : ", " ; };"),
        ("bit-width-unnamed", P + "struct S { int : ", " ; };"),
        ("enumerator-value", P + "enum E { e = ", " };"),
        ("enumerator-value-mid", P + "enum E { e = ", " , g };"),
        ("_Static_assert-cond", P + "_Static_assert( ", ' , "m");'),
        ("_Alignas-arg", P + "_Alignas( ", " ) int v;"),
        ("designator-index", P + "int v[] = { [ ", " ] = 1 };"),
        ("?:-right", F + "a ? a : ", " ; }"),
        ("cast-operand", F + "(T) ", " ; }"),
        ("unary-operand", F + "- ", " ; }"),
        ("binary-right", F + "a * ", " ; }"),
        ("binary-left", F, " * a; }"),
    ],
}
# operand of sizeof / ++ / --: a unary-expression (a cast is not one)
FRAMES["unary-expression"] = [
    ("sizeof-operand", F + "sizeof ", " ; }"),
    ("prefix-increment-operand", F + "++ ", " ; }"),
    ("assignment-lhs", F, " = a; }"),
]
TARGETS = list(FRAMES)

# a few fixed sentences (prefix, terminal symbols, suffix): constructs whose
# shortest sentence is longer than the quick bound, and the message slot of
# _Static_assert
def _syms(s):
    return tuple(s.split())


FIXED = [
    (P, _syms("_Static_assert ( constant , string ) ;"), ""),
    (P, _syms("_Static_assert ( constant , string string ) ;"), ""),
    (F, _syms("_Static_assert ( constant , string ) ;"), " }"),
    (P + "struct S { ", _syms("_Static_assert ( constant , string ) ;"), " };"),
    (P + "struct S { int b; ", _syms("_Static_assert ( constant , string ) ;"), " };"),
    (F + "for ( ", _syms("_Static_assert ( constant , string ) ;"), " ; ) ; }"),
    (F, _syms("( typedef-name/T ) { constant } MEMOP identifier/member ;"), " }"),
    (F, _syms("( typedef-name/T ) { constant } [ constant ] ;"), " }"),
    (F, _syms("( typedef-name/T ) { constant } ( ) ;"), " }"),
    (F, _syms("( typedef-name/T ) { constant } INCDEC ;"), " }"),
    (F, _syms("sizeof ( typedef-name/T ) { constant } ;"), " }"),
    (F, _syms("UNOP ( typedef-name/T ) { constant } ;"), " }"),
    (P + "int v[] = { ", _syms("[ constant ] . identifier/member [ constant ] = constant , "
                              ". identifier/member = { constant }"), " };"),
    (P + "struct S { ", _syms("struct { TYPEKW1 identifier ; } ;"), " };"),
    (P + "struct S { ", _syms("SU { TYPEKW1 identifier ; } ; TYPEKW1 identifier ;"), " };"),
]

BOUNDS = {
    # tier: (N, N for expression/declarator, N of the substitution sweep,
    #        N of the substitution sweep for expression/declarator)
    "quick": (6, 7, 4, 5),
    "thorough": (7, 8, 5, 6),
}
WIDE = ("expression", "declarator")

GCC_SYNTAX = re.compile(
    r"expected .* before|expected .* at end of input|at end of input|stray|expected"
)

_TABLE = None  # gramdp.Table, built before the pool forks
_LANG = {}  # (X, n) -> sorted list of encoded sentences
_PARSER = None


# ---------------------------------------------------------------------------
# running one text
# ---------------------------------------------------------------------------
def _parser():
    global _PARSER
    if _PARSER is None:
        from pycparser.c_parser import CParser

        _PARSER = CParser()
    return _PARSER


_LOC = re.compile(r"^:(\d+):(\d+): (.*)$", re.S)
_SKIP = ("_advance", "_accept", "_expect", "_consume")


def outcome(text, trace=False):
    """('ok',) | ('perr', msg, column of the offending token or None (end of
    input), {column: function that consumed the token there} or None for an
    error raised by the lexer) | ('rec',) |
    ('exc', site, repr).  The consumer map is only filled with trace=True."""
    from pycparser.c_parser import CParser, ParseError

    consumers = {}
    if trace:
        p = CParser()
        orig = p._advance

        def _consume():
            tok = orig()
            try:
                f = sys._getframe(1)
                while f is not None and (
                    f.f_code.co_name in _SKIP
                    or not f.f_code.co_name.startswith(("_parse_", "_try_parse_", "_scan_", "_peek_"))
                ):
                    f = f.f_back
                consumers[tok.column] = f.f_code.co_name if f is not None else "?"
            except Exception:  # noqa
                pass
            return tok

        p._advance = _consume
    else:
        p = _parser()
    try:
        p.parse(text, "")
        return ("ok",)
    except ParseError as e:
        msg = str(e)
        m = _LOC.match(msg)
        col = None
        lexical = False
        tb = e.__traceback__
        while tb is not None:
            if tb.tb_frame.f_code.co_name == "_lex_error_func":
                lexical = True
            tb = tb.tb_next
        if m and m.group(1) == "1":
            col = int(m.group(2))
        elif "At end of input" not in msg:
            # no position of a token in the message: the token the parser is at
            try:
                t = p._peek()
                col = None if t is None else t.column
            except Exception:  # noqa
                col = None
        if lexical:
            # raised by the lexer while the token buffer was being filled: the
            # parser's own position says nothing about the cause
            consumers = None
        return ("perr", msg, col, consumers)
    except RecursionError:
        return ("rec",)
    except Exception as e:  # noqa
        return ("exc", core.exc_site(e), repr(e)[:200])


_PIECE = re.compile(
    r"""(?:u8|[LuU])?"(?:\\.|[^"\\])*"|(?:[LuU])?'(?:\\.|[^'\\])*'|"""
    r"""\.?[0-9](?:[eEpP][+-]|[0-9A-Za-z_.])*|[A-Za-z_$][A-Za-z_0-9$]*|"""
    r"""\.\.\.|<<=|>>=|\+\+|--|->|&&|\|\||<<|>>|<=|>=|==|!=|[-+*/%&|^]=|\S"""
)
_KEYWORDS = set(
    "auto break case char const continue default do double else enum extern float for "
    "goto if inline int long register restrict return short signed sizeof static struct "
    "switch typedef union unsigned void volatile while _Bool _Complex _Noreturn "
    "_Thread_local _Static_assert _Atomic _Alignof _Alignas".split()
)


def lex_classes(text, sent_start, sent_syms):
    """[(column, class)] of every C token of the text.  Tokens of the
    enumerated sentence (blank-separated, starting at offset sent_start) get
    their terminal symbol as class, frame tokens their spelling (identifiers,
    constants, strings of the frame: the class name)."""
    sent_cols = {}
    if sent_syms is not None:
        for k, m in enumerate(re.finditer(r"\S+", text[sent_start:])):
            if k >= len(sent_syms):
                break
            sent_cols[sent_start + m.start() + 1] = sent_syms[k]
    res = []
    for m in _PIECE.finditer(text):
        col = m.start() + 1
        s = m.group()
        if col in sent_cols:
            res.append((col, sent_cols[col]))
        elif '"' in s:
            res.append((col, "string"))
        elif "'" in s or re.match(r"\.?[0-9]", s):
            res.append((col, "constant"))
        elif re.match(r"[A-Za-z_$]", s) and s not in _KEYWORDS:
            res.append((col, "typedef-name/T" if s == "T" else "identifier"))
        else:
            res.append((col, s))
    return res


_EXPR_FIRST = None


def expr_first():
    """FIRST(expression) of the model grammar, computed from the productions."""
    global _EXPR_FIRST
    if _EXPR_FIRST is None:
        prods = _TABLE.prods if _TABLE is not None else gramdp.normalise(G.build(), ["expression"])[0]
        first, todo, seen = set(), ["expression"], set()
        while todo:
            x = todo.pop()
            if x in seen:
                continue
            seen.add(x)
            for r in prods[x]:
                if r[0] in prods:
                    todo.append(r[0])
                else:
                    first.add(r[0])
        _EXPR_FIRST = first
    return _EXPR_FIRST


def signature(text, sent_start=0, sent_syms=None):
    """Signature of a rejection, invariant over the manifestations of one wrong
    turn of the parser:
        reject:<offending token>/<token before it>@<function that consumed that token>
    (an error raised by the lexer: reject[<message>]:<class of the token there>)
    offending token: its class, or `expr-start` for every class in
    FIRST(expression) (after a wrong turn the parser trips over whatever comes
    next); a message other than 'before: X' / 'At end of input' is added."""
    out = outcome(text, trace=True)
    if out[0] == "ok":
        return "accepted-on-second-parse"
    if out[0] == "exc":
        return out[1]
    if out[0] == "rec":
        return "RecursionError"
    _, msg, col, consumers = out
    toks = lex_classes(text, sent_start, sent_syms)
    if consumers is None:  # lexer error: reject[<message>]:<class of the token there>
        m = _LOC.match(msg)
        body = m.group(3) if m else msg.lstrip(": ")
        cls = next((c for k, c in toks if k == col), "?")
        return "reject[" + re.sub(r"'[^']*'", "'_'", body) + "]:" + cls
    off, prev, who = "?", "?", "?"
    idx = None
    if col is None:
        off, idx = "<eof>", len(toks)
    else:
        for i, (c, cls) in enumerate(toks):
            if c == col:
                off, idx = cls, i
                break
    if idx is not None:
        if idx > 0:
            prev = toks[idx - 1][1]
            who = consumers.get(toks[idx - 1][0], "?")
        else:
            prev = "<start>"
    if off in expr_first():
        off = "expr-start"
    m = _LOC.match(msg)
    body = m.group(3) if m else msg.lstrip(": ")
    kind = ""
    if not body.startswith("before: ") and "At end of input" not in body:
        kind = "[" + re.sub(r"'[^']*'", "'_'", body) + "]"
    return f"reject{kind}:{off}/{prev}@{who}"


# ---------------------------------------------------------------------------
# workers
# ---------------------------------------------------------------------------
def _render(X, frame, enc):
    syms = _TABLE.decode(enc)
    _, pre, suf = frame
    return pre + " ".join(G.spell(syms)) + suf, len(pre), syms


def _work_sentences(task):
    """All sentences lo..hi of (X, n) in one frame."""
    X, n, fi, lo, hi = task
    frame = FRAMES[X][fi]
    lang = _LANG[(X, n)]
    cnt = ok = 0
    rej = []
    for enc in lang[lo:hi]:
        text, start, syms = _render(X, frame, enc)
        out = outcome(text)
        cnt += 1
        if out[0] == "ok":
            ok += 1
        else:
            rej.append((signature(text, start, syms), text,
                        f"{X}/{frame[0]}/n={n}", out[1] if len(out) > 1 else "rec"))
    return cnt, ok, rej


def _work_subst(task):
    """Vocabulary substitutions of the sentences lo..hi of (X, n), primary frame."""
    X, n, lo, hi = task
    frame = FRAMES[X][0]
    _, pre, suf = frame
    nxt = suf.split()[0] if suf.split() else None
    lang = _LANG[(X, n)]
    cnt = ok = 0
    rej = []
    for enc in lang[lo:hi]:
        syms = _TABLE.decode(enc)
        for sp in G.substitutions(syms, nxt):
            text = pre + " ".join(sp) + suf
            out = outcome(text)
            cnt += 1
            if out[0] == "ok":
                ok += 1
            else:
                rej.append((signature(text, len(pre), syms), text,
                            f"{X}/{frame[0]}/n={n}/subst", out[1] if len(out) > 1 else "rec"))
    return cnt, ok, rej


# gcc only: the identifiers of the vocabulary are declared objects, otherwise
# gcc guesses that an undeclared `a` in `a * b;` is a misspelt type name and
# reports a syntax error for a valid expression statement
GCC_PREAMBLE = "int a, " + ", ".join(G.OTHER_IDENTIFIERS) + ";\n"
# after a complete translation unit a static assertion is valid; it cannot
# continue any incomplete construct (it is neither a specifier nor an operand)
GCC_SENTINEL = ' _Static_assert(1, "");'


def _gcc(src):
    """Lines (1-based, preamble not counted) with a syntax diagnostic."""
    r = subprocess.run(
        ["gcc", "-std=c11", "-fsyntax-only", "-w", "-fmax-errors=0",
         # pycparser input is preprocessed text in which offsetof is still a keyword-like name
         "-Doffsetof(t,m)=__builtin_offsetof(t,m)", "-x", "c", "-"],
        input=(GCC_PREAMBLE + src).encode(), stdout=subprocess.PIPE, stderr=subprocess.PIPE,
    )
    out = []
    for line in r.stderr.decode(errors="replace").splitlines():
        m = re.match(r"<stdin>:(\d+):\d+: (?:fatal )?error: (.*)$", line)
        if m and GCC_SYNTAX.search(m.group(2)):
            out.append((int(m.group(1)) - 1, m.group(2).strip()))
    return out


def gcc_syntax_diag(text):
    """First gcc syntax diagnostic for the text alone, or None."""
    d = _gcc(text + "\n")
    return d[0][1] if d else None


def _balanced(text):
    st = []
    pairs = {")": "(", "]": "[", "}": "{"}
    for ch in re.sub(r"\"(?:\\.|[^\"\\])*\"|'(?:\\.|[^'\\])*'", "0", text):
        if ch in "([{":
            st.append(ch)
        elif ch in pairs:
            if not st or st.pop() != pairs[ch]:
                return False
    return not st


def _work_gcc(texts):
    """gcc syntax diagnostic (or None) per text.  Bracket-balanced texts go to
    one gcc run, one per line, each followed by a sentinel static assertion:
    if that run has no syntax diagnostic at all, every text alone has none (a
    text with an error before its end shows it in the batch as well; a text
    that is only incomplete cannot be completed by the sentinel; balanced
    brackets keep every text out of its neighbours' blocks; the only names
    leaking between lines are fresh typedef names, which no text uses as a
    type).  A run with diagnostics is bisected down to single texts, and a
    single text is always judged alone, without the sentinel."""
    res = {}

    def decide(part):
        if not part:
            return
        if len(part) == 1:
            res[part[0]] = gcc_syntax_diag(part[0])
            return
        if not _gcc("\n".join(t + GCC_SENTINEL for t in part) + "\n"):
            for t in part:
                res[t] = None
            return
        h = len(part) // 2
        decide(part[:h])
        decide(part[h:])

    bal = [t for t in texts if _balanced(t)]
    for t in texts:
        if not _balanced(t):
            res[t] = gcc_syntax_diag(t) or "unbalanced brackets"
    decide(bal)
    return [res[t] for t in texts]


def _work_profile(texts):
    """Names of the _parse_* methods entered while parsing the texts."""
    seen = set()

    def prof(frame, event, arg):
        if event == "call":
            n = frame.f_code.co_name
            if n.startswith("_parse_"):
                seen.add(n)

    for t in texts:
        sys.setprofile(prof)
        try:
            outcome(t)
        finally:
            sys.setprofile(None)
    return sorted(seen)


# ---------------------------------------------------------------------------
# model audit: the collapse of the ten binary levels keeps the language
# ---------------------------------------------------------------------------
def audit_collapse(n):
    """Lang(constant-expression, <= n) of the ten-level grammar (one terminal
    per operator) == Lang of the collapsed grammar with BINOP expanded, both
    over the operand alphabet {identifier}.  Returns (ok, count)."""
    import itertools

    full = G.unrestricted_ten_levels()
    keep = set(G.TEN_LEVELS) | {"conditional-expression", "constant-expression"}
    a = {k: v for k, v in full.items() if k in keep}
    a["cast-expression"] = [("identifier",)]
    a["expression"] = [("identifier",)]
    b = {
        "binary-expression": [tuple(r.split()) for r in G.COLLAPSED["binary-expression"]],
        "conditional-expression": [tuple(r.split()) for r in G.COLLAPSED["conditional-expression"]],
        "constant-expression": [("conditional-expression",)],
        "cast-expression": [("identifier",)],
        "expression": [("identifier",)],
    }
    pa, _ = gramdp.normalise(a, ["constant-expression"])
    pb, _ = gramdp.normalise(b, ["constant-expression"])
    ta = gramdp.Table(pa, gramdp.needs(pa, {"constant-expression": n}))
    tb = gramdp.Table(pb, gramdp.needs(pb, {"constant-expression": n}))
    la = set()
    lb = set()
    for m in range(1, n + 1):
        for e in ta.lang("constant-expression", m):
            la.add(ta.decode(e))
        for e in tb.lang("constant-expression", m):
            s = tb.decode(e)
            idx = [i for i, t in enumerate(s) if t == "BINOP"]
            for ops in itertools.product(G.BINARY_OPERATORS, repeat=len(idx)):
                v = list(s)
                for i, o in zip(idx, ops):
                    v[i] = o
                lb.add(tuple(v))
    return la == lb, len(la)


# ---------------------------------------------------------------------------
def _long_texts(tier):
    """(shape, k, padding) -> text; all valid C."""
    quick = tier == "quick"
    ks = list(range(1, 40)) + list(range(40, 330, 3 if quick else 1))
    out = []
    for k in ks:
        out.append(("stars", "int " + "* " * k + "x ;"))
        out.append(("parens", "int " + "( " * k + "x" + " )" * k + " ;"))
        out.append(("qualified-stars", "int " + "* const " * k + "x ;"))
        out.append(("param-stars", "void f ( int " + "* " * k + ") ;"))
        out.append(("param-parens", "void f ( int " + "( " * k + "x" + " )" * k + " ) ;"))
        out.append(("cast-parens", "int v = " + "( " * k + "1" + " )" * k + " ;"))
    # a 70 / 130 / 200 token prefix at every offset into the token stream
    for k in (70, 130, 200, 260):
        for pad in range(0, 90 if quick else 200):
            out.append((f"offset{k}", "int a ; " * pad + "int " + "* " * k + "x ;"))
            if pad % 3 == 0:
                out.append((f"offset-parens{k}", "int a ; " * pad + "int " + "( " * (k // 2) + "x" + " )" * (k // 2) + " ;"))
    # large inputs: a declaration full of speculative scans placed so that every
    # one of its tokens falls on a power-of-two token index in turn (buffers,
    # caches and trimming schemes like such boundaries)
    probe = ("int ( * ( * x ) ( int ( * ) ( void ) , int * ) ) [ sizeof ( int ) ] = ( int ) ( a ) ; "
             "void g ( int ( * p ) , int ( T ) , int * ) ; T * q = ( T * ) ( 0 ) ;")
    ntok = len(probe.split())

    def pad(m):
        # exactly m tokens of 3- and 5-token declarations (m >= 8)
        fives = (-m) % 3
        threes = (m - 5 * fives) // 3
        return "int b , c ; " * fives + "int a ; " * threes

    for B in ((256, 512, 1024, 2048) if quick else (256, 512, 1024, 2048, 4096, 8192)):
        for shift in range(0, ntok + 2, 1 if not quick else 2):
            m = B - shift - 4  # 4 tokens of 'typedef int T ;'
            if m >= 8:
                out.append((f"boundary{B}", "typedef int T ; " + pad(m) + probe))
    return out


def _long_tasks(tier):
    return core.chunked(_long_texts(tier), 60)


def _work_long(items):
    n = ok = 0
    rej = []
    for shape, text in items:
        out = outcome(text)
        n += 1
        if out[0] == "ok":
            ok += 1
        elif out[0] == "rec":
            ok += 1  # nesting deeper than the recursion limit: tolerated, not a rejection
        else:
            rej.append((f"reject:long-lookahead:{shape}", text, "long", out[1]))
    return n, ok, rej


def run(tier):
    global _TABLE
    R = core.Run(PID, tier, "model_checking")
    N, NW, NS, NSW = BOUNDS[tier]
    prods, rep = gramdp.normalise(G.build(), TARGETS)
    tg = {t: (NW if t in WIDE else N) for t in TARGETS}
    need = gramdp.needs(prods, tg)
    _TABLE = T = gramdp.Table(prods, need)
    for t in TARGETS:
        for n in range(1, tg[t] + 1):
            _LANG[(t, n)] = T.lang(t, n)

    ok_audit, n_audit = audit_collapse(5)
    if not ok_audit:
        R.fail("model-audit:collapse", {"what": "ten levels vs collapsed"},
               "the collapsed binary level does not generate the ten-level language")

    # ---- plan (smallest sentences first, so the first case per signature is minimal)
    CH = 400
    tasks = []
    for n in range(1, max(N, NW) + 1):
        for X in TARGETS:
            L = len(_LANG.get((X, n), ()))
            for fi in range(len(FRAMES[X])):
                for lo in range(0, L, CH):
                    tasks.append((X, n, fi, lo, min(L, lo + CH)))
    stasks = []
    for n in range(1, max(NS, NSW) + 1):
        for X in TARGETS:
            if n > (NSW if X in WIDE else NS):
                continue
            L = len(_LANG.get((X, n), ()))
            for lo in range(0, L, 100):
                stasks.append((X, n, lo, min(L, lo + 100)))

    total = accepted = 0
    per_target = {}
    per_frame = {}
    rejected = []
    for task, (cnt, ok, rej) in zip(tasks, core.pmap(_work_sentences, tasks, chunksize=4)):
        total += cnt
        accepted += ok
        d = per_target.setdefault(task[0], [0, 0])
        d[0] += cnt
        d[1] += ok
        d = per_frame.setdefault(f"{task[0]}/{FRAMES[task[0]][task[2]][0]}", [0, 0])
        d[0] += cnt
        d[1] += ok
        rejected.extend(rej)
    n_plain = total
    sub_total = 0
    for task, (cnt, ok, rej) in zip(stasks, core.pmap(_work_subst, stasks, chunksize=2)):
        total += cnt
        sub_total += cnt
        accepted += ok
        rejected.extend(rej)
    for pre, syms, suf in FIXED:
        variants = [G.spell(syms)] + G.substitutions(syms, (suf.split() or [None])[0])
        for sp in variants:
            text = pre + " ".join(sp) + suf
            out = outcome(text)
            total += 1
            if out[0] == "ok":
                accepted += 1
            else:
                rejected.append((signature(text, len(pre), syms), text, "fixed", out[1]))

    # ---- the hand-written programs of the shared pool (lead): all of them are
    # accepted by the pinned tree; a change that starts rejecting one drops it
    # silently from every pool consumer (C07, C11, C14, C15, C17 only look at
    # accepted programs), so acceptance is demanded here - gcc decides below
    # whether a rejected one is valid C at all (several use GNU extensions)
    from models import pool_adapters, mini_pool

    hand_total = 0
    for text in list(pool_adapters.EXTRA) + list(mini_pool.PROGRAMS):
        out = outcome(text)
        total += 1
        hand_total += 1
        if out[0] == "ok":
            accepted += 1
        else:
            rejected.append(("reject:pool-program:" + (core.reject_sig(text) or "?"), text, "pool", out[1]))
    R.set("hand_written_pool_programs", hand_total)

    # ---- the same translation units through parse_file(use_cpp=False): files
    # written with LF, CRLF and bare CR line ends (text mode reads all three as
    # newlines) must be accepted like the text itself
    import tempfile
    from pycparser import parse_file

    pf_total = 0
    with tempfile.TemporaryDirectory(prefix="c01pf") as td:
        progs = [t for t in pool_adapters.EXTRA if '"' not in t and "'" not in t and "#" not in t and len(t) < 400][:40]
        for i, text in enumerate(progs):
            if outcome(text)[0] != "ok":
                continue
            lines = text.replace(";", ";\n").replace("{", "{\n")
            ref = core.canon(core.parse_outcome(lines)[1])
            for eol_name, eol in (("lf", "\n"), ("crlf", "\r\n"), ("cr", "\r")):
                path = os.path.join(td, "p%d_%s.c" % (i, eol_name))
                with open(path, "w", newline="") as f:
                    f.write(lines.replace("\n", eol))
                total += 1
                pf_total += 1
                try:
                    got = core.canon(parse_file(path, use_cpp=False))
                except Exception as e:  # noqa
                    R.fail("parse_file-rejects:line-ends-" + eol_name, {"text": lines.replace("\n", eol), "where": "parse_file"}, repr(e)[:200])
                    continue
                accepted += 1
                if got != ref:
                    R.fail("parse_file-differs:line-ends-" + eol_name, {"text": lines.replace("\n", eol), "where": "parse_file"},
                           "/".join(core.first_diff(got, ref) or ()))
    R.set("parse_file_line_end_runs", pf_total)

    # ---- long-lookahead family (lead): valid declarators whose prefix before the
    # declared name is long, at every offset into the token stream - the
    # declarator-name lookahead and every mark/reset must work at any distance
    long_total = 0
    for cnt, ok, rej in core.pmap(_work_long, _long_tasks(tier), chunksize=1):
        total += cnt
        long_total += cnt
        accepted += ok
        rejected.extend(rej)
    R.set("long_lookahead_texts", long_total)

    # ---- gcc decides whether a rejected text is the model's fault
    utexts = sorted({r[1] for r in rejected})
    verdict = {}
    parts = core.chunked(utexts, 250)
    for part, res in zip(parts, core.pmap(_work_gcc, parts, chunksize=1)):
        verdict.update(zip(part, res))
    diags = [verdict[r[1]] for r in rejected]
    doubts = []
    hist = {}
    first = {}
    for (sig, text, where, msg), d in zip(rejected, diags):
        if d is not None:
            doubts.append({"text": text, "where": where, "gcc": d, "pycparser": msg})
            continue
        hist[sig] = hist.get(sig, 0) + 1
        first.setdefault(sig, (text, where, msg))
        R.fail(sig, {"text": text, "where": where}, msg)

    # ---- which productions of the parser did the accepted texts enter
    sample_texts = []
    for X in TARGETS:
        for n in range(1, tg[X] + 1):
            lang = _LANG.get((X, n), ())
            for fi, frame in enumerate(FRAMES[X]):
                for enc in core.pick_samples(lang, 6):
                    sample_texts.append(_render(X, frame, enc)[0])
    reached = set()
    for part in core.pmap(_work_profile, core.chunked(sample_texts, 200), chunksize=1):
        reached.update(part)

    sentences = sum(len(v) for v in _LANG.values())
    R.set("states", T.states())
    R.set("transitions", T.transitions)
    R.set("traces_validated_against_impl", total)
    R.set("evaluations", total)
    R.set("distinct_nontrivial", accepted)
    R.set("sentences", sentences)
    R.set("sentences_per_target", {t: [len(_LANG.get((t, n), ())) for n in range(1, tg[t] + 1)] for t in TARGETS})
    R.set("texts_framed", n_plain)
    R.set("texts_substituted", sub_total)
    R.set("texts_per_target_[run,accepted]", per_target)
    R.set("texts_per_frame_[run,accepted]", per_frame)
    R.set("frames_total", sum(len(v) for v in FRAMES.values()))
    R.set("rejected", len(rejected))
    R.set("rejected_distinct_texts_sent_to_gcc", len(utexts))
    R.set("rejected_confirmed_by_gcc", len(rejected) - len(doubts))
    R.set("model_doubts_count", len(doubts))
    R.set("model_doubts", doubts[:40])
    R.set("rejection_signatures", hist)
    R.set("distinct_outcomes", 1 + len(hist))
    R.set("grammar", rep | {"terminal_symbols": len(T.code)})
    R.set("model_audit", {"collapse_language_equal": ok_audit, "sentences_compared": n_audit})
    R.set("productions_reached", sorted(reached))
    R.set("bounds", {"N": N, "N_expression_declarator": NW, "N_substitution": NS,
                     "N_substitution_expression_declarator": NSW})
    R.assumptions += [
        "the model under-approximates the property's domain: type-specifier lists are 6.7.2p2 "
        "multisets, <= 1 storage class, T is the only typedef name and never a declarator, "
        "declarator-less declarations only for struct/union/enum specifiers, function "
        "definitions have function declarators; sentences are syntactically valid, not typed",
        "gcc -std=c11 -fsyntax-only is the arbiter of a rejected text being syntactically valid",
    ]
    # vacuity guards
    floor = 100000 if tier == "quick" else 1000000
    dead = sorted(k for k, (n_run, n_ok) in per_frame.items() if n_ok == 0)
    nframes = sum(len(v) for v in FRAMES.values())
    if (sentences < floor or accepted < 0.9 * total or len(reached) < 60 or n_audit < 100
            or sub_total < sentences // 10 or len(per_frame) != nframes or dead):
        R.fail("vacuous", {"sentences": sentences, "accepted": accepted, "total": total,
                           "reached": len(reached), "substituted": sub_total, "dead_frames": dead},
               "too little explored, almost nothing accepted, or a frame in which nothing is accepted")
    samples = [_render(X, FRAMES[X][-1], _LANG[(X, tg[X])][len(_LANG[(X, tg[X])]) // 3])[0]
               for X in TARGETS]
    return R.finish(
        samples,
        "every sentence <= N tokens of each of the 17 nonterminals of the restricted C99+C11 "
        "grammar (class representatives) in every (prefix, suffix) frame of that nonterminal; "
        "every single-position vocabulary substitution (other members of the terminal class; "
        "every 6.7.2p2 keyword multiset of the same size in every order) of the sentences <= "
        "N_substitution in the primary frame and of the fixed longer sentences; each text is "
        "parsed by CParser.parse and must be accepted; a rejected text counts unless gcc "
        "-std=c11 -fsyntax-only reports a syntax diagnostic for it (model_doubts). states = "
        "filled DP cells (X, n), transitions = production instances combined, traces = texts "
        "parsed. non-trivial = accepted texts (the whole text went through the parser's "
        "productions; productions_reached lists the _parse_* methods entered on a spread of them)",
    )


def replay(rep):
    text = rep["case"]["text"]
    out = outcome(text)
    print("input:   ", text)
    print("expected: accepted (derivable from C99 Annex A / C11 under the typedef rule)")
    print("observed:", "accepted" if out[0] == "ok" else out[1])
    d = gcc_syntax_diag(text)
    print("gcc syntax diagnostic:", d or "none")
    if out[0] == "ok":
        return 0
    return 0 if d else 1

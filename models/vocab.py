"""Token vocabularies (source spellings), written down independently of
pycparser's own tables (a mutant that edits pycparser's keyword map must not
edit the alphabet with it)."""

KEYWORDS = [
    "auto", "break", "case", "char", "const", "continue", "default", "do",
    "double", "else", "enum", "extern", "float", "for", "goto", "if", "inline",
    "int", "long", "register", "offsetof", "restrict", "return", "short",
    "signed", "sizeof", "static", "struct", "switch", "typedef", "union",
    "unsigned", "void", "volatile", "while", "__int128", "_Bool", "_Complex",
    "_Noreturn", "_Thread_local", "_Static_assert", "_Atomic", "_Alignof",
    "_Alignas", "_Pragma",
]

PUNCT = [
    "...", "<<=", ">>=", "++", "--", "->", "&&", "||", "<<", ">>", "<=", ">=",
    "==", "!=", "*=", "/=", "%=", "+=", "-=", "&=", "|=", "^=", "=", "+", "-",
    "*", "/", "%", "|", "&", "~", "^", "!", "<", ">", "?", "(", ")", "[", "]",
    "{", "}", ",", ".", ";", ":",
]

# pycparser token type of each punctuator (C's name for it; used by C09)
PUNCT_TYPE = {
    "...": "ELLIPSIS", "<<=": "LSHIFTEQUAL", ">>=": "RSHIFTEQUAL",
    "++": "PLUSPLUS", "--": "MINUSMINUS", "->": "ARROW", "&&": "LAND",
    "||": "LOR", "<<": "LSHIFT", ">>": "RSHIFT", "<=": "LE", ">=": "GE",
    "==": "EQ", "!=": "NE", "*=": "TIMESEQUAL", "/=": "DIVEQUAL",
    "%=": "MODEQUAL", "+=": "PLUSEQUAL", "-=": "MINUSEQUAL", "&=": "ANDEQUAL",
    "|=": "OREQUAL", "^=": "XOREQUAL", "=": "EQUALS", "+": "PLUS",
    "-": "MINUS", "*": "TIMES", "/": "DIVIDE", "%": "MOD", "|": "OR",
    "&": "AND", "~": "NOT", "^": "XOR", "!": "LNOT", "<": "LT", ">": "GT",
    "?": "CONDOP", "(": "LPAREN", ")": "RPAREN", "[": "LBRACKET",
    "]": "RBRACKET", "{": "LBRACE", "}": "RBRACE", ",": "COMMA",
    ".": "PERIOD", ";": "SEMI", ":": "COLON",
}

LITERALS = [
    "1", "07", "0x1F", "0b11", "'ab'", "'uu'", "'ll'", "1.5", "0x1.8p3",
    "'c'", "L'c'", "u8'c'", "u'c'", "U'c'",
    '"s"', 'L"s"', 'u8"s"', 'u"s"', 'U"s"',
]

LITERAL_TYPE = {
    "1": "INT_CONST_DEC", "07": "INT_CONST_OCT", "0x1F": "INT_CONST_HEX",
    "0b11": "INT_CONST_BIN", "'ab'": "INT_CONST_CHAR", "'uu'": "INT_CONST_CHAR",
    "'ll'": "INT_CONST_CHAR", "1.5": "FLOAT_CONST", "0x1.8p3": "HEX_FLOAT_CONST",
    "'c'": "CHAR_CONST", "L'c'": "WCHAR_CONST", "u8'c'": "U8CHAR_CONST",
    "u'c'": "U16CHAR_CONST", "U'c'": "U32CHAR_CONST",
    '"s"': "STRING_LITERAL", 'L"s"': "WSTRING_LITERAL",
    'u8"s"': "U8STRING_LITERAL", 'u"s"': "U16STRING_LITERAL",
    'U"s"': "U32STRING_LITERAL",
}

IDENTS = ["a", "b", "T"]  # T is a typedef name in every context prefix
DIRECTIVES = ["#pragma x\n", "#pragma\n", "#"]

# the full vocabulary: 45 + 46 + 3 + 19 + 3 = 116
SIGMA = KEYWORDS + PUNCT + IDENTS + LITERALS + DIRECTIVES

# reduced vocabulary: one representative per parser-relevant class
SIGMA_R = [
    # declaration specifiers
    "int", "unsigned", "const", "static", "typedef", "inline", "struct", "enum",
    "_Atomic", "_Alignas", "T",
    # statements
    "if", "else", "while", "do", "for", "switch", "case", "default", "return",
    "goto", "break",
    # expression keywords
    "sizeof", "_Alignof", "_Static_assert", "_Pragma",
    # identifiers / literals
    "a", "b", "1", '"s"',
    # punctuation
    "(", ")", "[", "]", "{", "}", ",", ";", ":", "=", "*", "+", "++", ".",
    "->", "?", "&", "...", "+=", "<",
    "#pragma x\n",
]

# specifier-heavy vocabulary: reaches the _Atomic/_Alignas/type-name code paths
SPEC_SIGMA = ["_Atomic", "_Alignas", "(", ")", "int", "[", "]", "1", "*", "a", ";", ",", "const", "T",
              "struct", "{", "}", "sizeof", "="]
SPEC_CONTEXTS = {
    "atomic-decl": "typedef int T; _Atomic ( ",
    "atomic-sizeof": "typedef int T; int q = sizeof ( _Atomic ( ",
    "atomic-param": "typedef int T; void g ( _Atomic ( ",
    "atomic-member": "typedef int T; struct S { _Atomic ( ",
    "alignas": "typedef int T; _Alignas ( ",
    "cast": "typedef int T; int q = ( ",
}

BRACKET_SIGMA = ["(", ")", "[", "]", "{", "}", "a", "1", ",", ";", "=", "int", "T", "*"]

# context prefixes (name -> (prefix text, number of braces/parens left open))
CONTEXTS = {
    "file": "typedef int T; ",
    "func": "typedef int T; void f(int a){ ",
    "struct": "typedef int T; struct S { ",
    "enum": "typedef int T; enum E { ",
    "param": "typedef int T; void g( ",
    "init": "typedef int T; int v[] = { ",
}

OPENERS = {"(": ")", "[": "]", "{": "}"}
CLOSERS = {")": "(", "]": "[", "}": "{"}


def balanced(tokens):
    """Reference stack matcher over a token list."""
    st = []
    for t in tokens:
        if t in OPENERS:
            st.append(t)
        elif t in CLOSERS:
            if not st or st[-1] != CLOSERS[t]:
                return False
            st.pop()
    return not st

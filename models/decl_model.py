"""Declaration reference model (DESIGN 4.6) - used by C03, reusable by C07/C08/C11/C17.

A *declared entity* is (name | None for abstract, derivation sequence, specifiers).

The derivation sequence is written in *reading order*, from the declared name
outwards: ``int *a[3]`` ("a is an array of 3 pointers to int") is
``(Arr("N"), Ptr())``; ``int (*a)[3]`` is ``(Ptr(), Arr("N"))``.

Two independent interpretations of a model term:

* ``render_*``  -> list of C tokens.  The declarator is written with the
  inside-out rule of C99 6.7.5 ("T D1[n]", "T D1(params)", "T * quals D1" where
  D1 must be a *direct* declarator, so a pointer declarator is parenthesised
  before an array/function suffix is added).  It is written from the standard,
  not from pycparser's generator.
* ``expect_*``  -> the AST pycparser documents for it, in ``core.canon`` form
  (class/field vocabulary read from ``_c_ast.cfg`` by a small reader of our own;
  conventions taken from tests/test_c_parser.py: ``Decl.quals`` are the
  qualifiers among the declaration specifiers and are duplicated on the
  innermost ``TypeDecl``; ``TypeDecl.align``/``Typename.align`` are None;
  ``Typename.name`` is None; ``(void)`` is a one-element ParamList; ``()`` is
  ``args=None``; ``[*]`` is ``ID('*')``; K&R identifier lists are ParamLists of
  IDs; ...).

Model terms (all plain tuples / namedtuples, hashable, JSON-friendly):

  derivation symbol   ("ptr", quals) | ("arr", key) | ("fn", key)
                      key indexes ARR_TABLE / FN_TABLE (or is an explicit
                      payload of the same shape as the table value)
  expression atom     ("c", "3") | ("id", "K")
  initialiser         atom | ("list", items, trailing_comma)
                      item = (designators, initialiser)
                      designator = (".", "m") | ("[", atom)
  specifier item      ("storage", s) | ("qual", q) | ("func", f) | ("word", w)
                      | ("tname", "T") | ("alignc", atom) | ("alignt", TypeName)
                      | ("su", "struct"|"union", tag|None, members|None)
                      | ("enum", tag|None, enumerators|None, trailing_comma)
                      | ("atomic", TypeName)
  Dtor(name, seq, init, bits), Decln(spec, dtors), TypeName(spec, seq),
  Entity(name, seq, spec)
"""
from __future__ import annotations

import os
import re
from collections import namedtuple

Dtor = namedtuple("Dtor", "name seq init bits")
Decln = namedtuple("Decln", "spec dtors")
TypeName = namedtuple("TypeName", "spec seq")
Entity = namedtuple("Entity", "name seq spec")
FnInfo = namedtuple("FnInfo", "params ellipsis knr")  # params: tuple[Entity] | None


class Unrenderable(Exception):
    """The term has no spelling in C11 (see render_declarator)."""


# ---------------------------------------------------------------------------
# AST vocabulary: our own reader of _c_ast.cfg (field order = slot order)
# ---------------------------------------------------------------------------
_FIELDS = None


def ast_fields():
    global _FIELDS
    if _FIELDS is None:
        from mc import core

        path = os.path.join(core.REPO, "pycparser", "_c_ast.cfg")
        f = {}
        with open(path) as fh:
            for line in fh:
                line = line.split("#", 1)[0].strip()
                m = re.match(r"^(\w+)\s*:\s*\[(.*)\]\s*$", line)
                if not m:
                    continue
                f[m.group(1)] = tuple(
                    x.strip().rstrip("*") for x in m.group(2).split(",") if x.strip()
                )
        _FIELDS = f
    return _FIELDS


def N(cls, **kw):
    """Canonical node (same shape as core.canon(node))."""
    fs = ast_fields()[cls]
    if set(kw) != set(fs):
        raise ValueError(f"{cls}: fields {sorted(kw)} != {sorted(fs)}")
    return (cls, tuple((s, _c(kw[s])) for s in fs))


def _c(v):
    if isinstance(v, list):
        return tuple(_c(x) for x in v)
    return v


# ---------------------------------------------------------------------------
# alphabet
# ---------------------------------------------------------------------------
PTR_QUALS = ((), ("const",), ("volatile",), ("restrict",), ("const", "volatile"), ("_Atomic",))

# key -> (dim_quals in source order, dim) ; dim: None | atom | "*"
ARR_TABLE = {
    "": ((), None),
    "N": ((), ("c", "3")),
    "static N": (("static",), ("c", "3")),
    "const N": (("const",), ("c", "3")),
    "*": ((), "*"),
    "const *": (("const",), "*"),
}
ARR_OBJECT = ("", "N")                      # legal for any array derivation
ARR_PARAM_OUTER = ("static N", "const N", "const *")  # 6.7.5.2p1: outermost derivation of a parameter only
ARR_PROTO = ("*",)                          # 6.7.5.2p4: prototype scope only

ARR_TYPED = ()  # keys of ARR_TABLE whose bound contains a type name (filled below)

S_INT = (("word", "int"),)
S_VOID = (("word", "void"),)
S_T = (("tname", "T"),)

FN_TABLE = {
    "void": FnInfo((Entity(None, (), S_VOID),), False, None),
    "int": FnInfo((Entity(None, (), S_INT),), False, None),
    "named": FnInfo((Entity("a", (), S_INT), Entity("b", (), S_T)), False, None),
    "va": FnInfo((Entity(None, (), S_INT),), True, None),
    "empty": FnInfo(None, False, None),
    "knr": FnInfo(None, False, ("a", "b")),
}
FN_PROTO = ("void", "int", "named", "va", "empty")


def _typed_bounds():
    a2 = ("arr", ((), ("c", "2")))
    long_ = (("word", "long"),)
    char_ = (("word", "char"),)
    fn_intp = ("fn", ((Entity(None, (("ptr", ()),), S_INT),), False, None))
    body = (Decln(S_INT, (Dtor("m", (("ptr", ()), a2), None, None),)),)
    t = {
        "sizeof(int *)": ("sizeof", TypeName(S_INT, (("ptr", ()),))),
        "sizeof(int [2])": ("sizeof", TypeName(S_INT, (a2,))),
        "(long)(char *)0": ("cast", TypeName(long_, ()), ("cast", TypeName(char_, (("ptr", ()),)), ("c", "0"))),
        "_Alignof(void (*)(int *))": ("alignof", TypeName(S_VOID, (("ptr", ()), fn_intp))),
        "sizeof(struct {int (*m)[2];})": ("sizeof", TypeName((("su", "struct", None, body),), ())),
        "(int []){1, 2}[0]": ("index", ("complit", TypeName(S_INT, (("arr", ""),)),
                                        ("list", (((), ("c", "1")), ((), ("c", "2"))), False)), ("c", "0")),
    }
    for k, v in t.items():
        ARR_TABLE[k] = ((), v)
    return tuple(t)


ARR_TYPED = _typed_bounds()


def Ptr(*quals):
    return ("ptr", tuple(quals))


def Arr(key="N"):
    return ("arr", key)


def Fn(key="void"):
    return ("fn", key)


def arr_info(sym):
    k = sym[1]
    return ARR_TABLE[k] if isinstance(k, str) else tuple(k)


def fn_info(sym):
    k = sym[1]
    return FN_TABLE[k] if isinstance(k, str) else FnInfo(*k)


def symbols(param=False, funcdef_first=False):
    """The derivation alphabet for an object declaration / a parameter."""
    out = [("ptr", q) for q in PTR_QUALS]
    out += [("arr", k) for k in ARR_OBJECT]
    if param:
        out += [("arr", k) for k in ARR_PARAM_OUTER + ARR_PROTO]
    out += [("fn", k) for k in FN_PROTO]
    if funcdef_first:
        out += [("fn", "knr")]
    return out


def can_extend(seq, sym, param=False, funcdef=False):
    """May `sym` be the next (outer-to-inner) derivation after `seq`?  Only
    types C can form: no function returning function/array, no array of
    functions, no array of incomplete arrays, no restrict-qualified pointer to
    function; parameter-only array forms where 6.7.5.2 allows them."""
    i = len(seq)
    kind = sym[0]
    if kind == "arr" and isinstance(sym[1], str):
        k = sym[1]
        if k in ARR_PARAM_OUTER and not (param and i == 0):
            return False
        if k in ARR_PROTO and not param:
            return False
    if kind == "fn" and sym[1] == "knr" and not (funcdef and i == 0):
        return False
    if seq:
        prev = seq[-1]
        if prev[0] == "fn" and kind in ("fn", "arr"):
            return False
        if prev[0] == "arr" and kind == "fn":
            return False
        if prev[0] == "arr" and kind == "arr" and arr_info(sym) == ((), None):
            return False
        if prev[0] == "ptr" and "restrict" in prev[1] and kind == "fn":
            return False
    return True


def valid_seq(seq, param=False, funcdef=False):
    for i, s in enumerate(seq):
        if not can_extend(tuple(seq[:i]), s, param, funcdef):
            return False
    return True


def sequences(maxlen, param=False, funcdef=False, alphabet=None, stats=None):
    """All valid derivation sequences of length <= maxlen, smallest first.
    `stats` (dict) receives states / transitions of the enumeration."""
    alpha = alphabet if alphabet is not None else symbols(param, funcdef)
    level = [()]
    out = [()]
    tr = 0
    for _ in range(maxlen):
        nxt = []
        for s in level:
            for a in alpha:
                if can_extend(s, a, param, funcdef):
                    nxt.append(s + (a,))
                    tr += 1
        out.extend(nxt)
        level = nxt
    if stats is not None:
        stats["states"] = stats.get("states", 0) + len(out)
        stats["transitions"] = stats.get("transitions", 0) + tr
    return out


def sym_class(sym):
    """Anonymised class of a derivation symbol (for failure signatures)."""
    if sym[0] == "ptr":
        return "ptr" if not sym[1] else "ptr[qual]"
    if sym[0] == "arr":
        dq, dim = arr_info(sym)
        inner = ""
        if "static" in dq:
            inner = "static"
        elif dq:
            inner = "qual"
        if dim == "*":
            inner += "*"
        elif dim is not None and not dq:
            inner = "N" if dim[0] in ("c", "id") else "type-name-bound"
        return f"array[{inner}]"
    fi = fn_info(sym)
    if fi.knr is not None:
        return "fn(knr)"
    if fi.params is None:
        return "fn()"
    if fi.ellipsis:
        return "fn(...)"
    if len(fi.params) == 1 and fi.params[0].spec == S_VOID and not fi.params[0].seq:
        return "fn(void)"
    if any(p.name for p in fi.params):
        return "fn(named)"
    return "fn(params)"


def term_sig(seq):
    if not seq:
        return "plain"
    s = ""
    for sym in reversed(seq):
        c = sym_class(sym)
        s = f"{c}({s})" if s else c
    return s


# ---------------------------------------------------------------------------
# render  (tokens)
# ---------------------------------------------------------------------------
def render_atom(e):
    """Expression atoms: ("c", "3") | ("id", "K") and the type-name bearing
    forms ("sizeof", TypeName) | ("alignof", TypeName) | ("cast", TypeName, e)
    | ("complit", TypeName, init) | ("index", e, e)."""
    k = e[0]
    if k in ("c", "id"):
        return [e[1]]
    if k == "sizeof":
        return ["sizeof", "("] + render_typename(e[1]) + [")"]
    if k == "alignof":
        return ["_Alignof", "("] + render_typename(e[1]) + [")"]
    if k == "cast":
        return ["("] + render_typename(e[1]) + [")"] + render_atom(e[2])
    if k == "complit":
        return ["("] + render_typename(e[1]) + [")"] + render_init(e[2])
    if k == "index":
        return render_atom(e[1]) + ["["] + render_atom(e[2]) + ["]"]
    raise ValueError(e)


def render_declarator(name, seq, redundant=False):
    """C99 6.7.5, inside-out.  `toks` is always a declarator for the
    derivations applied so far; `direct` says whether it is a direct-declarator
    (6.7.5p1 syntax: only an identifier, a parenthesised declarator, or a
    direct-declarator followed by [..] / (..) is one).  An array or function
    suffix may only be appended to a direct-declarator (6.7.5.2p3 / 6.7.5.3p1:
    "D1[...]", "D1(...)" with D1 a direct-declarator), a '*' may be put in
    front of anything (6.7.5.1: "* type-qualifier-list_opt D").

    C11 6.7.2.4p4: an `_Atomic` immediately followed by '(' is the atomic type
    *specifier*, never the qualifier, so `* _Atomic (D)` cannot be written;
    such a term raises Unrenderable and callers skip it."""
    toks = [name] if name else []
    direct = True

    def atomic_ptr(j):
        # is derivation j a pointer whose qualifier list ends in _Atomic?
        return seq[j][0] == "ptr" and seq[j][1][-1:] == ("_Atomic",)

    # redundant mode: one extra pair of parentheses round the name and round
    # the declarator after every derivation step (-1 = the name) - except the
    # pairs that would make an `_Atomic`-qualified pointer write `_Atomic (`.
    nowrap = set()
    for i in range(len(seq)):
        if atomic_ptr(i):
            j = i - 1
            while j >= 0:
                nowrap.add(j)
                if seq[j][0] == "ptr":
                    break
                j -= 1
            else:
                nowrap.add(-1)
    if redundant and toks and -1 not in nowrap:
        toks = ["("] + toks + [")"]
    for i, sym in enumerate(seq):
        if sym[0] == "ptr":
            if atomic_ptr(i) and toks and toks[0] == "(":
                raise Unrenderable("_Atomic (")
            toks = ["*"] + list(sym[1]) + toks
            direct = False
        else:
            if not direct:
                toks = ["("] + toks + [")"]
            if sym[0] == "arr":
                dq, dim = arr_info(sym)
                toks = (
                    toks
                    + ["["]
                    + list(dq)
                    + (["*"] if dim == "*" else render_atom(dim) if dim else [])
                    + ["]"]
                )
            else:
                toks = toks + render_params(fn_info(sym))
            direct = True
        if redundant and i not in nowrap:
            toks = ["("] + toks + [")"]
            direct = True
    return toks


def render_params(fi):
    if fi.knr is not None:
        out = ["("]
        for i, n in enumerate(fi.knr):
            out += ([","] if i else []) + [n]
        return out + [")"]
    if fi.params is None:
        return ["(", ")"]
    out = ["("]
    for i, p in enumerate(fi.params):
        out += ([","] if i else []) + render_entity(p)
    if fi.ellipsis:
        out += [",", "..."]
    return out + [")"]


def render_entity(e, redundant=False):
    return render_spec(e.spec) + render_declarator(e.name, e.seq, redundant)


def render_typename(tn, redundant=False):
    return render_spec(tn.spec) + render_declarator(None, tn.seq, redundant)


def render_spec(spec):
    out = []
    for it in spec:
        k = it[0]
        if k in ("storage", "qual", "func", "word", "tname"):
            out.append(it[1])
        elif k == "alignc":
            out += ["_Alignas", "("] + render_atom(it[1]) + [")"]
        elif k == "alignt":
            out += ["_Alignas", "("] + render_typename(it[1]) + [")"]
        elif k == "atomic":
            out += ["_Atomic", "("] + render_typename(it[1]) + [")"]
        elif k == "su":
            _, kw, tag, members = it
            out.append(kw)
            if tag:
                out.append(tag)
            if members is not None:
                out.append("{")
                for m in members:
                    out += render_decln(m) + [";"]
                out.append("}")
        elif k == "enum":
            _, tag, ens, trailing = it
            out.append("enum")
            if tag:
                out.append(tag)
            if ens is not None:
                out.append("{")
                for i, (n, v) in enumerate(ens):
                    out += ([","] if i else []) + [n] + (["="] + render_atom(v) if v else [])
                if trailing:
                    out.append(",")
                out.append("}")
        else:
            raise ValueError(it)
    return out


def render_init(init):
    if init[0] in ("c", "id"):
        return render_atom(init)
    _, items, trailing = init
    out = ["{"]
    for i, (des, val) in enumerate(items):
        if i:
            out.append(",")
        for d in des:
            out += [".", d[1]] if d[0] == "." else ["["] + render_atom(d[1]) + ["]"]
        if des:
            out.append("=")
        out += render_init(val)
    if trailing:
        out.append(",")
    return out + ["}"]


def render_dtor(d, redundant=False):
    out = render_declarator(d.name, d.seq, redundant)
    if d.bits is not None:
        out += [":"] + render_atom(d.bits)
    if d.init is not None:
        out += ["="] + render_init(d.init)
    return out


def render_decln(d, redundant=False):
    """Declaration without its terminating ';'."""
    out = render_spec(d.spec)
    for i, t in enumerate(d.dtors):
        out += ([","] if i else []) + render_dtor(t, redundant)
    return out


# ---------------------------------------------------------------------------
# expect  (canonical pycparser AST)
# ---------------------------------------------------------------------------
def expect_atom(e):
    k = e[0]
    if k == "c":
        return N("Constant", type="int", value=e[1])
    if k == "id":
        return N("ID", name=e[1])
    if k == "sizeof":
        return N("UnaryOp", op="sizeof", expr=expect_typename(e[1]))
    if k == "alignof":
        return N("UnaryOp", op="_Alignof", expr=expect_typename(e[1]))
    if k == "cast":
        return N("Cast", to_type=expect_typename(e[1]), expr=expect_atom(e[2]))
    if k == "complit":
        return N("CompoundLiteral", type=expect_typename(e[1]), init=expect_init(e[2]))
    if k == "index":
        return N("ArrayRef", name=expect_atom(e[1]), subscript=expect_atom(e[2]))
    raise ValueError(e)


def expect_init(init):
    if init[0] in ("c", "id"):
        return expect_atom(init)
    _, items, _trailing = init
    ex = []
    for des, val in items:
        v = expect_init(val)
        if des:
            names = [N("ID", name=d[1]) if d[0] == "." else expect_atom(d[1]) for d in des]
            v = N("NamedInitializer", name=names, expr=v)
        ex.append(v)
    return N("InitList", exprs=ex)


SpecInfo = namedtuple("SpecInfo", "quals storage funcspec align base atomic")


def expect_spec(spec):
    quals, storage, funcspec, align, words = [], [], [], [], []
    base = None
    atomic = None
    for it in spec:
        k = it[0]
        if k == "storage":
            storage.append(it[1])
        elif k == "qual":
            quals.append(it[1])
        elif k == "func":
            funcspec.append(it[1])
        elif k in ("word", "tname"):
            words.append(it[1])
        elif k == "alignc":
            align.append(N("Alignas", alignment=expect_atom(it[1])))
        elif k == "alignt":
            align.append(N("Alignas", alignment=expect_typename(it[1])))
        elif k == "atomic":
            atomic = it[1]
        elif k == "su":
            _, kw, tag, members = it
            decls = None
            if members is not None:
                decls = []
                for m in members:
                    decls += expect_decln(m)
            base = N("Struct" if kw == "struct" else "Union", name=tag, decls=decls)
        elif k == "enum":
            _, tag, ens, _trailing = it
            values = None
            if ens is not None:
                values = N(
                    "EnumeratorList",
                    enumerators=[
                        N("Enumerator", name=n, value=expect_atom(v) if v else None)
                        for n, v in ens
                    ],
                )
            base = N("Enum", name=tag, values=values)
    if words:
        base = N("IdentifierType", names=words)
    return SpecInfo(quals, storage, funcspec, align, base, atomic)


def resolve(si, seq):
    """(full derivation sequence, qualifiers of the base level, base type node).
    `_Atomic(type-name)` denotes the _Atomic-qualified version of that type
    (C11 6.7.2.4p4): its derivations continue the declarator's, and _Atomic
    qualifies the outermost level of the named type."""
    quals = list(si.quals)
    seq = tuple(seq)
    if si.atomic is None:
        return seq, quals, si.base
    isi = expect_spec(si.atomic.spec)
    iseq, iquals, ibase = resolve(isi, si.atomic.seq)
    if iseq:
        head = iseq[0]
        if head[0] != "ptr":
            raise ValueError("_Atomic(array/function type) is not a C type")
        # qualifiers written next to the specifier qualify the atomic (pointer)
        # type itself: `const _Atomic(int *) p` is `int * const _Atomic p`;
        # qualifiers inside the type name stay on the level they were written
        hq = tuple(quals) + tuple(q for q in head[1] if q not in quals)
        if "_Atomic" not in hq:
            hq += ("_Atomic",)
        return seq + (("ptr", hq),) + iseq[1:], iquals, ibase
    q = quals + [x for x in iquals if x not in quals]
    if "_Atomic" not in q:
        q.append("_Atomic")
    return seq, q, ibase


def expect_params(fi):
    if fi.knr is not None:
        if not fi.knr:
            return None
        return N("ParamList", params=[N("ID", name=n) for n in fi.knr])
    if fi.params is None:
        return None
    ps = [expect_param(p) for p in fi.params]
    if fi.ellipsis:
        ps.append(N("EllipsisParam"))
    return N("ParamList", params=ps)


def expect_chain(declname, seq, quals, base):
    node = N("TypeDecl", declname=declname, quals=list(quals), align=None, type=base)
    for sym in reversed(seq):
        if sym[0] == "ptr":
            node = N("PtrDecl", quals=list(sym[1]), type=node)
        elif sym[0] == "arr":
            dq, dim = arr_info(sym)
            d = None if dim is None else N("ID", name="*") if dim == "*" else expect_atom(dim)
            node = N("ArrayDecl", type=node, dim=d, dim_quals=list(dq))
        else:
            node = N("FuncDecl", args=expect_params(fn_info(sym)), type=node)
    return node


def expect_typename(tn):
    si = expect_spec(tn.spec)
    seq, quals, base = resolve(si, tn.seq)
    return N("Typename", name=None, quals=quals, align=None,
             type=expect_chain(None, seq, quals, base))


def expect_param(e):
    if e.name is None:
        return expect_typename(TypeName(e.spec, e.seq))
    return expect_decln(Decln(e.spec, (Dtor(e.name, e.seq, None, None),)))[0]


def expect_decln(d):
    """List of Decl / Typedef nodes one declaration yields (one per declarator;
    a declaration without declarators yields one nameless Decl holding the
    struct/union/enum specifier)."""
    si = expect_spec(d.spec)
    is_td = "typedef" in si.storage
    out = []
    if not d.dtors:
        if si.atomic is not None or si.base is None or si.base[0] == "IdentifierType":
            raise ValueError("declaration without declarators needs a tag/body")
        return [N("Decl", name=None, quals=si.quals, align=si.align, storage=si.storage,
                  funcspec=si.funcspec, type=si.base, init=None, bitsize=None)]
    for t in d.dtors:
        seq, quals, base = resolve(si, t.seq)
        chain = expect_chain(t.name, seq, quals, base)
        if is_td:
            out.append(N("Typedef", name=t.name, quals=quals, storage=si.storage, type=chain))
        else:
            out.append(N(
                "Decl", name=t.name, quals=quals, align=si.align, storage=si.storage,
                funcspec=si.funcspec, type=chain,
                init=expect_init(t.init) if t.init is not None else None,
                bitsize=expect_atom(t.bits) if t.bits is not None else None,
            ))
    return out


# ---------------------------------------------------------------------------
# contexts
# ---------------------------------------------------------------------------
DECL_CONTEXTS = ("file", "block", "for", "member", "typedef")   # take a Decln
PARAM_CONTEXTS = ("param", "param_abs")                          # take an Entity
TYPENAME_CONTEXTS = ("cast", "sizeof", "alignof", "complit")     # take a TypeName
CONTEXTS = DECL_CONTEXTS[:3] + PARAM_CONTEXTS + DECL_CONTEXTS[3:] + TYPENAME_CONTEXTS
NAMED_CONTEXTS = ("file", "block", "for", "param", "member", "typedef")
ABSTRACT_CONTEXTS = ("param_abs",) + TYPENAME_CONTEXTS

PREFIX_T = ["typedef", "int", "T", ";"]


def _prefix_T_ast():
    return [N("Typedef", name="T", quals=[], storage=["typedef"],
              type=N("TypeDecl", declname="T", quals=[], align=None,
                     type=N("IdentifierType", names=["int"])))]


def _simple_decl(name, typ_words, type_wrap=None, init=None):
    td = N("TypeDecl", declname=name, quals=[], align=None,
           type=N("IdentifierType", names=typ_words))
    return N("Decl", name=name, quals=[], align=[], storage=[], funcspec=[],
             type=type_wrap(td) if type_wrap else td, init=init, bitsize=None)


def _void_params():
    return N("ParamList", params=[expect_typename(TypeName(S_VOID, ()))])


def _funcdef_g(items):
    return N(
        "FuncDef",
        decl=_simple_decl("g", ["void"], lambda td: N("FuncDecl", args=_void_params(), type=td)),
        param_decls=None,
        body=N("Compound", block_items=items),
    )


def uses_T(obj):
    """Does a model term mention the typedef name T?"""
    if isinstance(obj, tuple):
        if len(obj) == 2 and obj[0] == "tname":
            return True
        if len(obj) == 2 and obj[0] == "fn" and isinstance(obj[1], str):
            return uses_T(FN_TABLE[obj[1]])
        return any(uses_T(x) for x in obj)
    return False


def place(ctx, item, redundant=False, with_T=None, init=None):
    """(token list of a whole translation unit, expected FileAST canon).

    file/block/for/member/typedef take a Decln ('typedef' adds the keyword in
    front of the specifiers); param/param_abs an Entity; the type-name contexts
    a TypeName.  `init` replaces the `{ 1 }` of the compound literal."""
    if with_T is None:
        with_T = uses_T(item)
    pre = list(PREFIX_T) if with_T else []
    ext = _prefix_T_ast() if with_T else []
    if ctx in DECL_CONTEXTS:
        d = item
        if ctx == "typedef":
            d = Decln((("storage", "typedef"),) + tuple(d.spec), d.dtors)
        body = render_decln(d, redundant)
        nodes = expect_decln(d)
        if ctx in ("file", "typedef"):
            toks = body + [";"]
            ext += nodes
        elif ctx == "block":
            toks = ["void", "g", "(", "void", ")", "{"] + body + [";", "}"]
            ext.append(_funcdef_g(nodes))
        elif ctx == "for":
            toks = ["void", "g", "(", "void", ")", "{", "for", "("] + body + [";", ";", ")", ";", "}"]
            ext.append(_funcdef_g([N("For", init=N("DeclList", decls=nodes), cond=None, next=None,
                                     stmt=N("EmptyStatement"))]))
        else:  # member
            toks = ["struct", "M", "{"] + body + [";", "}", ";"]
            ext.append(N("Decl", name=None, quals=[], align=[], storage=[], funcspec=[],
                         type=N("Struct", name="M", decls=nodes), init=None, bitsize=None))
    elif ctx in PARAM_CONTEXTS:
        e = item
        if (ctx == "param") != (e.name is not None):
            raise ValueError("param needs a name, param_abs must not have one")
        toks = ["void", "g", "(", *render_entity(e, redundant), ")", ";"]
        ext.append(_simple_decl("g", ["void"], lambda td: N(
            "FuncDecl", args=N("ParamList", params=[expect_param(e)]), type=td)))
    elif ctx in TYPENAME_CONTEXTS:
        tn = item
        t = render_typename(tn, redundant)
        tnode = expect_typename(tn)
        if ctx == "cast":
            toks = ["int", "v", "=", "(", *t, ")", "w", ";"]
            init = N("Cast", to_type=tnode, expr=N("ID", name="w"))
        elif ctx == "sizeof":
            toks = ["int", "v", "=", "sizeof", "(", *t, ")", ";"]
            init = N("UnaryOp", op="sizeof", expr=tnode)
        elif ctx == "alignof":
            toks = ["int", "v", "=", "_Alignof", "(", *t, ")", ";"]
            init = N("UnaryOp", op="_Alignof", expr=tnode)
        else:
            il = init if init is not None else ("list", (((), ("c", "1")),), False)
            toks = ["int", "v", "=", "(", *t, ")", *render_init(il), ";"]
            init = N("CompoundLiteral", type=tnode, init=expect_init(il))
        ext.append(_simple_decl("v", ["int"], init=init))
    else:
        raise ValueError(ctx)
    return pre + toks, N("FileAST", ext=ext)


def place_entity(ctx, name, seq, spec, redundant=False):
    """The (a) family: one declared entity in one of the 10 contexts."""
    if ctx in DECL_CONTEXTS:
        return place(ctx, Decln(tuple(spec), (Dtor(name, tuple(seq), None, None),)), redundant)
    if ctx in PARAM_CONTEXTS:
        return place(ctx, Entity(name, tuple(seq), tuple(spec)), redundant)
    return place(ctx, TypeName(tuple(spec), tuple(seq)), redundant)


def place_funcdef(d, knr_decls=None, redundant=False):
    """Function definition: `d` has one declarator whose first derivation is a
    function; `knr_decls` is the K&R declaration list (list of Decln) or None."""
    with_T = uses_T(d) or uses_T(tuple(knr_decls or ()))
    toks = list(PREFIX_T) if with_T else []
    ext = _prefix_T_ast() if with_T else []
    toks += render_decln(d, redundant)
    pd = None
    if knr_decls:
        pd = []
        for k in knr_decls:
            toks += render_decln(k) + [";"]
            pd += expect_decln(k)
    toks += ["{", "}"]
    ext.append(N("FuncDef", decl=expect_decln(d)[0], param_decls=pd,
                 body=N("Compound", block_items=None)))
    return toks, N("FileAST", ext=ext)


def text(tokens):
    return " ".join(tokens)


# ---------------------------------------------------------------------------
# gcc audit: the same type rebuilt from one-derivation typedefs
# ---------------------------------------------------------------------------
def typedef_chain(spec, seq, stem):
    """C lines `typedef <spec> stem_0; typedef stem_0 *stem_1; ...` applying one
    derivation per typedef, innermost first; returns (lines, final name).  The
    only declarator knowledge used: `* quals NAME`, `NAME[...]`, `NAME(...)`."""
    lines = [f"typedef {text(render_spec(spec))} {stem}_0;"]
    cur = f"{stem}_0"
    for i, sym in enumerate(reversed(seq), 1):
        nxt = f"{stem}_{i}"
        lines.append(f"typedef {cur} {text(render_declarator(nxt, (sym,)))};")
        cur = nxt
    return lines, cur


def to_jsonable(c):
    if isinstance(c, tuple):
        return [to_jsonable(x) for x in c]
    return c

"""C05 - statement ASTs mirror C's statement nesting and source order.

Tree-model engine (DESIGN 3.B / 4.7 / 5 C05): every statement term of the
reference model inside the bounds is rendered, parsed by the real parser, and
canon(FuncDef.body) must equal the model's expected form; every pragma text must
occur exactly once in the AST.
"""
from __future__ import annotations

import itertools

from mc import core
from models import stmt_model as M

PID = "C05"
FORMS = ("hash", "op")
MAX_MINIMISED_PER_TASK = 100

# lists shared with the fork pool (filled by _prepare before the first pmap)
L = {}


# ---------------------------------------------------------------------------
# one case
# ---------------------------------------------------------------------------
def _pragma_nodes(c, out):
    """Collect the string of every Pragma node in a canon form."""
    if isinstance(c, tuple):
        if len(c) == 2 and c[0] == "Pragma" and isinstance(c[1], tuple):
            v = c[1][0][1]
            if isinstance(v, tuple) and v and v[0] == "Constant":
                v = dict(v[1])["value"]
                out.append(("op", v[1:-1] if isinstance(v, str) else v))
            else:
                out.append(("hash", v))
            return
        for e in c:
            _pragma_nodes(e, out)


def _single_funcdef(ast, t, td):
    """The FuncDef of the program, or None if the translation unit is not
    [typedefs of the label names...] + one function."""
    k = len(M.label_names(t)) if td else 0
    if len(ast.ext) != k + 1 or ast.ext[-1].__class__.__name__ != "FuncDef":
        return None
    if any(e.__class__.__name__ != "Typedef" for e in ast.ext[:k]):
        return None
    return ast.ext[-1]


def check_body(t, mode, parser, td=False):
    """t: labelled block item used as the only item of f's body.
    td: every label name is also declared as a typedef name at file scope.
    Returns None or (kind, detail, got, exp)."""
    text = (M.typedef_prefix(t) if td else "") + M.body_text(t, mode)
    out = core.parse_outcome(text, parser=parser)
    if out[0] == "perr":
        return ("reject", out[1], None, None)
    if out[0] != "ok":
        return ("exc:" + str(out[1] if len(out) > 1 else out[0]), out[-1], None, None)
    ast = out[1]
    fd = _single_funcdef(ast, t, td)
    if fd is None:
        return ("mismatch", "not a single FuncDef", None, None)
    got = core.canon(fd.body)
    exp = M.body_expect(t, mode)
    if got != exp:
        return ("mismatch", "/".join(core.first_diff(got, exp) or ()), got, exp)
    texts = M.pragma_texts(M.resolve(t, mode))
    if texts:
        found = []
        _pragma_nodes(got, found)
        names = sorted(x[1] for x in found)
        if names != sorted(texts):
            return ("pragma-count", "pragma texts in AST %r, in source %r" % (names, sorted(texts)), None, None)
    return None


# ---------------------------------------------------------------------------
# failure signatures: minimal failing term, leaves anonymised
# ---------------------------------------------------------------------------
_LEAF = {"expr", "empty", "goto", "break", "continue", "return"}


def _size(t):
    return 1 + sum(_size(c) for c in M._children(t)) + (len(t[1]) if t[0] == "pp" else 0)


def _candidates(t):
    """Strictly smaller valid shapes: every sub-term, t with one child replaced
    by a leaf, t with one block item dropped, t with one pragma dropped."""
    return [c for c in _raw_candidates(t) if M.valid(c)]


def _raw_candidates(t):
    out = []
    k = t[0]
    for ch in M._children(t):
        out.append(ch)
    leaf = ("expr", None)
    if k == "compound":
        its = t[1]
        for i in range(len(its)):
            out.append(("compound", its[:i] + its[i + 1:]))
            for c in _raw_candidates(its[i]):
                out.append(("compound", its[:i] + (c,) + its[i + 1:]))
    elif k == "pp":
        if len(t[1]) > 1:
            for i in range(len(t[1])):
                out.append(("pp", t[1][:i] + t[1][i + 1:], t[2]))
        else:
            out.append(t[2])
        if t[2][0] not in _LEAF:
            out.append(("pp", t[1], leaf))
        for c in _raw_candidates(t[2]):
            out.append(("pp", t[1], c))
    else:
        for slot, ch in M._slots(t):
            if ch is None:
                continue
            if k in ("case", "default", "label") and ch[0] in _LEAF:
                out.append(t[:slot] + (None,) + t[slot + 1:])   # label directly before '}'
            if ch[0] not in _LEAF:
                out.append(t[:slot] + (leaf,) + t[slot + 1:])
            for c in _raw_candidates(ch):
                out.append(t[:slot] + (c,) + t[slot + 1:])
    return out


def minimise(shape, mode, kind, parser, budget=400, td=False):
    """Greedy reduction to a locally minimal shape failing with the same kind."""
    cur = shape
    while budget > 0:
        best = None
        for c in sorted(_candidates(cur), key=_size):
            budget -= 1
            try:
                r = check_body(M.label(c), mode, parser, td)
            except Exception:
                continue
            if r is not None and r[0] == kind:
                best = c
                break
            if budget <= 0:
                break
        if best is None:
            break
        cur = best
    return cur


_SK = {"while": "loop", "do": "loop", "for": "loop", "case": "caselabel", "default": "caselabel"}


def sketch(t):
    k = t[0]
    if k in _LEAF:
        return "_"
    if k == "compound":
        return "{" + ",".join(sketch(i) for i in t[1]) + "}"
    if k == "if":
        return "if(%s)" % sketch(t[2]) if t[3] is None else "ifelse(%s,%s)" % (sketch(t[2]), sketch(t[3]))
    if k == "pp":
        return "pragma*%d+%s" % (len(t[1]), sketch(t[2])) if len(t[1]) > 1 else "pragma+" + sketch(t[2])
    if k == "pragma":
        return "pragma"
    if k == "decl":
        return "decl"
    if k == "sassert":
        return "static_assert"
    ch = M._children(t)
    name = _SK.get(k, k)
    return name + ("(%s)" % sketch(ch[0]) if ch else "()")


def _pragma_text_sig(r):
    """One signature for 'the Pragma string is not the source text', whatever
    the statement around it."""
    if r[0] != "mismatch":
        return None
    d = r[1]
    if "/Pragma.string/Constant.value/value:" in d:
        return "pragma-text-not-verbatim:_Pragma"
    if "/Pragma.string/value:" in d:
        return "pragma-text-not-verbatim:#pragma"
    return None


def _label_position(t, parent="block"):
    """'substatement' if some ordinary label of t is not a direct block item,
    else 'block-item' (None without labels)."""
    res = None
    if t[0] == "label":
        if parent != "block":
            return "substatement"
        res = "block-item"
    for ch in M._children(t):
        r = _label_position(ch, "block" if t[0] == "compound" else "sub")
        if r == "substatement":
            return r
        res = res or r
    return res


def _td_sig(kind, m, mode, parser):
    """Signature of a failure of the typedef-named-label rendering: if the same
    term is fine with plain label names, the spelling is the cause and the
    statement around the label does not matter."""
    try:
        plain_ok = check_body(M.label(m), mode, parser, False) is None
    except Exception:
        plain_ok = False
    if plain_ok:
        return "typedef-named-label:%s:label-as-%s" % (kind, _label_position(m) or "none")
    return "typedef-named-label:%s:%s" % (kind, sketch(m))


class _Acc:
    def __init__(self):
        self.fails = []
        self.c = {}
        self.kinds = {}
        self.samples = []
        self.minimised = 0
        self.seen = set()

    def add(self, k, n=1):
        self.c[k] = self.c.get(k, 0) + n


def _nodes(t, ks):
    ks.add(t[0] if t[0] != "if" or t[3] is None else "ifelse")
    n = 1
    if t[0] == "pp":
        ks.add("pragma")
        n += len(t[1])
    for c in M._children(t):
        n += _nodes(c, ks)
    return n


def run_shape(shape, acc, parser, src):
    """Replay one model term (all applicable render modes)."""
    t = M.label(shape)
    ks = set()
    n = _nodes(shape, ks)
    acc.add("terms")
    acc.add("transitions", n)
    for k in ks:
        acc.kinds[k] = acc.kinds.get(k, 0) + 1
    modes = [("minimal", False)] + ([("ambiguous", False)] if M.has_dangling(shape) else [])
    if "label" in ks:
        # the same tree with every label spelled like a typedef name in scope
        modes.append(("minimal", True))
    for mode, td in modes:
        acc.add("replays")
        if mode == "ambiguous":
            acc.add("ambiguous_renderings")
        if td:
            acc.add("typedef_named_label_renderings")
        r = check_body(t, mode, parser, td)
        if r is None:
            if mode == "minimal" and not td and shape[0] not in _LEAF:
                acc.add("nontrivial")
            continue
        acc.add("failures")
        if acc.minimised < MAX_MINIMISED_PER_TASK:
            acc.minimised += 1
            m = minimise(shape, mode, r[0], parser, td=td)
            sig = _td_sig(r[0], m, mode, parser) if td else "%s:%s" % (r[0], sketch(m))
            tm = M.label(m)
            pre = M.typedef_prefix(tm) if td else ""
            acc.fails.append((sig, {"shape": _js(m), "wrap": True, "mode": mode, "td": td, "text": pre + M.body_text(tm, mode), "from": src,
                                    "original_text": (M.typedef_prefix(t) if td else "") + M.body_text(t, mode)},
                              (check_body(tm, mode, parser, td) or r)[1]))
        else:
            acc.add("failures_not_minimised")
    h = hash(shape)
    if h in acc.seen:
        acc.add("duplicate_terms_in_task")
    acc.seen.add(h)


def _js(t):
    """tuple term -> JSON-able nested lists (and back with _unjs)."""
    if isinstance(t, tuple):
        return [_js(x) for x in t]
    return t


def _unjs(t):
    if isinstance(t, list):
        return tuple(_unjs(x) for x in t)
    return t


# ---------------------------------------------------------------------------
# pragma insertion
# ---------------------------------------------------------------------------
def single_insertions(shape, forms_for_site):
    top = ("compound", (shape,))
    for i, site in enumerate(M.pragma_sites(top)):
        for form in forms_for_site(i):
            yield M.insert_pragma(top, site, form)


def pair_insertions(shape, form_pairs):
    top = ("compound", (shape,))
    seen = set()
    for f1, f2 in form_pairs:
        for s1 in M.pragma_sites(top):
            t1 = M.insert_pragma(top, s1, f1)
            for s2 in M.pragma_sites(t1):
                t2 = M.insert_pragma(t1, s2, f2)
                if t2 not in seen:
                    seen.add(t2)
                    yield t2


def run_top(top, acc, parser, src):
    """top is ('compound', items) standing for the function body itself."""
    t = M.label(top)
    # body_text wraps one item in braces; here the compound *is* the body
    ks = set()
    n = _nodes(top, ks)
    acc.add("terms")
    acc.add("transitions", n)
    for k in ks:
        acc.kinds[k] = acc.kinds.get(k, 0) + 1
    modes = [("minimal", False)] + ([("ambiguous", False)] if M.has_dangling(top) else [])
    if "label" in ks:
        modes.append(("minimal", True))
    for mode, td in modes:
        acc.add("replays")
        if td:
            acc.add("typedef_named_label_renderings")
        r = _check_top(t, mode, parser, td)
        if r is None:
            if not td:
                acc.add("nontrivial")
                acc.add("pragma_cases")
            continue
        acc.add("failures")
        psig = _pragma_text_sig(r)
        if psig is not None:
            acc.fails.append((psig, {"shape": _js(top), "wrap": False, "mode": mode, "td": td,
                                     "text": (M.typedef_prefix(t) if td else "") + M.FUNC_HEAD + M.render(t, mode),
                                     "from": src}, r[1]))
        elif acc.minimised < MAX_MINIMISED_PER_TASK:
            acc.minimised += 1
            # minimise as an ordinary block item (one more pair of braces)
            r2 = check_body(t, mode, parser, td)
            tdp = "typedef-named-label:" if td else ""
            if r2 is not None and r2[0] == r[0]:
                m = minimise(top, mode, r[0], parser, td=td)
                sig = _td_sig(r[0], m, mode, parser) if td else "%s:%s" % (r[0], sketch(m))
                text = (M.typedef_prefix(M.label(m)) if td else "") + M.body_text(M.label(m), mode)
                case = {"shape": _js(m), "wrap": True}
            else:
                sig = "%s%s:body%s" % (tdp, r[0], sketch(top))
                text = (M.typedef_prefix(t) if td else "") + M.FUNC_HEAD + M.render(t, mode)
                case = {"shape": _js(top), "wrap": False}
            case.update({"mode": mode, "td": td, "text": text, "from": src,
                         "original_text": (M.typedef_prefix(t) if td else "") + M.FUNC_HEAD + M.render(t, mode)})
            acc.fails.append((sig, case, r[1]))
        else:
            acc.add("failures_not_minimised")


def _check_top(t, mode, parser, td=False):
    text = (M.typedef_prefix(t) if td else "") + M.FUNC_HEAD + M.render(t, mode)
    out = core.parse_outcome(text, parser=parser)
    if out[0] == "perr":
        return ("reject", out[1])
    if out[0] != "ok":
        return ("exc:" + str(out[1] if len(out) > 1 else out[0]), out[-1])
    ast = out[1]
    fd = _single_funcdef(ast, t, td)
    if fd is None:
        return ("mismatch", "not a single FuncDef")
    got = core.canon(fd.body)
    exp = M.expect_stmt(t, mode)
    if got != exp:
        return ("mismatch", "/".join(core.first_diff(got, exp) or ()))
    texts = M.pragma_texts(M.resolve(t, mode))
    found = []
    _pragma_nodes(got, found)
    if sorted(x[1] for x in found) != sorted(texts):
        return ("pragma-count", "pragma texts in AST %r, in source %r" % (sorted(x[1] for x in found), sorted(texts)))
    return None


# ---------------------------------------------------------------------------
# file scope and struct bodies
# ---------------------------------------------------------------------------
FILE_ELEMS = ("decl", "pragma_hash", "pragma_op", "sassert", "func")
STRUCT_ELEMS = ("decl", "pragma_hash", "pragma_op", "sassert")


def _outer(ctx, seq):
    """(text, expected canon of FileAST.ext) for a sequence of elements at file
    scope / inside a struct body."""
    toks = []
    exp = []
    texts = []
    for i, e in enumerate(seq):
        if e == "decl":
            toks += ["int", "v%d" % i, ";"]
            exp.append(M.DECL("v%d" % i))
        elif e == "pragma_hash":
            toks.append("#pragma p%d" % i)
            exp.append(M.PRAGMA("hash", "p%d" % i))
            texts.append("p%d" % i)
        elif e == "pragma_op":
            toks += ["_Pragma", "(", '"p%d"' % i, ")"]
            exp.append(M.PRAGMA("op", "p%d" % i))
            texts.append("p%d" % i)
        elif e.startswith("pragma@"):
            # styled pragma text (blanks where a verbatim copy could lose them)
            p = M.label(("pragma", e[7:], None))
            p = ("pragma", p[1], p[2].replace("p0", "p%d" % i))
            M._rp(p, toks)
            exp.append(M.PRAGMA(p[1], p[2]))
            texts.append(p[2])
        elif e == "sassert":
            # at file scope and in a struct body the ';' is an empty declaration
            toks += ["_Static_assert", "(", str(i + 1), ",", '"%s"' % M.SA_MSG, ")", ";"]
            exp.append(M.N("StaticAssert", M.INT(i + 1), M.STR(M.SA_MSG)))
        elif e == "func":
            toks += ["void", "f", "(", "void", ")", "{", "#pragma q%d" % i, "x%d" % i, ";", "}"]
            exp.append(M.funcdef_expect(M.N("Compound", (M.PRAGMA("hash", "q%d" % i), M.ID("x%d" % i)))))
            texts.append("q%d" % i)
    if ctx == "file":
        return M._join(toks), tuple(exp), texts
    text = M._join(["struct", "S", "{"] + toks + ["}", ";"])
    st = M.N("Struct", "S", tuple(exp))
    return text, (M.N("Decl", None, (), (), (), (), st, None, None),), texts


def _check_outer(ctx, seq, parser):
    text, exp, texts = _outer(ctx, seq)
    out = core.parse_outcome(text, parser=parser)
    if out[0] == "perr":
        return ("reject", out[1], text)
    if out[0] != "ok":
        return ("exc:" + str(out[1] if len(out) > 1 else out[0]), out[-1], text)
    got = core.canon(out[1].ext)
    if got != exp:
        return ("mismatch", "/".join(core.first_diff(got, exp) or ()), text)
    found = []
    _pragma_nodes(got, found)
    if sorted(x[1] for x in found) != sorted(texts):
        return ("pragma-count", "pragma texts in AST %r, in source %r" % (sorted(x[1] for x in found), sorted(texts)), text)
    return None


def _outer_ok(ctx, seq):
    return ctx == "file" or "decl" in seq     # a struct needs a member


def _run_outer(ctx, seq, acc, parser):
    acc.add("terms")
    acc.add("transitions", len(seq) + 1)
    acc.add("replays")
    acc.add("outer_cases")
    r = _check_outer(ctx, seq, parser)
    if r is None:
        acc.add("nontrivial")
        return
    acc.add("failures")
    cur = tuple(seq)
    changed = True
    while changed:
        changed = False
        for i in range(len(cur)):
            c = cur[:i] + cur[i + 1:]
            if not _outer_ok(ctx, c):
                continue
            r2 = _check_outer(ctx, c, parser)
            if r2 is not None and r2[0] == r[0]:
                cur, changed = c, True
                break
    rm = _check_outer(ctx, cur, parser)
    sig = _pragma_text_sig(rm) or "%s:%s{%s}" % (r[0], "struct" if ctx == "struct" else "file", ",".join(sorted(set(cur))))
    acc.fails.append((sig, {"outer": ctx, "seq": list(cur), "text": rm[2], "original_text": r[2]}, rm[1]))


# ---------------------------------------------------------------------------
# workers
# ---------------------------------------------------------------------------
def _work(task):
    from pycparser.c_parser import CParser

    kind = task[0]
    parser = CParser()
    acc = _Acc()
    if kind == "tree":
        _, name, lo, hi = task
        for s in L[name][lo:hi]:
            run_shape(s, acc, parser, name)
        if lo == 0 or lo % 7 == 0:
            acc.samples.append(M.body_text(M.label(L[name][(lo + hi) // 2])))
    elif kind == "prag1":
        _, name, lo, hi, both_below = task
        for idx in range(lo, hi):
            s = L[name][idx]
            if idx < both_below:
                ff = lambda i: FORMS
            else:
                ff = lambda i, idx=idx: (FORMS[(i + idx) % 2],)
            for j, top in enumerate(single_insertions(s, ff)):
                run_top(top, acc, parser, name + "+pragma")
                if len(acc.samples) < 1 and idx % 5 == 3 and j == 5:
                    acc.samples.append(M.FUNC_HEAD + M.render(M.label(top)))
    elif kind == "pragx":
        # pragma texts with blanks in awkward places, at every boundary of one
        # representative tree per site class
        _, name, lo, hi = task
        for idx in range(lo, hi):
            for j, top in enumerate(single_insertions(L[name][idx], lambda i: M.EXTRA_FORMS)):
                run_top(top, acc, parser, name + "+styled-pragma")
                acc.add("styled_pragma_cases")
                if len(acc.samples) < 1 and j == 17:
                    acc.samples.append(M.FUNC_HEAD + M.render(M.label(top)))
    elif kind == "prag2":
        _, name, lo, hi, form_mode = task
        for idx in range(lo, hi):
            s = L[name][idx]
            if form_mode == "all":
                fp = [(a, b) for a in FORMS for b in FORMS]
            else:       # "mixed": one pragma of each form, both orders
                fp = [("hash", "op"), ("op", "hash")]
            for top in pair_insertions(s, fp):
                run_top(top, acc, parser, name + "+2pragmas")
    elif kind == "d3":
        _, lo, hi, shallow_name, with_pragmas = task
        for s in M.deep_shallow(L["red_exact2"][lo:hi], L[shallow_name], M.REDUCED):
            run_shape(s, acc, parser, "depth3")
            if with_pragmas:
                for top in single_insertions(s, lambda i: FORMS):
                    run_top(top, acc, parser, "depth3+pragma")
        if lo % 5 == 0:
            acc.samples.append(M.body_text(M.label(M.deep_shallow(L["red_exact2"][lo:lo + 1], L[shallow_name], M.REDUCED)[7])))
    elif kind == "switch":
        _, lo, hi = task
        for seq in L["switch_seqs"][lo:hi]:
            s = M.switch_from_sequence(seq)
            acc.add("switch_sequences")
            if s is None:
                acc.add("switch_sequences_not_c11")
                continue
            if s in L["full2_set"]:
                acc.add("switch_sequences_already_in_tree_sweep")
            else:
                run_shape(s, acc, parser, "switch-seq")
            # the same body behind a pragma, and (single statements) unbraced
            items = s[2][1]
            variants = [("switch", None, ("pp", (("pragma", form, None),), s[2])) for form in FORMS]
            if len(items) == 1 and items[0][0] not in ("decl", "pragma") and not M._tail_open(items[0]):
                variants.append(("switch", None, items[0]))
                variants += [("switch", None, ("pp", (("pragma", form, None),), items[0])) for form in FORMS]
            for v in variants:
                if v not in L["full2_set"]:
                    run_shape(v, acc, parser, "switch-seq-variant")
        acc.samples.append(M.body_text(M.label(M.switch_from_sequence(("case", "default", "stmt", "pragma_op", "switch")))))
    elif kind == "outer":
        _, ctx, lo, hi = task
        for seq in L["outer_" + ctx][lo:hi]:
            _run_outer(ctx, seq, acc, parser)
        acc.samples.append(_outer(ctx, L["outer_" + ctx][(lo + hi) // 2])[0])
    return acc.fails, acc.c, acc.kinds, acc.samples


def _ranges(n, step):
    return [(i, min(n, i + step)) for i in range(0, n, step)]


def _prepare(tier):
    quick = tier == "quick"
    lv = M.levels(2, M.FULL)
    L["full2"] = [s for x in lv for s in x]
    L["full_n01"] = len(lv[0]) + len(lv[1])
    L["full2_set"] = set(L["full2"])
    rl = M.levels(2, M.REDUCED)
    L["red2"] = [s for x in rl for s in x]
    L["red_exact2"] = rl[2]
    L["red0"] = rl[0]
    L["red01"] = rl[0] + rl[1]
    L["mid2"] = M.statements(2, M.MID)
    full1 = [s for x in lv[:2] for s in x]
    L["forforms"] = [("for", f, None, s) for f in M.FOR_FORMS_ALL if f not in M.FOR_FORMS_MAIN for s in full1]
    n = 4 if quick else 5
    L["switch_seqs"] = [q for k in range(0, n + 1) for q in itertools.product(M.SWITCH_ELEMS, repeat=k)]
    # focused family beyond the length bound (lead): runs of 2-4 stacked labels
    # followed by 1-3 statements, optionally followed by another labelled group
    have = set(L["switch_seqs"])
    for k in (2, 3, 4):
        for labels in itertools.product(("case", "default"), repeat=k):
            if labels.count("default") > 1:
                continue
            for m_ in (1, 2, 3):
                for tail in ((), ("case", "stmt"), ("case", "case", "stmt", "stmt")):
                    q = labels + ("stmt",) * m_ + tail
                    if q not in have:
                        have.add(q)
                        L["switch_seqs"].append(q)
    m = 3 if quick else 4
    L["outer_file"] = [q for k in range(1, m + 1) for q in itertools.product(FILE_ELEMS, repeat=k)]
    L["outer_struct"] = [q for k in range(1, m + 1) for q in itertools.product(STRUCT_ELEMS, repeat=k) if "decl" in q]
    for f in M.EXTRA_FORMS:
        e = "pragma@" + f
        L["outer_file"] += [(e,), ("decl", e), (e, "decl"), ("decl", e, "decl"), (e, "func"), ("func", e), (e, e)]
        L["outer_struct"] += [("decl", e), (e, "decl"), ("decl", e, "decl"), ("decl", e, e)]
    return n, m


def run(tier):
    R = core.Run(PID, tier, "model_checking")
    quick = tier == "quick"
    nsw, nout = _prepare(tier)
    tasks = []
    # smallest first: outer sequences, switch bodies, the tree sweeps, insertions
    for ctx in ("file", "struct"):
        tasks += [("outer", ctx, lo, hi) for lo, hi in _ranges(len(L["outer_" + ctx]), 400)]
    tasks += [("tree", "full2", lo, hi) for lo, hi in _ranges(len(L["full2"]), 2000)]
    tasks += [("tree", "forforms", lo, hi) for lo, hi in _ranges(len(L["forforms"]), 800)]
    tasks += [("switch", lo, hi) for lo, hi in _ranges(len(L["switch_seqs"]), 1000)]
    # styled pragma texts (trailing / leading / internal blanks, empty text) at
    # every boundary of the full-alphabet depth<=1 trees (every site class)
    tasks += [("pragx", "full2", lo, hi) for lo, hi in _ranges(L["full_n01"], 20)]
    # single pragma insertions at every statement / declaration boundary
    tasks += [("prag1", "forforms", lo, hi, 10 ** 9) for lo, hi in _ranges(len(L["forforms"]), 400)]
    if quick:
        tasks += [("prag1", "full2", lo, hi, 10 ** 9) for lo, hi in _ranges(L["full_n01"], 40)]
        tasks += [("prag1", "mid2", lo, hi, 10 ** 9) for lo, hi in _ranges(len(L["mid2"]), 200)]
    else:
        tasks += [("prag1", "full2", lo, hi, 10 ** 9) for lo, hi in _ranges(len(L["full2"]), 400)]
    # depth 3 over the reduced alphabet: one deep child, the other shallow
    shallow = "red0" if quick else "red01"
    step = 100 if quick else 8
    tasks += [("d3", lo, hi, shallow, False) for lo, hi in _ranges(len(L["red_exact2"]), step)]
    if not quick:
        tasks += [("d3", lo, hi, "red0", True) for lo, hi in _ranges(len(L["red_exact2"]), 50)]
        # all pairs of pragma insertions
        tasks += [("prag2", "mid2", lo, hi, "mixed") for lo, hi in _ranges(len(L["mid2"]), 50)]
        tasks += [("prag2", "full2", lo, hi, "all") for lo, hi in _ranges(L["full_n01"], 40)]

    tot = {}
    kinds = {}
    samples = []
    for fails, c, ks, smp in core.pmap(_work, tasks, chunksize=1):
        R.fail_many(fails)
        for k, v in c.items():
            tot[k] = tot.get(k, 0) + v
        for k, v in ks.items():
            kinds[k] = kinds.get(k, 0) + v
        samples += smp

    R.set("states", tot.get("terms", 0))
    R.set("transitions", tot.get("transitions", 0))
    R.set("traces_validated_against_impl", tot.get("replays", 0))
    R.set("evaluations", tot.get("replays", 0))
    R.set("distinct_nontrivial", tot.get("nontrivial", 0))
    R.set("ambiguous_renderings", tot.get("ambiguous_renderings", 0))
    R.set("typedef_named_label_renderings", tot.get("typedef_named_label_renderings", 0))
    R.set("cases_with_pragmas", tot.get("pragma_cases", 0))
    R.set("outer_cases", tot.get("outer_cases", 0))
    R.set("styled_pragma_cases", {"cases": tot.get("styled_pragma_cases", 0), "forms": list(M.EXTRA_FORMS)})
    R.set("switch_sequences", {k: tot.get(k, 0) for k in ("switch_sequences", "switch_sequences_not_c11",
                                                            "switch_sequences_already_in_tree_sweep")})
    R.set("terms_containing_constructor", kinds)
    R.set("distinct_outcomes", len(kinds))
    R.set("failures", tot.get("failures", 0))
    R.set("failures_not_minimised", tot.get("failures_not_minimised", 0))
    R.set("duplicate_terms_in_task", tot.get("duplicate_terms_in_task", 0))
    R.set("bounds", {
        "full_alphabet_depth": 2, "full_alphabet_terms": len(L["full2"]),
        "reduced_alphabet_depth": 3, "depth3_second_child": "leaf" if quick else "depth<=1",
        "compound_items<=": 2, "switch_body_items<=": nsw, "for_forms": len(M.FOR_FORMS_ALL),
        "pragma_single_insertions": "every boundary x both forms on: full alphabet depth<=1, all for-forms, mid alphabet depth<=2 (%d terms)" % len(L["mid2"]) if quick
        else "every boundary x both forms on: full alphabet depth<=2, all for-forms, reduced alphabet depth 3",
        "pragma_pair_insertions": None if quick else "all pairs of boundaries on: mid alphabet depth<=2 (one pragma of each form, both orders), full alphabet depth<=1 (all 4 form pairs)",
        "file_and_struct_sequences<=": nout,
    })
    R.notes.append(
        "_Static_assert convention: pycparser leaves the ';' after _Static_assert(...) to be parsed as an empty "
        "statement (StaticAssert, EmptyStatement in a block; dropped at file scope and in struct bodies); "
        "tests/test_c_parser.py::test_static_assert pins it, the model encodes it and generates _Static_assert "
        "only where C11 allows a declaration")
    R.assumptions += [
        "case/default labels reached through anything but a direct chain of case/default prefixes of a block item "
        "of the switch body (a label, an if, a loop, an inner block, a pragma-wrapped statement) are opaque to the regrouping; "
        "the Compound that stands for a pragma-prefixed switch body counts as the switch body (its items are regrouped, "
        "a braced block behind the pragma is an inner block)",
        "a pragma in front of a substatement wraps it as Compound([pragmas..., stmt]) (test_pragmacomp_or_statement)",
        "an empty switch block is Compound(block_items=[]) (the regrouping always builds a list); '{}' elsewhere is Compound(None)",
    ]
    # vacuity guards
    floor = 500000 if quick else 6000000
    if tot.get("terms", 0) < floor:
        R.fail("vacuous:too-few-terms", {"terms": tot.get("terms", 0)}, "explored set smaller than the bounds imply")
    need = {"if", "ifelse", "while", "do", "for", "switch", "case", "default", "label", "compound", "pragma", "decl", "sassert"}
    if need - set(kinds):
        R.fail("vacuous:constructors-missing", {"missing": sorted(need - set(kinds))}, "some constructors never generated")
    if tot.get("nontrivial", 0) < tot.get("terms", 0) * 0.9 and not R.viol:
        R.fail("vacuous:few-accepted", {"nontrivial": tot.get("nontrivial", 0)}, "most cases did not reach the comparison")
    if tot.get("styled_pragma_cases", 0) < 10000:
        R.fail("vacuous:styled-pragmas", {"cases": tot.get("styled_pragma_cases", 0)}, "styled pragma texts not explored")
    if tot.get("typedef_named_label_renderings", 0) < 50000:
        R.fail("vacuous:typedef-named-labels", {"n": tot.get("typedef_named_label_renderings", 0)}, "typedef-named label renderings not explored")
    if tot.get("ambiguous_renderings", 0) < 1000 or tot.get("pragma_cases", 0) < 100000:
        R.fail("vacuous:modes", {"ambiguous": tot.get("ambiguous_renderings", 0), "pragma": tot.get("pragma_cases", 0)}, "dangling-else / pragma parts empty")
    return R.finish(
        core.pick_samples(samples, 12),
        "every statement term of the reference model inside the bounds, rendered (minimal braces; also the "
        "deliberately ambiguous dangling-else text), parsed, canon(FuncDef.body) compared with the model's expected "
        "form; every pragma text must occur exactly once. states = distinct model terms, transitions = constructor "
        "applications, traces = renderings replayed on the parser. non-trivial = accepted and compared terms with at "
        "least one composite statement constructor (or a pragma / outer-scope sequence)",
    )


def replay(rep):
    from pycparser.c_parser import CParser

    c = rep["case"]
    parser = CParser()
    print("input:", c["text"])
    if "outer" in c:
        r = _check_outer(c["outer"], tuple(c["seq"]), parser)
    else:
        t = M.label(_unjs(c["shape"]))
        if c.get("wrap", True):
            r = check_body(t, c["mode"], parser, c.get("td", False))
            if r is not None:
                print("expected body:", r[3])
                print("observed body:", r[2])
        else:
            r = _check_top(t, c["mode"], parser, c.get("td", False))
    print("oracle:", "fine" if r is None else r[:2])
    return 0 if r is None else 1

"""C02 - expression ASTs follow C precedence, associativity and operator binding.

Bounded exhaustive exploration of the expression reference model
(models/expr_model.py): every model term with up to N operator nodes is
rendered in three parenthesisation modes into ten expression contexts, parsed
by the real parser, and the canonical AST found at the context's expression
slot is compared with the model's expected AST.  The rest of the AST (the
"frame") must be what the context gives for a plain identifier.

Side sweeps: every constant spelling as a leaf, adjacent string literals, type
names, wider n-ary nodes, one redundant parenthesis pair at every position.

The renderer's precedence knowledge is bound to an independent compiler by the
gcc audit: constant-evaluable terms over prime leaves are evaluated by the
model and `gcc -std=c11 -fsyntax-only` checks `_Static_assert((text) == value)`.
"""
from __future__ import annotations

import itertools
import shutil
import sys
import tempfile

from mc import core
from models import expr_model as M

PID = "C02"

PRE = "typedef int T ; "
# name -> (text before, text after, path to the expression slot)
CONTEXTS = {
    "init": (PRE + "int X = ", " ;", ("ext", 1, "init")),
    "stmt": (PRE + "void F ( void ) { ", " ; }", ("ext", 1, "body", "block_items", 0)),
    "cond": (PRE + "void F ( void ) { if ( ", " ) ; }", ("ext", 1, "body", "block_items", 0, "cond")),
    "arg": (PRE + "void F ( void ) { G ( ", " ) ; }",
            ("ext", 1, "body", "block_items", 0, "args", "exprs", 0)),
    "array_bound": (PRE + "int V [ ", " ] ;", ("ext", 1, "type", "dim")),
    "case": (PRE + "void F ( void ) { switch ( X ) { case ", " : ; } }",
             ("ext", 1, "body", "block_items", 0, "stmt", "block_items", 0, "expr")),
    "bitwidth": (PRE + "struct S { int M : ", " ; } ;", ("ext", 1, "type", "decls", 0, "bitsize")),
    "enum_value": (PRE + "enum N { K = ", " } ;",
                   ("ext", 1, "type", "values", "enumerators", 0, "value")),
    # round 8: a bound behind a type-qualifier-list (6.7.6.2: still an
    # assignment-expression) and the index of an offsetof member designator
    # (an expression, like any subscript)
    "qual_array_bound": (PRE + "void F ( int V [ const ", " ] ) ;",
                         ("ext", 1, "type", "args", "params", 0, "type", "dim")),
    "offsetof_index": (PRE + "int X = offsetof ( struct S , M [ ", " ] ) ;",
                       ("ext", 1, "init", "args", "exprs", 1, "subscript")),
}
CTX_ORDER = list(CONTEXTS)
assert set(CTX_ORDER) == set(M.CONTEXT_LEVEL)
OPSETS = {"full": M.OPS_FULL, "rep": M.OPS_REP, "const": M.OPS_CONST}
SENTINEL = "ZZ"
_FRAMES = {}


# ---------------------------------------------------------------------------
# one case: render -> parse -> extract slot -> compare
# ---------------------------------------------------------------------------
def _walk(node, path):
    for step in path:
        node = node[step] if isinstance(step, int) else getattr(node, step)
    return node


def _take_slot(ast, path):
    """Return the node at `path` and put an ID(SENTINEL) there instead."""
    from pycparser import c_ast

    parent = _walk(ast, path[:-1])
    last = path[-1]
    if isinstance(last, int):
        got = parent[last]
        parent[last] = c_ast.ID(SENTINEL)
    else:
        got = getattr(parent, last)
        setattr(parent, last, c_ast.ID(SENTINEL))
    return got


def frame(ctx):
    f = _FRAMES.get(ctx)
    if f is None:
        pre, post, _ = CONTEXTS[ctx]
        out = core.parse_outcome(pre + SENTINEL + post)
        if out[0] != "ok":
            raise RuntimeError(f"context {ctx} does not parse with a plain identifier: {out}")
        f = _FRAMES[ctx] = core.canon(out[1])
    return f


def text_of(tree, mode, ctx):
    pre, post, _ = CONTEXTS[ctx]
    return pre + M.render(tree, mode, M.CONTEXT_LEVEL[ctx]) + post


def judge(text, ctx, expected):
    """None if the parser's AST for `text` has `expected` at the slot of `ctx`
    and the frame is intact, else (kind, detail)."""
    out = core.parse_outcome(text)
    if out[0] == "perr":
        return ("reject", out[1])
    if out[0] != "ok":
        return ("exception", " ".join(str(x) for x in out[1:]))
    try:
        got = _take_slot(out[1], CONTEXTS[ctx][2])
    except (AttributeError, IndexError, TypeError) as e:
        return ("frame", f"slot not found: {e!r}")
    obs = core.canon(got)
    if obs != expected:
        # only now (off the hot path) blank out what the conventions leave open
        obs = M.normalise_observed(obs)
    if obs != expected:
        d = core.first_diff(expected, obs)
        return ("mismatch", "expected-vs-observed first difference: " + "/".join(d or ()))
    if core.canon(out[1]) != frame(ctx):
        d = core.first_diff(frame(ctx), core.canon(out[1]))
        return ("frame", "AST outside the expression slot changed: " + "/".join(d or ()))
    return None


def leaf_class(t):
    if t[0] == "id":
        return "identifier"
    if t[0] == "const":
        sp = t[1]
        if sp.endswith("'"):
            prefix = sp[: sp.index("'")]
            n = "char" if M.constant_type(sp[len(prefix):]) == "char" else "multichar"
            return f"constant:{n}:{prefix or 'plain'}"
        m = M._INT_RE.match(sp)
        if m:
            return "constant:int:" + (m.group(2).lower() or "nosuffix")
        return "constant:float:" + (sp[-1].lower() if sp[-1] in "fFlL" else "nosuffix")
    if t[0] == "str":
        ps = [M.split_string_literal(l)[0] for l in t[1]]
        if len(ps) == 1:
            return "string:" + (ps[0] or "narrow")
        if "" in ps and any(ps):
            return "strings(narrow+prefixed)"  # one root cause whatever the prefix and order
        return "strings(" + ",".join(p or "narrow" for p in ps) + ")"
    return M.class_term(t)


_JUDGE_MEMO = {}
_SHRINK_MEMO = {}


def judge_term(s, m, c):
    key = (s, m, c)
    if key not in _JUDGE_MEMO:
        _JUDGE_MEMO[key] = judge(text_of(s, m, c), c, M.expect(s))
    return _JUDGE_MEMO[key]


def _smaller_variants(s):
    """Terms obtained from s by replacing one proper sub-term by a leaf, by
    dropping one operand of an n-ary node, or one literal of a string run."""
    out = []
    for p, sub in M.subterms(s):
        k = sub[0]
        if p and k not in ("id", "const", "str"):
            out.append(M.replace_at(s, p, M.Id("z")))
        kids = sub[2]
        lo = {"call": 1, "clit": 0, "comma": 0}.get(k)
        if lo is not None and len(kids) - lo > {"call": 0, "clit": 1, "comma": 2}[k]:
            for i in range(lo, len(kids)):
                out.append(M.replace_at(s, p, (k, sub[1], kids[:i] + kids[i + 1:])))
        if k == "str" and len(sub[1]) > 2:
            for i in range(len(sub[1])):
                out.append(M.replace_at(s, p, ("str", sub[1][:i] + sub[1][i + 1:], ())))
    return [M.relabel(x) for x in out]


def shrink(s, m, c):
    """Greedy exhaustive shrinking of a failing term to a 1-minimal one."""
    key = (s, m, c)
    got = _SHRINK_MEMO.get(key)
    if got is None:
        cur = s
        changed = True
        while changed:
            changed = False
            for cand in _smaller_variants(cur):
                if judge_term(cand, m, c) is not None:
                    cur = cand
                    changed = True
                    break
        got = _SHRINK_MEMO[key] = cur
    return got


def signature(tree, mode, ctx):
    """Minimal failing sub-term: every sub-term is re-run on its own, smallest
    first (first in the statement context / minimal mode, then in the failing
    context, then in the failing mode); the first that fails is shrunk further
    (sub-terms replaced by leaves, operands of n-ary nodes dropped, while it
    still fails); leaves are anonymised and operators replaced by their class.
    Returns (sig, minimal term, mode, ctx, verdict)."""
    subs = []
    seen = set()
    for _p, s in M.subterms(tree):
        s = M.relabel(s)
        if s not in seen:
            seen.add(s)
            subs.append(s)
    subs.sort(key=lambda s: (M.n_ops(s), len(M.subterms(s)), len(s[1]) if s[0] == "str" else 0))
    attempts = []
    for cm in (("stmt", "minimal"), (ctx, "minimal"), (ctx, mode)):
        if cm not in attempts:
            attempts.append(cm)
    for c, m in attempts:
        for s in subs:
            if judge_term(s, m, c) is not None:
                s = shrink(s, m, c)
                v = judge_term(s, m, c)
                sig = leaf_class(s) if not s[2] else M.class_term(s)
                if c != "stmt":
                    sig += "@" + c
                if m != "minimal":
                    sig += "/" + m
                return sig, s, m, c, v
    return "unstable:" + M.class_term(tree), tree, mode, ctx, ("unstable", "failure did not reproduce")


def make_case(tree, mode, ctx):
    return {"text": text_of(tree, mode, ctx), "ctx": ctx, "mode": mode, "tree": M.to_json(tree)}


class Tally:
    """Per-task summary (small, picklable)."""

    def __init__(self):
        self.terms = 0
        self.opnodes = 0
        self.parsed = 0
        self.dups = 0
        self.accepted = 0
        self.nontrivial = 0
        self.fails = {}  # sig -> [count, case, detail]
        self.exp_hashes = set()
        self.kinds = {}
        self.outcomes = {}
        self.per_ctx = {}
        self.per_mode = {}
        self.sample = None

    def run_term(self, tree, modes, ctxs):
        exp = M.expect(tree)
        self.terms += 1
        nops = M.n_ops(tree)
        self.opnodes += nops
        self.exp_hashes.add(hash(exp))
        for _p, s in M.subterms(tree):
            k = s[0] if s[0] not in ("bin",) else f"bin-L{M.BINARY_LEVEL[s[1]]}"
            self.kinds[k] = self.kinds.get(k, 0) + 1
        rendered = {}
        for ctx in ctxs:
            lvl = M.CONTEXT_LEVEL[ctx]
            pre, post, _ = CONTEXTS[ctx]
            seen = set()
            for mode in modes:
                key = (mode, lvl)
                body = rendered.get(key)
                if body is None:
                    body = rendered[key] = M.render(tree, mode, lvl)
                if body in seen:
                    self.dups += 1
                    continue
                seen.add(body)
                text = pre + body + post
                v = judge(text, ctx, exp)
                self.parsed += 1
                self.per_ctx[ctx] = self.per_ctx.get(ctx, 0) + 1
                self.per_mode[mode] = self.per_mode.get(mode, 0) + 1
                if v is None:
                    self.accepted += 1
                    if nops or tree[0] != "id":
                        self.nontrivial += 1
                    self.outcomes["agree"] = self.outcomes.get("agree", 0) + 1
                    if self.sample is None:
                        self.sample = text
                else:
                    self.outcomes[v[0]] = self.outcomes.get(v[0], 0) + 1
                    sig, mt, mm, mc, mv = signature(tree, mode, ctx)
                    ent = self.fails.get(sig)
                    if ent is None:
                        detail = f"{mv[0]}: {mv[1]} | minimal sub-term of: {text}"
                        self.fails[sig] = [1, make_case(mt, mm, mc), detail]
                    else:
                        ent[0] += 1

    def pack(self):
        return self.__dict__


def merge(R, total, d):
    for k in ("terms", "opnodes", "parsed", "dups", "accepted", "nontrivial"):
        total[k] = total.get(k, 0) + d[k]
    total.setdefault("exp_hashes", set()).update(d["exp_hashes"])
    for hk in ("kinds", "outcomes", "per_ctx", "per_mode"):
        h = total.setdefault(hk, {})
        for k, v in d[hk].items():
            h[k] = h.get(k, 0) + v
    for sig, (n, case, detail) in d["fails"].items():
        for _ in range(n):
            R.fail(sig, case, detail)
    if d["sample"]:
        total.setdefault("samples", []).append(d["sample"])


# ---------------------------------------------------------------------------
# workers
# ---------------------------------------------------------------------------
def _tree_work(task):
    opset, n, root, lo, hi, modes, ctxs = task
    ops = OPSETS[opset]
    T = Tally()
    if n == 0:
        it = iter(M.shapes(0, ops))
    else:
        it = M.shapes_rooted(n, ops[root], ops)
    for s in itertools.islice(it, lo, hi):
        T.run_term(M.label(s), modes, ctxs)
    return T.pack()


def _list_work(task):
    """Explicit list of (tree json-free tuples, modes, ctxs)."""
    trees, modes, ctxs = task
    T = Tally()
    for t in trees:
        T.run_term(t, modes, ctxs)
    return T.pack()


def plan_trees(opset, n, modes, ctxs, per_task):
    ops = OPSETS[opset]
    if n == 0:
        return [(opset, 0, 0, 0, 1, modes, ctxs)]
    tasks = []
    for r, op in enumerate(ops):
        c = M.count_rooted(n, op, ops)
        for lo in range(0, c, per_task):
            tasks.append((opset, n, r, lo, min(c, lo + per_task), modes, ctxs))
    return tasks


# ---------------------------------------------------------------------------
# side sweeps (term lists)
# ---------------------------------------------------------------------------
def constant_leaves():
    leaves = []
    for b in M.INT_BASE_SPELLINGS:
        for s in M.INT_SUFFIXES:
            leaves.append(M.Const(b + s))
    for f in M.FLOAT_FORMS:
        for s in M.FLOAT_SUFFIXES:
            leaves.append(M.Const(f + s))
    for p in M.CHAR_PREFIXES:
        for b in M.CHAR_BODIES:
            leaves.append(M.Const(f"{p}'{b}'"))
    for b in M.MULTICHAR_BODIES:
        leaves.append(M.Const(f"'{b}'"))
    return leaves


def string_leaves():
    leaves = []
    P = M.STRING_PREFIXES
    for p in P:
        for b in M.STRING_BODIES:
            leaves.append(M.Str(f'{p}"{b}"'))
    bodies = ["a", "", "\\n"]
    # 2-fold: every pair of prefixes that has a defined result x bodies
    for p1 in P:
        for p2 in P:
            if p1 and p2 and p1 != p2:
                continue  # differently prefixed: implementation-defined (C11 6.4.5p5)
            for b1 in bodies:
                for b2 in bodies:
                    leaves.append(M.Str(f'{p1}"{b1}"', f'{p2}"{b2}"'))
    # 3-fold: every prefix pattern with a defined result
    for ps in itertools.product(P, repeat=3):
        if len({p for p in ps if p}) > 1:
            continue
        leaves.append(M.Str(*(f'{p}"{b}"' for p, b in zip(ps, ("a", "b", "c")))))
        leaves.append(M.Str(*(f'{p}"{b}"' for p, b in zip(ps, ("", "x y", "")))))
    return leaves


def leaf_templates(K):
    a, b = M.Id("a"), M.Id("b")
    return [
        K,
        M.Prefix("-", K),
        M.Binary("+", K, a),
        M.Binary("*", a, K),
        M.Index(K, a),
        M.Index(a, K),
        M.Call(a, K, b),
        M.Call(a, b, K),
        M.Member(".", K, "m"),
        M.SizeofExpr(K),
        M.Cast("T", K),
        M.Cond(K, a, b),
        M.Cond(a, K, b),
        M.Cond(a, b, K),
        M.Assign("=", a, K),
        M.CompoundLit("int", K),
        M.Comma(K, a),
        M.Comma(a, K),
    ]


def type_sweep_terms():
    a, b = M.Id("a"), M.Id("b")
    out = []
    for typ in M.TYPES:
        heads = [M.Cast(typ, a), M.SizeofType(typ), M.AlignofType(typ),
                 M.CompoundLit(typ, a), M.CompoundLit(typ, a, b),
                 M.Cast(typ, M.Prefix("-", a)), M.Cast(typ, M.Cast(typ, a)),
                 M.SizeofExpr(M.Cast(typ, a)), M.Cast(typ, M.SizeofType(typ))]
        c = M.Id("c")
        for h in heads:
            out += [h, M.Binary("+", h, c), M.Binary("*", c, h), M.Prefix("!", h),
                    M.Cond(h, c, c), M.Assign("=", c, h), M.Call(c, h), M.Comma(h, c)]
    return out


def arity_sweep_terms():
    ids = [M.Id(x) for x in "abcde"]
    fn = M.Id("h")
    inner = [M.Comma(M.Id("p"), M.Id("q")), M.Assign("=", M.Id("p"), M.Id("q")),
             M.Cond(M.Id("p"), M.Id("q"), M.Id("r")), M.Call(M.Id("p"), M.Id("q"), M.Id("r")),
             M.Comma(M.Id("p"), M.Id("q"), M.Id("r"))]
    out = []
    for n in (2, 3, 4, 5):
        for build in (lambda xs: M.Comma(*xs), lambda xs: M.Call(fn, *xs),
                      lambda xs: M.CompoundLit("int", *xs)):
            out.append(build(ids[:n]))
            for i in range(n):
                for x in inner:
                    xs = list(ids[:n])
                    xs[i] = x
                    out.append(build(xs))
    out.append(M.Call(fn))
    return out


# ---------------------------------------------------------------------------
# gcc audit of the model
# ---------------------------------------------------------------------------
TU_LINES = 2500  # assertions per translation unit (gcc's fixed cost is ~0.3 s, 0.2 s per 1000 lines)


def _audit_work(task):
    n, root, lo, hi, modes, primes, workdir, tag = task
    ops = M.OPS_CONST
    it = iter(M.shapes(n, ops)) if root is None else M.shapes_rooted(n, ops[root], ops)
    lines = []
    meta = []
    skipped = 0
    for s in itertools.islice(it, lo, hi):
        t = M.label(s, leaves=[M.Const(str(p)) for p in primes])
        for mode in modes:
            l = M.audit_line(t, mode)
            if l is None:
                skipped += 1
                continue
            lines.append(l)
            meta.append((t, mode))
    bad_all = []
    tus = 0
    for i in range(0, len(lines), TU_LINES):
        chunk = lines[i : i + TU_LINES]
        bad, err = M.run_gcc_batch(chunk, workdir, f"{tag}_{i}")
        tus += 1
        for j in bad:
            if 0 <= j < len(chunk):
                t, mode = meta[i + j]
                bad_all.append((M.class_term(t), chunk[j], mode))
            else:
                bad_all.append(("gcc-failed", err[:300], ""))
    return len(lines), skipped, tus, bad_all[:20]


def audit(R, quick, workdir):
    ops = M.OPS_CONST
    assignments = [M.PRIMES_UP, M.PRIMES_DOWN] + M.AUDIT_EXTRA
    plan = []  # (n, modes, leaf values)
    for n in (0, 1, 2):
        for pr in assignments:
            plan.append((n, M.MODES, pr))
    if quick:
        plan.append((3, ("minimal",), M.PRIMES_DOWN))
    else:
        plan.append((3, M.MODES, M.PRIMES_UP))
        plan.append((3, M.MODES, M.PRIMES_DOWN))
    tasks = []
    for pi, (n, modes, primes) in enumerate(plan):
        step = TU_LINES // len(modes)
        if n <= 2:
            c = M.count_shapes(n, ops)
            for lo in range(0, c, step):
                tasks.append((n, None, lo, min(c, lo + step), modes, primes, workdir, f"a{pi}_{lo}"))
            continue
        for r, op in enumerate(ops):
            c = M.count_rooted(n, op, ops)
            for lo in range(0, c, step):
                tasks.append((n, r, lo, min(c, lo + step), modes, primes, workdir, f"a{pi}_{r}_{lo}"))
    asserted = skipped = tus = 0
    for na, ns, nt, bad in core.pmap(_audit_work, tasks, chunksize=1):
        asserted += na
        skipped += ns
        tus += nt
        for cls, line, mode in bad:
            R.fail("model-audit:" + cls, {"gcc_line": line, "mode": mode},
                   "gcc disagrees with the model about the value/type of a rendered term "
                   "(the MODEL is wrong, not pycparser)")
    # negative control: the harness must notice a wrong value and a wrong grouping
    bad, _ = M.run_gcc_batch(
        ['_Static_assert ( ( 2 + 3 * 5 ) == 17 , "" ) ;',
         '_Static_assert ( ( 2 + 3 * 5 ) == 25 , "" ) ;',
         '_Static_assert ( ( 7 - 3 - 2 ) == 6 , "" ) ;'],
        workdir, "neg")
    if bad != [1, 2]:
        R.fail("model-audit:harness-dead", {"bad": bad}, "gcc did not flag the deliberately wrong assertions")
    # how many ordered operator pairs does the audit discriminate by value?
    disc = 0
    pairs = 0
    for o1 in M.BINARY_OPS:
        for o2 in M.BINARY_OPS:
            pairs += 1
            hit = False
            for primes in assignments:
                a, b, c = (M.Const(str(p)) for p in primes[:3])
                try:
                    if M.evaluate(M.Binary(o2, M.Binary(o1, a, b), c)) != M.evaluate(
                        M.Binary(o1, a, M.Binary(o2, b, c))
                    ):
                        hit = True
                except M.Unevaluable:
                    pass
            disc += hit
    R.set("model_audit", {
        "oracle": "gcc -std=c11 -fsyntax-only, _Static_assert((rendered) == model value && sizeof(rendered) == model type size)",
        "assertions_checked_by_gcc": asserted,
        "translation_units": tus,
        "terms_skipped_no_defined_value": skipped,
        "operators": len(ops),
        "plan": [(n, list(m), list(p[:4])) for n, m, p in plan],
        "binary_operator_pairs_whose_two_groupings_differ_in_value": f"{disc}/{pairs}",
        "negative_control": "2 deliberately false assertions flagged",
    })
    return asserted


# ---------------------------------------------------------------------------
# productions reached (non-vacuity indicator)
# ---------------------------------------------------------------------------
def productions_reached(trees):
    seen = set()

    def prof(frame, event, arg):
        if event == "call":
            co = frame.f_code
            if co.co_filename.endswith("c_parser.py") and co.co_name.startswith("_parse_"):
                seen.add(co.co_name)

    sys.setprofile(prof)
    try:
        for t in trees:
            for ctx in CTX_ORDER:
                core.parse_outcome(text_of(t, "minimal", ctx))
    finally:
        sys.setprofile(None)
    return sorted(seen)


# ---------------------------------------------------------------------------
def run(tier):
    R = core.Run(PID, tier, "model_checking")
    quick = tier == "quick"
    N = 2 if quick else 3
    for ctx in CTX_ORDER:
        frame(ctx)
    for name, ops in OPSETS.items():  # memoise before the pool forks
        for n in range(3):
            assert len(M.shapes(n, ops)) == M.count_shapes(n, ops)

    import time
    phases = {}
    t_phase = time.time()
    total = {}
    all_modes = M.MODES
    all_ctx = tuple(CTX_ORDER)
    tasks = []
    for n in range(0, N + 1):
        tasks += plan_trees("full", n, all_modes, all_ctx, 400 if n < 3 else 1500)
    expected_terms = sum(M.count_shapes(n) for n in range(N + 1))
    if quick:
        tasks += plan_trees("rep", 3, ("minimal",), ("stmt",), 3000)
        expected_terms += M.count_shapes(3, M.OPS_REP)
    for d in core.pmap(_tree_work, tasks, chunksize=1):
        merge(R, total, d)
    main_terms = total["terms"]
    main_distinct = len(total["exp_hashes"])
    phases["main_sweep"] = round(time.time() - t_phase, 1)
    if main_terms != expected_terms:
        R.fail("enumeration-incomplete", {"got": main_terms, "want": expected_terms},
               "the enumerator did not produce the closed-form number of terms")

    # side sweeps
    side = {}
    consts = constant_leaves()
    strs = string_leaves()
    lt = []
    for K in consts + strs:
        lt.extend(leaf_templates(K))
    sweeps = [
        ("constants_and_strings", lt, ("minimal", "full"), all_ctx),
        ("type_names", type_sweep_terms(), all_modes, all_ctx),
        ("arity", arity_sweep_terms(), all_modes, all_ctx),
    ]
    # one redundant pair of parentheses at every position of every term <= 2 ops
    wrapped = []
    for t in M.trees(2):
        for p in M.positions(t):
            wrapped.append(M.wrap_at(t, p))
    sweeps.append(("single_paren_pair_at_every_position", wrapped, ("minimal",), ("stmt", "init", "case")))
    distinct_nontrivial = total["nontrivial"]
    for name, terms, modes, ctxs in sweeps:
        before = dict((k, total.get(k, 0)) for k in ("terms", "parsed", "nontrivial"))
        tl = [(ch, modes, ctxs) for ch in core.chunked(terms, 300)]
        for d in core.pmap(_list_work, tl, chunksize=1):
            merge(R, total, d)
        side[name] = {"terms": total["terms"] - before["terms"], "parsed": total["parsed"] - before["parsed"],
                      "accepted_and_agreeing": total["nontrivial"] - before["nontrivial"]}
        if name == "constants_and_strings":  # terms with a constant leaf: disjoint from the main sweep
            distinct_nontrivial += side[name]["accepted_and_agreeing"]
    phases["side_sweeps"] = round(time.time() - t_phase, 1)

    # gcc audit
    workdir = tempfile.mkdtemp(prefix="c02_audit_")
    try:
        audited = audit(R, quick, workdir)
    finally:
        shutil.rmtree(workdir, ignore_errors=True)

    phases["gcc_audit"] = round(time.time() - t_phase, 1)
    reached = productions_reached(list(M.trees(1)) + [M.Const("1"), M.Str('"a"', '"b"')])

    # vacuity guards
    distinct_expected = len(total["exp_hashes"])
    floor_terms = 5000 if quick else 600000
    if total["terms"] < floor_terms or total["parsed"] < 20 * floor_terms // 2:
        R.fail("vacuous:too-few-cases", {"terms": total["terms"], "parsed": total["parsed"]}, "explored less than the floor")
    if main_distinct < main_terms:
        R.fail("vacuous:expected-values-collapse", {"distinct": main_distinct, "terms": main_terms},
               "fewer distinct expected ASTs than enumerated terms: the comparison is dead")
    if audited < (10000 if quick else 200000):
        R.fail("vacuous:audit", {"audited": audited}, "gcc audited fewer assertions than the floor")
    if total["accepted"] < total["parsed"] * 0.9:
        R.notes.append("more than 10% of the rendered sentences were not accepted/agreed")

    R.set("states", total["terms"])
    R.set("transitions", total["opnodes"])
    R.set("traces_validated_against_impl", total["parsed"])
    R.set("evaluations", total["parsed"])
    R.set("distinct_nontrivial", distinct_nontrivial)
    R.set("agreeing_sentences_all_sweeps", total["nontrivial"])
    R.set("distinct_expected_asts", distinct_expected)
    R.set("distinct_outcomes", len(total["outcomes"]))
    R.set("outcome_histogram", total["outcomes"])
    R.set("duplicate_renderings_not_reparsed", total["dups"])
    R.set("model_node_kinds_enumerated", total["kinds"])
    R.set("parsed_per_context", total["per_ctx"])
    R.set("parsed_per_mode", total["per_mode"])
    R.set("main_sweep_terms", main_terms)
    R.set("side_sweeps", side)
    R.set("phase_wall_s_cumulative", phases)
    R.set("productions_reached", reached)
    R.set("bounds", {
        "operators_per_term<=": N,
        "operator_alphabet": len(M.OPS_FULL),
        "modes": list(all_modes),
        "contexts": CTX_ORDER,
        "quick_extra": "3 operators, one per precedence class (%d operators), statement context, minimal mode" % len(M.OPS_REP) if quick else None,
        "constant_spellings": len(consts),
        "string_leaves": len(strs),
        "type_names": len(M.TYPES),
        "gcc_audit": "<=2 operators x 3 modes x 8 leaf assignments (2 prime, 6 supplementary); 3 operators: " + ("minimal mode, 1 prime assignment" if quick else "3 modes x 2 prime assignments"),
    })
    R.assumptions += [
        "tokens are rendered with single blanks between them (layout is C17's subject)",
        "expected AST shapes are pycparser's documented ones (_c_ast.cfg, tests/test_c_parser.py); the type of prefixed character constants (L'c' ...) and the value of differently-prefixed adjacent strings are not documented and not compared",
        "grammar levels are those of C99 6.5 (Annex A); bound to gcc by the _Static_assert audit for the constant-evaluable operators",
    ]
    samples = core.pick_samples(total.get("samples", []), 12)
    return R.finish(
        samples,
        "states = model terms enumerated (all terms with <= N operator nodes over the %d-operator "
        "alphabet, plus the side sweeps); transitions = constructor applications (operator nodes of "
        "all enumerated terms); traces = rendered sentences (term x mode x context, identical "
        "renderings of one term parsed once) parsed by the real parser and compared at the "
        "expression slot with expect(term), frame compared too. distinct_nontrivial = sentences of "
        "the main sweep and of the constant/string sweep that were accepted and agreed and whose "
        "term is not a bare identifier; these are pairwise distinct texts by construction "
        "(parenthesis-free terms correspond 1:1 to ASTs, so two different terms cannot render to "
        "the same tokens; identical renderings of one term in two modes are parsed once); the "
        "other side sweeps may repeat main-sweep sentences and are not counted. model_audit = assertions gcc verified about the renderer+evaluator." % len(M.OPS_FULL),
    )


def replay(rep):
    c = rep["case"]
    if "gcc_line" in c:
        d = tempfile.mkdtemp(prefix="c02_replay_")
        try:
            bad, err = M.run_gcc_batch([c["gcc_line"]], d, "replay")
        finally:
            shutil.rmtree(d, ignore_errors=True)
        print("gcc line:", c["gcc_line"])
        print("gcc:", "rejects" if bad else "accepts", err[:500])
        return 1 if bad else 0
    if "tree" not in c:
        print("nothing to replay:", c)
        return 1
    tree = M.from_json(c["tree"])
    ctx, mode = c["ctx"], c["mode"]
    text = text_of(tree, mode, ctx)
    exp = M.expect(tree)
    print("input:   ", text)
    print("term:    ", M.class_term(tree) if tree[2] else leaf_class(tree), "| mode", mode, "| context", ctx)
    print("expected:", exp)
    out = core.parse_outcome(text)
    if out[0] == "ok":
        try:
            print("observed:", M.normalise_observed(core.canon(_walk(out[1], CONTEXTS[ctx][2]))))
        except Exception as e:  # noqa
            print("observed: slot not found", repr(e))
    else:
        print("observed:", out)
    v = judge(text, ctx, exp)
    print("verdict: ", "agree" if v is None else f"{v[0]}: {v[1]}")
    return 0 if v is None else 1

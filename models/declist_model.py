"""Declarator-list family for C04: "a declaration is visible from the end of its
declarator" (C99 6.2.1p7) inside one declaration with 2-4 declarators.

    <spec> d1 , d2 , ... , dn ;

The declarator at position i introduces the name T; the declarator at a later
position j uses T.  The reference decides what T means at j:

  kind 'typedef'      typedef <spec> ..., T, ..., use(T), ... ;     T is a type
  kind 'td-over-obj'  the same in a block, an object T declared outside: a type
  kind 'obj-over-td'  <spec> ..., T, ..., use(T), ... ;  in a block, with
                      `typedef int T;` at file scope: T is an object at j

and therefore which AST the using declarator must have (Typename vs ID operand,
prototype vs identifier list, parameter declaration vs ParseError).
Nothing here imports pycparser.
"""
from __future__ import annotations

from models.stmt_model import N, ID, INT

NAME = "T"
SPECS = {"int": ("int",), "ulong": ("unsigned", "long")}
INTRO_SHAPES = ("plain", "ptr", "arr", "fnptr", "fn", "paren", "arrfnptr")
CONTEXTS = ("file", "funcbody", "block")
KINDS = ("typedef", "td-over-obj", "obj-over-td")


def _base(spec):
    return N("IdentifierType", SPECS[spec])


def _tn_of(t):
    return N("Typename", None, (), None, t)


def _abstract(names):
    return N("TypeDecl", None, (), None, N("IdentifierType", names))


def _param(name, tname, ptr=False):
    t = N("TypeDecl", name, (), None, N("IdentifierType", (tname,)))
    if ptr:
        t = N("PtrDecl", (), t)
    return N("Decl", name, (), (), (), (), t, None, None)


# use forms: id -> (declarator text with %(T)s and %(u)s, needs_type)
#   build(u, base, T, is_type) -> (type canon of the using declarator, init) or 'reject'
def _use_forms():
    T = NAME

    def sizeof_bound(u, base, is_type):
        op = _tn_of(_abstract((T,))) if is_type else ID(T)
        return N("ArrayDecl", N("TypeDecl", u, (), None, base), N("UnaryOp", "sizeof", op), ()), None

    def castcall(is_type):
        if is_type:
            return N("Cast", _tn_of(_abstract((T,))), INT(1))
        return N("FuncCall", ID(T), N("ExprList", (INT(1),)))

    def castcall_bound(u, base, is_type):
        return N("ArrayDecl", N("TypeDecl", u, (), None, base), castcall(is_type), ()), None

    def cast_bound(u, base, is_type):
        if not is_type:
            return "reject"          # `( T ) 1` with T an object is no expression
        return N("ArrayDecl", N("TypeDecl", u, (), None, base), N("Cast", _tn_of(_abstract((T,))), INT(1)), ()), None

    def castcall_init(u, base, is_type):
        return N("TypeDecl", u, (), None, base), castcall(is_type)

    def fn(params):
        def build(u, base, is_type):
            p = params(is_type)
            if p == "reject":
                return "reject"
            return N("FuncDecl", N("ParamList", tuple(p)), N("TypeDecl", u, (), None, base)), None
        return build

    def ptr_fn(u, base, is_type):
        if not is_type:
            return "reject"          # `( T , void * )`: identifier list, then a type
        void_p = _tn_of(N("PtrDecl", (), _abstract(("void",))))
        f = N("FuncDecl", N("ParamList", (_tn_of(_abstract((T,))), void_p)), N("TypeDecl", u, (), None, base))
        return N("PtrDecl", (), f), None

    return (
        # id, declarator text, builder, allowed in a typedef declaration, gcc can type-check it
        ("sizeof-bound", "%(u)s [ sizeof ( %(T)s ) ]", sizeof_bound, True, True),
        ("castcall-bound", "%(u)s [ ( %(T)s ) ( 1 ) ]", castcall_bound, True, "scalar"),
        ("cast-bound", "%(u)s [ ( %(T)s ) 1 ]", cast_bound, True, "scalar"),
        ("castcall-init", "%(u)s = ( %(T)s ) ( 1 )", castcall_init, False, "scalar"),
        # T alone in parentheses: a prototype with one abstract parameter of type
        # T, or (T an object) an identifier list
        ("param-abstract", "%(u)s ( %(T)s )", fn(lambda ty: [_tn_of(_abstract((T,)))] if ty else [ID(T)]), True, True),
        ("param-named", "%(u)s ( %(T)s x )", fn(lambda ty: [_param("x", T)] if ty else "reject"), True, True),
        ("param-ptr", "%(u)s ( %(T)s * p )", fn(lambda ty: [_param("p", T, ptr=True)] if ty else "reject"), True, True),
        ("ptr-fn", "( * %(u)s ) ( %(T)s , void * )", ptr_fn, True, True),
    )


USE_FORMS = _use_forms()


def _intro_text(shape):
    return {"plain": NAME, "ptr": "* " + NAME, "arr": NAME + " [ 2 ]",
            # function-shaped and parenthesised introducing declarators (lead, round 6)
            "fnptr": "( * " + NAME + " ) ( void )", "fn": NAME + " ( void )", "paren": "( " + NAME + " )",
            "arrfnptr": "( * " + NAME + " [ 2 ] ) ( int )"}[shape]


def positions():
    """(n, i, j): n declarators, T introduced at i, used at j (1-based)."""
    return [(n, i, j) for n in (2, 3, 4) for i in range(1, min(3, n - 1) + 1) for j in range(i + 1, n + 1)]


def cases():
    """Every member of the family: dict(text, ctx, kind, n, i, j, spec, shape,
    use, want, index, count, npre, gcc)  want = canon of the using declaration
    or 'reject'."""
    out = []
    for kind in KINDS:
        for ctx in CONTEXTS:
            if kind != "typedef" and ctx == "file":
                continue             # nothing outside file scope to hide
            for n, i, j in positions():
                for spec in SPECS:
                    for shape in INTRO_SHAPES:
                        for uid, utext, build, in_typedef, gcc_ok in USE_FORMS:
                            is_td_decl = kind != "obj-over-td"
                            if is_td_decl and not in_typedef:
                                continue
                            is_type = is_td_decl
                            u = "u%d" % j
                            ds = []
                            for k in range(1, n + 1):
                                if k == i:
                                    ds.append(_intro_text(shape))
                                elif k == j:
                                    ds.append(utext % {"u": u, "T": NAME})
                                else:
                                    ds.append(("* f%d" if k % 2 == 0 else "f%d") % k)
                            decl = ("typedef " if is_td_decl else "") + " ".join(SPECS[spec]) + " " + " , ".join(ds) + " ;"
                            pre = {"typedef": "", "td-over-obj": "int %s ; " % NAME,
                                   "obj-over-td": "typedef int %s ; " % NAME}[kind]
                            if ctx == "file":
                                text = pre + decl
                            elif ctx == "funcbody":
                                text = pre + "void g ( void ) { " + decl + " }"
                            else:
                                text = pre + "void g ( void ) { { " + decl + " } }"
                            r = build(u, _base(spec), is_type)
                            if r == "reject":
                                want = "reject"
                            elif is_td_decl:
                                want = N("Typedef", u, (), ("typedef",), r[0])
                            else:
                                want = N("Decl", u, (), (), (), (), r[0], r[1], None)
                            audit = kind == "typedef" and (gcc_ok is True or (gcc_ok == "scalar" and shape == "plain"))
                            out.append({"text": text, "ctx": ctx, "kind": kind, "n": n, "i": i, "j": j, "spec": spec,
                                        "shape": shape, "use": uid, "want": want, "npre": 1 if pre else 0, "decl": decl,
                                        "gcc": audit})
    return out


def locate(ast, case):
    """The list of declaration nodes the declarator list produced."""
    if case["ctx"] == "file":
        return ast.ext[case["npre"]:]
    body = ast.ext[-1].body
    if case["ctx"] == "block":
        body = body.block_items[0]
    return body.block_items

#!/venv/bin/python
"""Copies confirmed seeded changes from /tmp/seed into /verif/seeded/<id>/
(patch.diff, demo.py, meta.json) using the seedrun results.  Round 1 lives in
<id>.out + results/, round 2 in <id>.out2 + results2/.  Several result files
may exist per seed (re-runs after a check was strengthened): per check the
most recent run wins."""
import glob, json, os, shutil

SRC = "/tmp/seed"
DST = "/verif/seeded"
os.makedirs(DST, exist_ok=True)
rows = []
for rnd, outs, ress, suffix in ((1, "out", "results", ""), (2, "out2", "results2", "2"), (3, "out3", "results3", "3"), (4, "out4", "results4", "4"), (5, "out5", "results5", "5"), (6, "out6", "results6", "6"), (7, "out7", "results7", "7"), (8, "out8", "results8", "8")):
    for i in range(1, 20):
        pid = f"C{i:02d}"
        mp = f"{SRC}/{pid}.{outs}/meta.json"
        if not os.path.exists(mp):
            continue
        try:
            meta = json.load(open(mp))
        except Exception:
            meta = {"changes": []}
        ch = {c.get("id"): c for c in meta.get("changes", [])}
        for v in "AB":
            files = sorted(glob.glob(f"{SRC}/{ress}/{pid}_{v}*.json"), key=os.path.getmtime)
            runs = []
            for f in files:
                try:
                    runs.append(json.load(open(f)))
                except Exception:
                    pass
            base = [r for r in runs if r.get("applied") and "tests_pass" in r]
            if not base:
                if runs:
                    rows.append((pid, v + suffix, "NOT KEPT", (runs[0].get("apply_error") or "")[:60]))
                continue
            r0 = base[-1]
            if not r0.get("tests_pass") or r0.get("demo_changed_exit") != 1 or r0.get("demo_unchanged_exit") != 0:
                rows.append((pid, v + suffix, "NOT KEPT", "not confirmed"))
                continue
            checks = {}
            for r in runs:
                if not r.get("applied"):
                    continue
                for k, x in r.get("checks", {}).items():
                    checks[k] = {"exit": x["exit"], "signatures": x["signatures"][:3]}
            det = sorted(k for k, x in checks.items() if x["exit"] == 1)
            d = f"{DST}/{pid}-{v}{suffix}"
            os.makedirs(d, exist_ok=True)
            shutil.copy(r0["patch"], f"{d}/patch.diff")
            shutil.copy(f"{SRC}/{pid}.{outs}/demo_{v}.py", f"{d}/demo.py")
            c = ch.get(v, {})
            m = {
                "property": pid, "change": v, "round": rnd,
                "summary": c.get("summary"),
                "needs_to_manifest": c.get("what_it_needs_to_manifest"),
                "files": c.get("files"),
                "origin": "written by an isolated sub-agent given only the property text and a scratch worktree",
                "ported": r0["patch"].endswith("_ported.diff"),
                "confirmed": {
                    "how": "tools/seedrun.py: patch applied to a scratch copy of /repo; repository test-suite; demo on changed and unchanged tree; quick checks with VERIF_REPO on the copy",
                    "tests": r0.get("tests"),
                    "demo_exit_changed_tree": r0.get("demo_changed_exit"),
                    "demo_exit_unchanged_tree": r0.get("demo_unchanged_exit"),
                },
                "repo_commit_of_last_run": runs[-1].get("repo_commit"),
                "checks_run": checks,
                "detected_by": det,
            }
            json.dump(m, open(f"{d}/meta.json", "w"), indent=1)
            rows.append((pid, v + suffix, ",".join(det) or "MISSED", (c.get("summary") or "")[:80]))
for row in rows:
    print(*row, sep=" | ")

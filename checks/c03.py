"""C03 - declaration ASTs encode C declarator semantics for every declared name.

Bounded exhaustive enumeration of the declaration reference model
(models/decl_model.py): every model term inside the bounds is rendered by the
C99 6.7.5 inside-out rule, parsed by the real parser, and the canonical AST is
compared with the model's expected AST.

 (a) derivation sequences x 10 contexts x {named, abstract} x {plain,
     redundant parentheses} x 4 base specifier shapes
 (b) all ordered pairs of sequences in one multi-declarator declaration, with
     and without initialisers (+ triples of sequences <= 1)
 (c) all orderings of specifier lists C allows
 (d) struct/union bodies, enums
 (e) initialiser lists with designators
 (f) function definitions, K&R declaration lists
 (g) _Atomic(T) == _Atomic-qualified T (model expectation and differential)
 (h) the declared name is spelled like a typedef name of an enclosing scope
 audit: gcc checks, for family (a) at file scope, that the rendered declarator
     declares the type obtained by applying one derivation per typedef.
"""
from __future__ import annotations

import itertools
import os
import re
import shutil
import subprocess
import tempfile

from mc import core
from models import decl_model as dm
from models.decl_model import Decln, Dtor, Entity, TypeName, Ptr, Arr, Fn

PID = "C03"
KEEP = 2

S_UL = (("word", "unsigned"), ("word", "long"))
S_STRUCT = (("su", "struct", "S", None),)
BASES = [dm.S_INT, S_UL, dm.S_T, S_STRUCT]
BASE_CLASS = ["int", "words", "typedef", "struct"]


# ---------------------------------------------------------------------------
# shared machinery
# ---------------------------------------------------------------------------
def _cmp(text, exp):
    """None if the parser's AST equals `exp`, else (kind, detail)."""
    out = core.parse_outcome(text)
    if out[0] != "ok":
        return ("rejected", str(out[1:])[:200])
    got = core.canon(out[1])
    if got == exp:
        return None
    d = core.first_diff(exp, got)
    return (_short(d), " / ".join(d))


def _short(path):
    """`Class.field:kind` of the first difference (or class:Expected!=Observed)."""
    last = path[-1]
    if last.startswith("class:"):
        return last
    steps = [x for x in path if "." in x and not x.startswith(("value:", "class:", "len:"))]
    return (steps[-1] if steps else "?") + ":" + last.split(":")[0]


def _nested_typename(c):
    """Does the AST contain a Typename as the `type` of a TypeDecl?  (Not a
    documented shape: TypeDecl.type is IdentifierType / Struct / Union / Enum.)"""
    if isinstance(c, tuple):
        if len(c) == 2 and c[0] == "TypeDecl" and isinstance(c[1], tuple):
            for k, v in c[1]:
                if k == "type" and isinstance(v, tuple) and v and v[0] == "Typename":
                    return True
        return any(_nested_typename(x) for x in c)
    return False


_SPEC_SHARED = {("Struct", "TypeDecl", "type"), ("Union", "TypeDecl", "type"), ("Enum", "TypeDecl", "type"),
                # the same kind of sharing for the other specifier that is a node:
                # `_Alignas(8) int x, y;` puts one Alignas into both Decl.align lists
                ("Alignas", "Decl", "align")}


# Parts of an `_Atomic(type-name)` SPECIFIER other than its declarator chain:
# like a struct specifier they belong to the specifier and are shared by the
# declarators of the declaration ('_Atomic(int (*)[3]) a, b;' - lead's triage
# after repair c8fa55b, which copies the chain only to keep the cost linear).
_ATOMIC_SPEC_SHARED = {("ArrayDecl", "dim"), ("FuncDecl", "args")}


def _shared_node(ast, text=""):
    """Structural invariant on every parsed AST: no c_ast.Node object is
    reachable twice (walk over __slots__, identity based) - except the one
    specifier node (Struct/Union/Enum, Alignas) that the declarators of one
    declaration share, and the non-chain parts of an `_Atomic(...)` specifier
    (only in programs that spell one).  Returns a signature or None."""
    from pycparser import c_ast

    atomic_spec = "_Atomic (" in text or "_Atomic(" in text

    Node = c_ast.Node
    seen = set()
    stack = [(ast, "-", "-")]
    while stack:
        node, pcls, fld = stack.pop()
        cls = node.__class__.__name__
        i = id(node)
        if i in seen:
            if (cls, pcls, fld) in _SPEC_SHARED:
                continue
            if atomic_spec and (pcls, fld) in _ATOMIC_SPEC_SHARED:
                continue
            return f"shared-node:{cls} under {pcls}.{fld}"
        seen.add(i)
        for sl in node.__slots__:
            if sl == "coord" or sl == "__weakref__":
                continue
            v = getattr(node, sl)
            if isinstance(v, Node):
                stack.append((v, cls, sl))
            elif isinstance(v, (list, tuple)):
                for e in v:
                    if isinstance(e, Node):
                        stack.append((e, cls, sl))
    return None


def _sort_quals(c):
    """Canon with every `quals` tuple sorted (qualifier order is not claimed
    where an atomic specifier is mixed with qualifiers)."""
    if isinstance(c, tuple):
        if len(c) == 2 and c[0] == "quals" and isinstance(c[1], tuple):
            return ("quals", tuple(sorted(c[1])))
        return tuple(_sort_quals(x) for x in c)
    return c


class Acc:
    """Per-task accumulator (small, picklable summary)."""

    def __init__(self):
        self.n = 0          # cases compared
        self.parsed = 0     # cases the parser accepted (reached AST comparison)
        self.skipped = 0    # model terms with no C11 spelling
        self.fails = {}     # sig -> [count, [(case, detail)]]
        self.exp = set()    # hashes of expected ASTs
        self.samples = []
        self.states = 0
        self.trans = 0

    def fail(self, sig, case, detail):
        e = self.fails.setdefault(sig, [0, []])
        e[0] += 1
        if len(e[1]) < KEEP:
            e[1].append((case, detail))

    def case(self, text, exp, mk_sig, extra=None, norm=None):
        self.n += 1
        self.exp.add(hash(exp))
        if self.n % 97 == 1:
            self.samples = [text]
        out = core.parse_outcome(text)
        if out[0] != "ok":
            r = ("rejected", str(out[1:])[:200], False)
        else:
            self.parsed += 1
            sh = _shared_node(out[1], text)
            if sh is not None:
                self.fail(sh, {"text": text, "shared_node_check": True}, sh)
            got = core.canon(out[1])
            if norm:
                got, exp = norm(got), norm(exp)
            if got == exp:
                return None
            d = core.first_diff(exp, got)
            r = (_short(d), " / ".join(d), _nested_typename(got))
        case = {"text": text, "expected": dm.to_jsonable(exp)}
        if norm:
            case["sort_quals"] = True
        if extra:
            case.update(extra)
        self.fail(mk_sig(r), case, r[1])
        return r

    def out(self):
        return (self.n, self.parsed, self.skipped, self.fails, self.exp, self.samples,
                self.states, self.trans)


class Total:
    def __init__(self):
        self.fam = {}
        self.exp = set()
        self.fails = {}
        self.samples = []

    def merge(self, fam, res):
        n, parsed, skipped, fails, exp, samples, states, trans = res
        f = self.fam.setdefault(fam, dict(cases=0, parsed=0, skipped=0, states=0, transitions=0))
        f["cases"] += n
        f["parsed"] += parsed
        f["skipped"] += skipped
        f["states"] += states
        f["transitions"] += trans
        self.exp |= exp
        for sig, (cnt, ex) in fails.items():
            e = self.fails.setdefault(sig, [0, []])
            e[0] += cnt
            if len(e[1]) < KEEP:
                e[1].extend(ex[: KEEP - len(e[1])])
        if samples:
            self.samples.append((fam, samples[0]))


# ---------------------------------------------------------------------------
# (a) derivation sequences
# ---------------------------------------------------------------------------
def _seqs_from(first, maxlen, alpha, param, funcdef=False):
    """All valid sequences that start with `first` (None: just the empty one),
    smallest first; also the number of extension steps."""
    if first is None:
        return [()], 0
    if not dm.can_extend((), first, param, funcdef):
        return [], 0
    level = [(first,)]
    out = list(level)
    tr = 1
    for _ in range(maxlen - 1):
        nxt = []
        for s in level:
            for a in alpha:
                if dm.can_extend(s, a, param, funcdef):
                    nxt.append(s + (a,))
                    tr += 1
        out += nxt
        level = nxt
    return out, tr


def _try_a(ctx, name, seq, bi, red):
    try:
        toks, exp = dm.place_entity(ctx, name, seq, BASES[bi], red)
    except dm.Unrenderable:
        return "skip"
    return _cmp(dm.text(toks), exp)


def _subseqs(seq):
    n = len(seq)
    for k in range(0, n + 1):
        for idx in itertools.combinations(range(n), k):
            yield tuple(seq[i] for i in idx)


def _minimise_a(ctx, name, seq, bi, red, param):
    """Smallest failing subsequence (exhaustive over all subsequences), then the
    simplest base / parenthesisation under which it still fails."""
    variants = []
    for v in ((0, False), (bi, False), (0, red), (bi, red)):
        if v not in variants:
            variants.append(v)
    for sub in _subseqs(seq):
        if not dm.valid_seq(sub, param):
            continue
        for b, r in variants:
            res = _try_a(ctx, name, sub, b, r)
            if res is not None and res != "skip":
                # the same minimal term in every other context: one root cause
                # that is context independent gets one signature
                where = ctx
                everywhere = True
                for c2 in dm.CONTEXTS:
                    if not dm.valid_seq(sub, c2 in dm.PARAM_CONTEXTS):
                        continue
                    r2 = _try_a(c2, "x" if c2 in dm.NAMED_CONTEXTS else None, sub, b, r)
                    if r2 is None:
                        everywhere = False
                        break
                if everywhere:
                    where = "any"
                sig = f"{where}:{dm.term_sig(sub)}"
                if r:
                    sig += "+parens"
                if b:
                    sig += "@" + BASE_CLASS[b]
                if res[0] == "rejected":
                    sig += ":rejected"
                return sig
    return f"{ctx}:{dm.term_sig(seq)}:unstable"


def _work_a(task):
    ctx, bi, maxlen, first_i = task
    param = ctx in dm.PARAM_CONTEXTS
    alpha = dm.symbols(param)
    name = "x" if ctx in dm.NAMED_CONTEXTS else None
    seqs, tr = _seqs_from(None if first_i < 0 else alpha[first_i], maxlen, alpha, param)
    A = Acc()
    A.states = len(seqs)
    A.trans = tr
    cache = {}
    for seq in seqs:
        for red in (False, True):
            try:
                toks, exp = dm.place_entity(ctx, name, seq, BASES[bi], red)
            except dm.Unrenderable:
                A.skipped += 1
                continue
            text = dm.text(toks)

            def mk(r, seq=seq, red=red):
                key = (tuple(dm.sym_class(s) for s in seq), red, r[0] == "rejected")
                if key not in cache:
                    cache[key] = _minimise_a(ctx, name, seq, bi, red, param)
                return "a:" + cache[key]

            A.case(text, exp, mk, {"family": "a", "ctx": ctx, "seq": dm.to_jsonable(seq),
                                   "base": BASE_CLASS[bi], "redundant": red})
    return A.out()


def _work_a3(task):
    """Array bounds that contain a type name with a declarator of its own
    (sizeof(int *), a cast, _Alignof(void (*)(int *)), an anonymous struct with
    a declarator inside, a compound literal): every derivation sequence within
    the bound that has at least one such array derivation."""
    ctx, maxlen, first_i = task
    param = ctx in dm.PARAM_CONTEXTS
    typed = [("arr", k) for k in dm.ARR_TYPED]
    alpha = dm.symbols(param) + typed
    name = "x" if ctx in dm.NAMED_CONTEXTS else None
    seqs, tr = _seqs_from(alpha[first_i], maxlen, alpha, param)
    seqs = [q for q in seqs if any(sym in typed for sym in q)]
    A = Acc()
    A.states = len(seqs)
    A.trans = tr
    cache = {}
    for seq in seqs:
        for red in (False, True):
            try:
                toks, exp = dm.place_entity(ctx, name, seq, dm.S_INT, red)
            except dm.Unrenderable:
                A.skipped += 1
                continue

            def mk(r, seq=seq, red=red):
                key = (tuple(dm.sym_class(x) for x in seq), red, r[0] == "rejected")
                if key not in cache:
                    cache[key] = _minimise_a(ctx, name, seq, 0, red, param)
                return "a:" + cache[key]

            A.case(dm.text(toks), exp, mk, {"family": "a3", "ctx": ctx, "seq": dm.to_jsonable(seq),
                                            "redundant": red})
    return A.out()


def array_spellings():
    """Every `[...]` content 6.7.5.2 allows with <= 2 distinct qualifiers:
    (dim_quals in source order, dim)."""
    qs = ("const", "volatile", "restrict")
    qlists = [()] + [(q,) for q in qs] + [p for p in itertools.permutations(qs, 2)]
    out = []
    for ql in qlists:
        out.append((ql, None))
        out.append((ql, ("c", "3")))
        out.append((ql, "*"))
        out.append((("static",) + ql, ("c", "3")))
        if ql:
            out.append((ql + ("static",), ("c", "3")))
    return out


def _work_a2(task):
    """Array-bound spellings in the outermost array derivation of a parameter."""
    ctx, rest_len = task
    A = Acc()
    name = "x" if ctx == "param" else None
    rests = dm.sequences(rest_len, param=True)
    for sp in array_spellings():
        first = ("arr", sp)
        for rest in rests:
            if rest and not dm.can_extend((first,), rest[0], True):
                continue
            seq = (first,) + rest
            A.states += 1
            A.trans += len(seq)
            for red in (False, True):
                try:
                    toks, exp = dm.place_entity(ctx, name, seq, dm.S_INT, red)
                except dm.Unrenderable:
                    A.skipped += 1
                    continue
                A.case(dm.text(toks), exp,
                       lambda r: f"a:{ctx}:{dm.sym_class(first)}:{r[0]}",
                       {"family": "a2", "ctx": ctx})
    return A.out()


# ---------------------------------------------------------------------------
# gcc audit of the renderer (family (a), file scope)
# ---------------------------------------------------------------------------
AUDIT_PRELUDE = "typedef int T;\nstruct S { int m; };\n"


def _audit_item(i, seq, bi, red):
    spec = BASES[bi]
    try:
        d = dm.render_declarator(f"x{i}", seq, red)
    except dm.Unrenderable:
        return None
    lines, final = dm.typedef_chain(spec, seq, f"B{i}")
    lines.append(f"extern {dm.text(dm.render_spec(spec) + d)};")
    lines.append(
        f"_Static_assert(__builtin_types_compatible_p(__typeof__(&x{i}), __typeof__({final} *)), \"#{i}#\");"
    )
    return "\n".join(lines)


def _work_audit(task):
    """Compile one TU; return (n_items, ids whose assertion failed, other errors)."""
    path, items = task
    n = 0
    with open(path, "w") as f:
        f.write(AUDIT_PRELUDE)
        for i, seq, bi, red in items:
            s = _audit_item(i, seq, bi, red)
            if s is None:
                continue
            n += 1
            f.write(s + "\n")
    p = subprocess.run(
        ["gcc", "-std=c11", "-fsyntax-only", "-w", "-fmax-errors=0", path],
        capture_output=True, text=True,
    )
    failed = []
    other = []
    for line in p.stderr.splitlines():
        if "error:" not in line:
            continue
        m = re.search(r"static assertion failed: \"#(\d+)#\"", line)
        if m:
            failed.append(int(m.group(1)))
        else:
            other.append(line[:200])
    if p.returncode != 0 and not failed and not other:
        other.append("gcc failed: " + p.stderr[:200])
    return n, failed, other[:5], len(other)


def _audit(R, maxlen, tmp):
    seqs = dm.sequences(maxlen)
    items = []
    i = 0
    for seq in seqs:
        for bi in range(len(BASES)):
            for red in (False, True):
                items.append((i, seq, bi, red))
                i += 1
    by_id = {it[0]: it for it in items}
    tasks = [(os.path.join(tmp, f"audit{k}.c"), ch) for k, ch in enumerate(core.chunked(items, 1500))]
    audited = 0
    for n, failed, other, n_other in core.pmap(_work_audit, tasks, chunksize=1):
        audited += n
        for fid in failed:
            _, seq, bi, red = by_id[fid]
            R.fail("audit:gcc-disagrees-with-renderer:" + dm.term_sig(seq),
                   {"seq": dm.to_jsonable(seq), "base": BASE_CLASS[bi], "redundant": red,
                    "c": _audit_item(fid, seq, bi, red)},
                   "gcc: the rendered declarator does not declare the type built one derivation per typedef")
        if n_other:
            R.fail("audit:gcc-rejects-rendered-text", {"errors": other}, other[0])
    # liveness controls: deliberately wrong chains must be refuted by gcc
    controls = [
        ((Arr("N"), Ptr()), (Ptr(), Arr("N"))),                 # int *x[3]  vs pointer to array
        ((Ptr(), Ptr("const")), (Ptr("const"), Ptr())),         # qualifier on the wrong level
        ((Ptr(), Fn("int")), (Fn("int"), Ptr())),               # int (*x)(int) vs int *x(int)
        ((Ptr("volatile"),), (Ptr(),)),                         # top-level qualifier dropped
    ]
    path = os.path.join(tmp, "controls.c")
    with open(path, "w") as f:
        f.write(AUDIT_PRELUDE)
        for k, (declared, chain) in enumerate(controls):
            lines, final = dm.typedef_chain(dm.S_INT, chain, f"C{k}")
            d = dm.render_declarator(f"c{k}", declared)
            f.write("\n".join(lines) + f"\nextern int {dm.text(d)};\n")
            f.write(f"_Static_assert(__builtin_types_compatible_p(__typeof__(&c{k}), __typeof__({final} *)), \"#{k}#\");\n")
    p = subprocess.run(["gcc", "-std=c11", "-fsyntax-only", "-w", "-fmax-errors=0", path],
                       capture_output=True, text=True)
    refuted = set(int(x) for x in re.findall(r"static assertion failed: \"#(\d+)#\"", p.stderr))
    if refuted != set(range(len(controls))):
        R.fail("audit:dead", {"refuted": sorted(refuted), "stderr": p.stderr[:400]},
               "gcc did not refute the deliberately wrong controls")
    return audited, len(controls)


# ---------------------------------------------------------------------------
# (b) multi-declarator declarations
# ---------------------------------------------------------------------------
B_SPECS = [
    dm.S_INT,
    (("qual", "const"), ("word", "unsigned"), ("word", "long")),
    (("tname", "T"), ("qual", "volatile")),
    S_STRUCT,
]
B_CTX = ("file", "block", "for", "member", "typedef")


def _init_for(seq, k):
    if not seq or seq[0][0] == "ptr":
        return ("c", str(k))
    if seq[0][0] == "arr":
        return ("list", (((), ("c", str(k))),), False)
    return None


def _work_b(task):
    ctx, si, maxlen, i0, arity = task
    seqs = dm.sequences(maxlen)
    A = Acc()
    names = ("x", "y", "z")
    first = seqs[i0]
    rest = itertools.product(seqs, repeat=arity - 1)
    for tail in rest:
        combo = (first,) + tail
        A.states += 1
        A.trans += arity
        for with_init in (False, True):
            if with_init and ctx in ("member", "typedef"):
                continue
            inits = [(_init_for(s, k + 1) if with_init else None) for k, s in enumerate(combo)]
            if with_init and not any(inits):
                continue
            d = Decln(B_SPECS[si], tuple(Dtor(names[k], s, inits[k], None) for k, s in enumerate(combo)))
            toks, exp = dm.place(ctx, d)
            A.case(dm.text(toks), exp, lambda r: f"b:{r[0]}",
                   {"family": "b", "ctx": ctx})
    return A.out()


def _redef_plan(arity, level):
    """[(mask, sequences per position)]: mask[k] = position k redefines an
    already visible typedef name (C11 6.7p3: same type), otherwise it declares
    a new name.  level 1 (quick): pairs over sequences <= 1, triples over a
    4-sequence set; level 2 (thorough): new names of pairs range over
    sequences <= 2, triples over all sequences <= 1."""
    s1 = dm.sequences(1)
    small = [(), (Ptr(),), (Arr("N"),), (Fn("void"),)]
    out = []
    masks = [m for m in itertools.product((False, True), repeat=arity) if any(m)]
    for mask in masks:
        if arity == 2:
            per = [s1 if (m or level == 1) else dm.sequences(2) for m in mask]
        else:
            per = [small if level == 1 else s1 for _ in mask]
        for combo in itertools.product(*per):
            out.append((mask, combo))
    return out


def _work_b_redef(task):
    """`typedef S R1 <d>; ... typedef S d1, d2[, d3];` where some positions
    redefine R1.. with the same type, at file scope and in a block (there the
    inner typedef hides the outer one).  The hiding of a typedef name by an
    *object* (`T T, *p;`) is family (h), not this one."""
    scope, si, arity, level, shard, nshards = task
    A = Acc()
    spec = tuple(B_SPECS[si])
    plan = _redef_plan(arity, level)[shard::nshards]
    new_names = ("x", "y", "z")
    for mask, combo in plan:
        A.states += 1
        A.trans += arity + sum(len(c) for c in combo)
        for red in ((False, True) if arity == 2 else (False,)):
            try:
                dts = tuple(Dtor(f"R{k}" if mask[k] else new_names[k], combo[k], None, None)
                            for k in range(arity))
                need_T = dm.uses_T(spec) or dm.uses_T(combo)
                units = []
                for k in range(arity):
                    if mask[k]:
                        units.append(dm.place("typedef", Decln(spec, (Dtor(f"R{k}", combo[k], None, None),)),
                                              with_T=need_T and not units))
                main = Decln((("storage", "typedef"),) + spec, dts)
                units.append(dm.place(scope, main, red, with_T=False))
            except dm.Unrenderable:
                A.skipped += 1
                continue
            toks, exp = _join_units(units)
            pos = "".join("R" if m else "n" for m in mask)
            A.case(dm.text(toks), exp, lambda r: f"b:typedef-redefinition:{scope}:{r[0]}",
                   {"family": "b-redef", "scope": scope, "positions": pos})
    return A.out()


# ---------------------------------------------------------------------------
# (c) specifier list orderings
# ---------------------------------------------------------------------------
def _w(*ws):
    return tuple(("word", w) for w in ws)


TYPE_MULTISETS = [
    _w("void"), _w("char"), _w("signed", "char"), _w("unsigned", "char"),
    _w("short"), _w("signed", "short"), _w("short", "int"), _w("signed", "short", "int"),
    _w("unsigned", "short"), _w("unsigned", "short", "int"),
    _w("int"), _w("signed"), _w("signed", "int"), _w("unsigned"), _w("unsigned", "int"),
    _w("long"), _w("signed", "long"), _w("long", "int"), _w("signed", "long", "int"),
    _w("unsigned", "long"), _w("unsigned", "long", "int"),
    _w("long", "long"), _w("signed", "long", "long"), _w("long", "long", "int"),
    _w("signed", "long", "long", "int"), _w("unsigned", "long", "long"),
    _w("unsigned", "long", "long", "int"),
    _w("float"), _w("double"), _w("long", "double"), _w("_Bool"),
    _w("float", "_Complex"), _w("double", "_Complex"), _w("long", "double", "_Complex"),
    (("tname", "T"),), (("su", "struct", "S", None),), (("su", "union", "U", None),),
    (("enum", "E", None, False),),
]
QUALS = [("qual", "const"), ("qual", "volatile"), ("qual", "_Atomic")]
FUNCS = [("func", "inline"), ("func", "_Noreturn")]
ALIGNS = [("alignc", ("c", "8")), ("alignt", TypeName(dm.S_T, ()))]


def _st(*names):
    return tuple(("storage", n) for n in names)


C_SUB = {
    # name: (storage combinations, funcs allowed, aligns allowed, void allowed)
    "file-object": ([(), _st("extern"), _st("static"), _st("_Thread_local"),
                     _st("static", "_Thread_local"), _st("extern", "_Thread_local")], False, True, False),
    "file-function": ([(), _st("extern"), _st("static")], True, False, True),
    "definition": ([(), _st("extern"), _st("static")], True, False, True),
    "block-object": ([(), _st("auto"), _st("register"), _st("static"), _st("extern"),
                      _st("static", "_Thread_local"), _st("extern", "_Thread_local")], False, True, False),
    "parameter": ([(), _st("register")], False, False, False),
    "member": ([()], False, True, False),
    "typedef": ([_st("typedef")], False, False, False),
    "type-name": ([()], False, False, False),
    "compound-literal": ([()], False, True, False),
}


C_GROUP = {k: ("specifier-qualifier-list" if k in ("member", "type-name", "compound-literal") else "declaration-specifiers")
           for k in C_SUB}


def _subsets(pool, kmax):
    for k in range(0, kmax + 1):
        for c in itertools.combinations(pool, k):
            yield c


def c_multisets(sub, L):
    """Every specifier multiset of total length <= L that C allows in the
    sub-context (one 6.7.2p2 type multiset + storage + qualifiers + function
    specifiers + alignment specifiers)."""
    storages, funcs_ok, aligns_ok, void_ok = C_SUB[sub]
    out = []
    for W in TYPE_MULTISETS:
        if W == _w("void") and not void_ok:
            continue
        room = L - len(W)
        if room < 0:
            continue
        for st in storages:
            if len(st) > room:
                continue
            for qs in _subsets(QUALS, room - len(st)):
                r2 = room - len(st) - len(qs)
                for fs in (_subsets(FUNCS, r2) if funcs_ok else [()]):
                    r3 = r2 - len(fs)
                    al_ok = aligns_ok and ("storage", "register") not in st
                    for als in (_subsets(ALIGNS, r3) if al_ok else [()]):
                        out.append(tuple(W) + tuple(st) + tuple(qs) + tuple(fs) + tuple(als))
    return out


def _c_cases(sub, spec):
    """[(tokens, expected)] for one ordered specifier list in one sub-context."""
    has_align = any(it[0] in ("alignc", "alignt") for it in spec)
    x = Dtor("x", (), None, None)
    px = Dtor("x", (Ptr(),), None, None)
    fx = Dtor("x", (Fn("void"),), None, None)
    if sub == "file-object":
        return [dm.place("file", Decln(spec, (x,))), dm.place("file", Decln(spec, (px,)))]
    if sub == "typedef":
        return [dm.place("file", Decln(spec, (x,))), dm.place("file", Decln(spec, (px,)))]
    if sub == "file-function":
        return [dm.place("file", Decln(spec, (fx,)))]
    if sub == "definition":
        return [dm.place_funcdef(Decln(spec, (fx,)))]
    if sub == "block-object":
        return [dm.place("block", Decln(spec, (x,)))]
    if sub == "parameter":
        return [dm.place("param", Entity("x", (), spec)), dm.place("param_abs", Entity(None, (Ptr(),), spec))]
    if sub == "member":
        out = [dm.place("member", Decln(spec, (x,)))]
        if not has_align:
            out.append(dm.place("member", Decln(spec, (Dtor("x", (), None, ("c", "3")),))))
        return out
    if sub == "type-name":
        return [dm.place("sizeof", TypeName(spec, ())), dm.place("cast", TypeName(spec, (Ptr(),)))]
    raise ValueError(sub)


def _collect(c, cls, out):
    if isinstance(c, tuple):
        if len(c) == 2 and c[0] == cls and isinstance(c[1], tuple):
            out.append(c)
            return out
        for x in c:
            _collect(x, cls, out)
    return out


def _strip_typename_align(c):
    if isinstance(c, tuple):
        if len(c) == 2 and c[0] == "Typename" and isinstance(c[1], tuple):
            return ("Typename", tuple((k, None if k == "align" else _strip_typename_align(v)) for k, v in c[1]))
        return tuple(_strip_typename_align(x) for x in c)
    return c


def _work_c_complit(task):
    """Alignment specifiers in the type name of a compound literal (allowed by
    C11 as amended by DR 444 / C17 6.7.5p2).  pycparser documents no shape for
    them on a Typename, so the oracle is the shape-free part of the property:
    every specifier is still in the AST, in source order, and the rest of the
    AST is the expected one."""
    _sub, msets = task
    A = Acc()
    for ms in msets:
        if not any(it[0] in ("alignc", "alignt") for it in ms):
            continue
        A.states += 1
        for spec in sorted(set(itertools.permutations(ms)), key=repr):
            A.trans += len(spec)
            toks, exp = dm.place("complit", TypeName(spec, ()))
            want = dm.expect_spec(spec).align
            text = dm.text(toks)
            A.n += 1
            A.exp.add(hash(exp))
            out = core.parse_outcome(text)
            if out[0] != "ok":
                A.fail("c:compound-literal:rejected", {"text": text, "family": "c-complit"}, str(out[1:])[:200])
                continue
            A.parsed += 1
            sh = _shared_node(out[1], text)
            if sh is not None:
                A.fail(sh, {"text": text, "shared_node_check": True}, sh)
            got = core.canon(out[1])
            init = _collect(got, "CompoundLiteral", [])
            have = _collect(init, "Alignas", [])
            if _strip_typename_align(got) != exp:
                d = core.first_diff(exp, _strip_typename_align(got))
                A.fail("c:compound-literal:" + _short(d), {"text": text, "expected": dm.to_jsonable(exp)}, " / ".join(d))
            # Whether the Alignas nodes survive is NOT judged (lead's triage): an
            # alignment specifier in a type name is only valid since DR 444 / C17,
            # i.e. outside the property's "C99 plus supported C11" domain, and
            # pycparser documents no Typename.align shape.  The pinned tree drops
            # them (Typename.align=None); counted, not reported.
            elif tuple(have) != tuple(dm._c(want)):
                pass
    return A.out()


def _work_c(task):
    sub, msets = task
    if sub == "compound-literal":
        return _work_c_complit(task)
    A = Acc()
    for ms in msets:
        perms = sorted(set(itertools.permutations(ms)), key=repr)
        A.states += 1
        for spec in perms:
            A.trans += len(spec)
            for toks, exp in _c_cases(sub, spec):
                A.case(dm.text(toks), exp, lambda r: f"c:{C_GROUP[sub]}:{r[0]}", {"family": "c", "sub": sub})
    return A.out()


# ---------------------------------------------------------------------------
# (d) struct / union bodies, enums
# ---------------------------------------------------------------------------
def _member(kind, i):
    one = lambda n, seq=(), bits=None: (Dtor(n, seq, None, bits),)  # noqa: E731
    if kind == "plain":
        return Decln(dm.S_INT, one(f"a{i}"))
    if kind == "ptr":
        return Decln(_w("char"), one(f"b{i}", (Ptr(),)))
    if kind == "array":
        return Decln(dm.S_INT, one(f"c{i}", (Arr("N"),)))
    if kind == "bit":
        return Decln(_w("unsigned"), one(f"d{i}", (), ("c", "3")))
    if kind == "bit-unnamed":
        return Decln(dm.S_INT, one(None, (), ("c", "2")))
    if kind == "anon-struct":
        return Decln((("su", "struct", None, (Decln(dm.S_INT, one(f"e{i}")),)),), ())
    if kind == "anon-union":
        return Decln((("su", "union", None, (Decln(dm.S_INT, one(f"f{i}")),)),), ())
    if kind == "nested":
        return Decln((("su", "struct", f"N{i}", (Decln(dm.S_INT, one(f"g{i}")),)),), one(f"h{i}"))
    if kind == "multi":
        return Decln((("qual", "const"), ("word", "int")),
                     (Dtor(f"i{i}", (), None, None), Dtor(f"j{i}", (Ptr(),), None, None),
                      Dtor(f"k{i}", (), None, ("c", "1"))))
    raise ValueError(kind)


MEMBER_KINDS = ("plain", "ptr", "array", "bit", "bit-unnamed", "anon-struct", "anon-union",
                "nested", "multi")
USAGES = ("only", "var", "two", "typedef", "sizeof", "param", "qualified", "member")


def _use(S, usage):
    v = Dtor("v", (), None, None)
    if usage == "only":
        return dm.place("file", Decln((S,), ()))
    if usage == "var":
        return dm.place("file", Decln((S,), (v,)))
    if usage == "two":
        return dm.place("block", Decln((S,), (v, Dtor("p", (Ptr(),), None, None))))
    if usage == "typedef":
        return dm.place("typedef", Decln((S,), (Dtor("U", (), None, None),)))
    if usage == "sizeof":
        return dm.place("sizeof", TypeName((S,), ()))
    if usage == "param":
        return dm.place("param", Entity("q", (), (S,)))
    if usage == "qualified":
        return dm.place("file", Decln((("qual", "const"), S, ("qual", "volatile")), (v,)))
    if usage == "member":
        return dm.place("member", Decln((S,), (v,)))
    raise ValueError(usage)


# base specifiers of unnamed bit-fields (all different types / qualifiers)
BF_SPECS = [dm.S_INT, _w("unsigned"), _w("long"), (("qual", "const"), ("word", "int")), dm.S_T]


def _join_units(units):
    """Several place() results as one translation unit."""
    toks, ext = [], []
    for t, e in units:
        toks += t
        ext += list(dict(e[1])["ext"])
    return toks, dm.N("FileAST", ext=ext)


def _bf(spec, *fields):
    """Member declaration `spec f1, f2, ...;` with fields (name|None, width)."""
    return Decln(spec, tuple(Dtor(n, (), None, ("c", str(w))) for n, w in fields))


def _bitfield_units():
    """Member lists with >= 2 unnamed bit-fields of different base specifiers:
    every ordered pair (and triple) over BF_SPECS, as separate declarations,
    mixed with named bit-fields in the same declaration, nested, and spread
    over two structs of one translation unit."""
    plain = Decln(dm.S_INT, (Dtor("z", (), None, None),))
    for kw in ("struct", "union"):
        def su(tag, members):
            return ("su", kw, tag, tuple(members))

        def var(S, name="v", with_T=None):
            return dm.place("file", Decln((S,), (Dtor(name, (), None, None),)), with_T=with_T)

        for A_, B_ in itertools.product(BF_SPECS, repeat=2):
            yield [var(su(None, [_bf(A_, (None, 3)), _bf(B_, (None, 0))]))]
            yield [var(su("S", [_bf(A_, (None, 3)), plain, _bf(B_, (None, 2))]))]
            yield [var(su(None, [_bf(A_, ("a", 1), (None, 2)), _bf(B_, (None, 5))]))]
            yield [var(su(None, [_bf(A_, (None, 2), ("b", 1)), _bf(B_, (None, 5), (None, 6))]))]
            yield [var(su(None, [_bf(A_, (None, 1), (None, 2)), _bf(B_, ("c", 4), (None, 3), ("d", 2))]))]
            inner = Decln((su(None, [_bf(B_, (None, 1))]),), (Dtor("in", (), None, None),))
            yield [var(su(None, [_bf(A_, (None, 3)), inner]))]
            yield [var(su(None, [inner, _bf(A_, (None, 3))]))]
            # two structs in one translation unit
            yield [var(su("M1", [_bf(A_, (None, 3))]), "v", True), var(su("M2", [_bf(B_, (None, 4))]), "w", False)]
            yield [dm.place("file", Decln((su("M1", [_bf(A_, (None, 3))]),), ()), with_T=True),
                   dm.place("block", Decln((su("M2", [_bf(B_, (None, 4)), _bf(A_, ("e", 1))]),),
                                           (Dtor("w", (), None, None),)), with_T=False)]
        for A_, B_, C_ in itertools.product(BF_SPECS, repeat=3):
            yield [var(su(None, [_bf(A_, (None, 1)), _bf(B_, (None, 2)), _bf(C_, (None, 3))]))]


def _work_d_bitfields(_arg):
    A = Acc()
    for units in _bitfield_units():
        toks, exp = _join_units(units) if len(units) > 1 else units[0]
        A.states += 1
        A.trans += len(toks)
        A.case(dm.text(toks), exp, lambda r: f"d:unnamed-bit-fields:{r[0]}", {"family": "d"})
    return A.out()


def _work_d(task):
    what, arg = task
    if what == "bitfields":
        return _work_d_bitfields(arg)
    A = Acc()
    if what == "su":
        kinds_first, maxlen = arg
        lists = []
        for n in range(1, maxlen + 1):
            for ks in itertools.product(MEMBER_KINDS, repeat=n):
                if ks[0] == kinds_first:
                    lists.append(ks)
        for ks in lists:
            members = tuple(_member(k, i) for i, k in enumerate(ks))
            A.states += 1
            A.trans += len(ks)
            for kw in ("struct", "union"):
                for tag in ("S", None):
                    S = ("su", kw, tag, members)
                    for usage in USAGES:
                        toks, exp = _use(S, usage)
                        A.case(dm.text(toks), exp, lambda r: f"d:su-body:{r[0]}",
                               {"family": "d"})
    else:
        maxlen = arg
        names = ("A", "B", "C")
        for n in range(1, maxlen + 1):
            choices = []
            for i in range(n):
                vs = [None, ("c", str(i + 1))]
                if i:
                    vs.append(("id", names[i - 1]))
                choices.append(vs)
            for vals in itertools.product(*choices):
                ens = tuple((names[i], v) for i, v in enumerate(vals))
                A.states += 1
                A.trans += n
                for trailing in (False, True):
                    for tag in ("E", None):
                        S = ("enum", tag, ens, trailing)
                        for usage in USAGES:
                            toks, exp = _use(S, usage)
                            A.case(dm.text(toks), exp, lambda r: f"d:enum-body:{r[0]}",
                                   {"family": "d"})
    return A.out()


# ---------------------------------------------------------------------------
# (e) initialisers with designators
# ---------------------------------------------------------------------------
DESIG_ATOMS = ((".", "m"), ("[", ("c", "1")), ("[", ("id", "K")))
DESIGS = [()] + [(a,) for a in DESIG_ATOMS] + [(a, b) for a in DESIG_ATOMS for b in DESIG_ATOMS]


def init_shapes(nodes):
    """Outer lists (depth <= 2) with exactly `nodes` nodes; a shape is a tuple
    of elements, 0 = leaf, k>0 = inner list with k leaves (k+1 nodes)."""
    out = []

    def rec(prefix, left):
        if left == 0:
            if prefix:
                out.append(tuple(prefix))
            return
        rec(prefix + [0], left - 1)
        for k in range(1, left):
            rec(prefix + [k], left - 1 - k)

    rec([], nodes)
    return out


def build_init(shape, desigs, trailing_outer=False, trailing_inner=False, id_leaves=False):
    """Initialiser tree of `shape` whose nodes (in depth-first order) carry the
    designator chains `desigs`; leaves are the constants 1, 2, 3 ... by position
    (or identifiers) so that any reordering is visible."""
    it = iter(desigs)
    cnt = [0]

    def leaf():
        cnt[0] += 1
        return ("id", f"w{cnt[0]}") if id_leaves else ("c", str(cnt[0]))

    items = []
    for el in shape:
        d = next(it)
        if el == 0:
            items.append((d, leaf()))
        else:
            inner = tuple((next(it), leaf()) for _ in range(el))
            items.append((d, ("list", inner, trailing_inner)))
    return ("list", tuple(items), trailing_outer)


def _e_place(ctx, init):
    if ctx == "complit":
        return dm.place("complit", TypeName(S_STRUCT, ()), init=init)
    return dm.place(ctx, Decln(S_STRUCT, (Dtor("v", (), init, None),)))


def _work_e(task):
    shape, d0, ctxs, trailing = task
    nodes = sum(1 + el for el in shape)
    A = Acc()
    for rest in itertools.product(DESIGS, repeat=nodes - 1):
        desigs = (d0,) + rest
        A.states += 1
        A.trans += nodes + sum(len(d) for d in desigs)
        variants = [(False, False, False)]
        if trailing:
            variants += [(True, False, False), (False, True, False), (False, False, True)]
        for to, ti, idl in variants:
            if ti and not any(shape):
                continue
            init = build_init(shape, desigs, to, ti, idl)
            for ctx in ctxs:
                toks, exp = _e_place(ctx, init)
                A.case(dm.text(toks), exp, lambda r: f"e:{r[0]}", {"family": "e"})
    return A.out()


# ---------------------------------------------------------------------------
# (f) function definitions, K&R declaration lists
# ---------------------------------------------------------------------------
F_PARAM_SEQS = [(), (Ptr(),), (Ptr("const"),), (Arr(""),), (Arr("N"),), (Fn("empty"),), (Ptr(), Ptr())]
F_PARAM_SPECS = [dm.S_INT, dm.S_T, (("storage", "register"), ("word", "char"))]


def _knr_lists(names):
    """Every K&R declaration list for the identifier list `names` (<= 2)."""
    if not names:
        return [None]
    per = [(sp, sq) for sp in F_PARAM_SPECS for sq in F_PARAM_SEQS]
    out = [None]
    if len(names) == 1:
        return out + [[Decln(sp, (Dtor(names[0], sq, None, None),))] for sp, sq in per]
    a, b = names
    for (sa, qa), (sb, qb) in itertools.product(per, repeat=2):
        da = Decln(sa, (Dtor(a, qa, None, None),))
        db = Decln(sb, (Dtor(b, qb, None, None),))
        out.append([da, db])
        out.append([db, da])
    for sp in F_PARAM_SPECS:
        for qa, qb in itertools.product(F_PARAM_SEQS, repeat=2):
            out.append([Decln(sp, (Dtor(a, qa, None, None), Dtor(b, qb, None, None)))])
            out.append([Decln(sp, (Dtor(b, qb, None, None), Dtor(a, qa, None, None)))])
    return out


def _work_f(task):
    first, maxrest, bases = task
    alpha = dm.symbols(False)
    A = Acc()
    rests = [()]
    level = [(first,)]
    for _ in range(maxrest):
        nxt = []
        for s in level:
            for a in alpha:
                if dm.can_extend(s, a, False, True):
                    nxt.append(s + (a,))
                    A.trans += 1
        rests += [s[1:] for s in nxt]
        level = nxt
    knr = dm.fn_info(first).knr
    lists = _knr_lists(knr) if knr is not None else [None]
    for rest in rests:
        seq = (first,) + rest
        A.states += 1
        for bi in bases:
            for red in (False, True):
                for kl in lists:
                    if kl is not None and (red or bi):
                        continue  # declaration lists are crossed with the plain int form only
                    d = Decln(BASES[bi], (Dtor("x", seq, None, None),))
                    try:
                        toks, exp = dm.place_funcdef(d, kl, red)
                    except dm.Unrenderable:
                        A.skipped += 1
                        continue
                    sig0 = "f"
                    A.case(dm.text(toks), exp,
                           lambda r: f"{sig0}:{'decl-list:' if kl else ''}{r[0]}", {"family": "f"})
    return A.out()


# ---------------------------------------------------------------------------
# (g) _Atomic(T)
# ---------------------------------------------------------------------------
def _atomic_spec(inner_spec, inner_seq=()):
    return (("atomic", TypeName(tuple(inner_spec), tuple(inner_seq))),)


def _place_any(ctx, name, seq, spec, red):
    if ctx == "funcdef":
        return dm.place_funcdef(Decln(spec, (Dtor(name, seq, None, None),)), None, red)
    return dm.place_entity(ctx, name, seq, spec, red)


def _ctx_kind(ctx):
    return "type-name" if ctx in dm.ABSTRACT_CONTEXTS else "declaration"


def _g_pair(A, ctx, t1, e1, t2, e2, tag, norm=None):
    """t1: spelling with the atomic specifier, t2: spelling with the qualifier.
    Both must give the model's AST (which is the same for both), and - the
    differential - the same AST as each other."""
    kind = _ctx_kind(ctx)
    if e1 != e2 and not norm:
        A.fail("g:model-inconsistent", {"text": t1, "text2": t2}, "model bug: the two spellings have different expectations")
    A.case(t2, e2, lambda r: f"g:{tag}:qualifier-spelling:{kind}:{r[0]}", {"family": "g", "ctx": ctx}, norm)

    def mk(r):
        if r[2]:
            # one root cause whatever the surrounding term: the specifier's
            # Typename is left inside the TypeDecl instead of being merged
            return "g:atomic-spec:TypeDecl.type:Typename-not-merged"
        return f"g:{tag}:{kind}:{r[0]}"

    A.case(t1, e1, mk, {"family": "g", "ctx": ctx, "text2": t2}, norm)


def _derived_multi_plan(level):
    """(inner type-name sequences, inner bases, declarator-sequence tuples).
    level 1 (quick): pairs of sequences <= 1, triples over a 4-sequence set;
    level 2 (thorough): + triples of sequences <= 1, pairs of sequences <= 2
    (the latter with the first three inner sequences and base int only - done
    by the caller through `level 3`)."""
    inner = [(Ptr(),), (Ptr(), Ptr()), (Ptr(), Fn("void")), (Ptr(), Ptr("const")),
             (Ptr(), Arr("N")), (Ptr(), Fn("named")), (Ptr(), Ptr(), Fn("int"))]
    bases = [dm.S_INT, dm.S_T, S_STRUCT]
    s1 = dm.sequences(1)
    small = [(), (Ptr(),), (Arr("N"),), (Fn("void"),)]
    if level == 3:
        s2 = dm.sequences(2)
        return inner[:3], bases[:1], [(a, b) for a in s2 for b in s2 if len(a) == 2 or len(b) == 2]
    combos = [(a,) for a in s1] + [(a, b) for a in s1 for b in s1]
    if level == 1:
        combos += list(itertools.product(small, repeat=3))
    else:
        combos += list(itertools.product(s1, repeat=3))
    return inner, bases, combos


def _work_g(task):
    what, ctx, maxlen = task
    A = Acc()
    param = ctx in dm.PARAM_CONTEXTS
    funcdef = ctx == "funcdef"
    name = None if ctx in dm.ABSTRACT_CONTEXTS else "x"
    shard = None
    if isinstance(maxlen, tuple):
        maxlen, shard = maxlen[0], maxlen[1:]
    seqs = dm.sequences(maxlen, param=param)
    if funcdef:
        seqs = [s for s in seqs if s and s[0][0] == "fn"]
    if what == "pure":
        # _Atomic(B) D   vs   _Atomic B D
        for seq in seqs:
            A.states += 1
            A.trans += len(seq) + 1
            for bi, base in enumerate(BASES):
                for red in (False, True):
                    try:
                        t1, e1 = _place_any(ctx, name, seq, _atomic_spec(base), red)
                        t2, e2 = _place_any(ctx, name, seq, (("qual", "_Atomic"),) + tuple(base), red)
                    except dm.Unrenderable:
                        A.skipped += 1
                        continue
                    _g_pair(A, ctx, dm.text(t1), e1, dm.text(t2), e2, "atomic-spec")
    elif what == "derived":
        # _Atomic(B * ...) D   vs   B  D ++ (* _Atomic ...)
        inner_seqs = [s for s in dm.sequences(2) if s and s[0] == Ptr()]
        inner_bases = [(dm.S_INT, dm.S_INT), (dm.S_T, dm.S_T), (S_STRUCT, S_STRUCT),
                       (_atomic_spec(dm.S_INT), (("qual", "_Atomic"),) + dm.S_INT)]
        for seq in seqs:
            for iseq in inner_seqs:
                if not dm.valid_seq(seq + iseq, param, funcdef):
                    continue
                A.states += 1
                A.trans += len(seq) + len(iseq) + 1
                for ib, ib2 in inner_bases:
                    try:
                        t1, e1 = _place_any(ctx, name, seq, _atomic_spec(ib, iseq), False)
                        full = seq + (Ptr("_Atomic"),) + iseq[1:]
                        t2, e2 = _place_any(ctx, name, full, ib2, False)
                    except dm.Unrenderable:
                        A.skipped += 1
                        continue
                    _g_pair(A, ctx, dm.text(t1), e1, dm.text(t2), e2, "atomic-spec-derived")
    elif what == "mixed":
        # one more qualifier before / after the atomic specifier; qualifier
        # order is not compared here (the property does not fix it)
        for seq in seqs:
            A.states += 1
            A.trans += len(seq) + 2
            for q in ("const", "volatile"):
                for before in (True, False):
                    qi = (("qual", q),)
                    s1 = qi + _atomic_spec(dm.S_INT) if before else _atomic_spec(dm.S_INT) + qi
                    s2 = (qi + (("qual", "_Atomic"),) + dm.S_INT) if before else ((("qual", "_Atomic"),) + dm.S_INT + qi)
                    try:
                        t1, e1 = _place_any(ctx, name, seq, s1, False)
                        t2, e2 = _place_any(ctx, name, seq, s2, False)
                    except dm.Unrenderable:
                        A.skipped += 1
                        continue
                    _g_pair(A, ctx, dm.text(t1), e1, dm.text(t2), e2, "atomic-spec+qualifier", _sort_quals)
    elif what == "derived-multi":
        # _Atomic(B * ...) D1, D2 [, D3]   vs   B  D1 ++ (* _Atomic ...), D2 ++ ..., ...
        inner_seqs, inner_bases, combos = _derived_multi_plan(maxlen)
        if shard:
            combos = combos[shard[0]::shard[1]]
        names = ("p", "q", "r")
        for combo in combos:
            for iseq in inner_seqs:
                A.states += 1
                A.trans += sum(len(x) for x in combo) + len(iseq) + 1
                for ib in inner_bases:
                    try:
                        d1 = Decln(_atomic_spec(ib, iseq),
                                   tuple(Dtor(names[k], sq, None, None) for k, sq in enumerate(combo)))
                        t1, e1 = dm.place(ctx, d1)
                    except dm.Unrenderable:
                        A.skipped += 1
                        continue
                    mk = lambda r: ("g:atomic-spec:TypeDecl.type:Typename-not-merged" if r[2]  # noqa: E731
                                    else f"g:atomic-spec-derived-multi:{r[0]}")
                    A.case(dm.text(t1), e1, mk, {"family": "g", "ctx": ctx})
                    try:
                        d2 = Decln(ib, tuple(Dtor(names[k], sq + (Ptr("_Atomic"),) + iseq[1:], None, None)
                                             for k, sq in enumerate(combo)))
                        t2, e2 = dm.place(ctx, d2)
                    except dm.Unrenderable:
                        A.skipped += 1   # C has no qualifier spelling for this one
                        continue
                    if e1 != e2:
                        A.fail("g:model-inconsistent", {"text": dm.text(t1), "text2": dm.text(t2)},
                               "model bug: the two spellings have different expectations")
                    A.case(dm.text(t2), e2, lambda r: f"g:atomic-spec-derived-multi:qualifier-spelling:{r[0]}",
                           {"family": "g", "ctx": ctx})
    elif what == "derived-multi-qual":
        # plain qualifiers outside (before / after) the specifier and inside
        # its type name, 2-3 declarators:
        #   Qb _Atomic(Qi B * ...) Qa D1, D2[, D3]  ==  Qi B  D1 ++ (* _Atomic Qb Qa ...), ...
        # (qualifier order inside one list is not compared)
        level = maxlen
        inner_seqs, inner_bases, _ = _derived_multi_plan(1)
        s1 = dm.sequences(1)
        small = [(), (Ptr(),), (Arr("N"),), (Fn("void"),)]
        if level == 1:
            inner_seqs, inner_bases = inner_seqs[:3], inner_bases[:1]
            pairs = sorted(set([(a, b) for a in s1 for b in small] + [(a, b) for a in small for b in s1]), key=repr)
        else:
            pairs = [(a, b) for a in s1 for b in s1]
        combos = pairs + list(itertools.product(small[:3] if level == 1 else small, repeat=3))
        if shard:
            combos = combos[shard[0]::shard[1]]
        c_, v_ = ("qual", "const"), ("qual", "volatile")
        outers = [((), ()), ((c_,), ()), ((), (c_,)), ((v_,), ()), ((c_, v_), ()), ((c_,), (v_,))]
        inners = [(), (c_,), (v_,), (c_, v_)]
        if level == 1:
            outers = [o for o in outers if o != ((v_,), ())]
            inners = [i_ for i_ in inners if i_ != (v_,)]
        names = ("p", "q", "r")
        smallset = set(small)
        for combo in combos:
            A.states += 1
            A.trans += sum(len(x) for x in combo) + 2
            for iseq in inner_seqs:
                for ib in inner_bases:
                    for (qb, qa), qi in itertools.product(outers, inners):
                        if not (qb or qa or qi):
                            continue
                        try:
                            spec1 = tuple(qb) + _atomic_spec(tuple(qi) + tuple(ib), iseq) + tuple(qa)
                            d1 = Decln(spec1, tuple(Dtor(names[k], sq, None, None) for k, sq in enumerate(combo)))
                            t1, e1 = dm.place(ctx, d1)
                        except dm.Unrenderable:
                            A.skipped += 1
                            continue
                        mk = lambda r: ("g:atomic-spec:TypeDecl.type:Typename-not-merged" if r[2]  # noqa: E731
                                        else f"g:atomic-spec-derived-multi+qualifier:{r[0]}")
                        A.case(dm.text(t1), e1, mk, {"family": "g", "ctx": ctx}, _sort_quals)
                        if not all(sq in smallset for sq in combo) or (level == 1 and len(combo) == 3):
                            continue
                        # the spelling without the specifier (_Atomic first, so
                        # that no `_Atomic (` can arise)
                        oq = ("_Atomic",) + tuple(q[1] for q in tuple(qb) + tuple(qa))
                        try:
                            d2 = Decln(tuple(qi) + tuple(ib),
                                       tuple(Dtor(names[k], sq + (("ptr", oq),) + iseq[1:], None, None)
                                             for k, sq in enumerate(combo)))
                            t2, e2 = dm.place(ctx, d2)
                        except dm.Unrenderable:
                            A.skipped += 1
                            continue
                        if _sort_quals(e1) != _sort_quals(e2):
                            A.fail("g:model-inconsistent", {"text": dm.text(t1), "text2": dm.text(t2)},
                                   "model bug: the two spellings have different expectations")
                        A.case(dm.text(t2), e2,
                               lambda r: f"g:atomic-spec-derived-multi+qualifier:qualifier-spelling:{r[0]}",
                               {"family": "g", "ctx": ctx}, _sort_quals)
    elif what == "multi":
        # _Atomic(int) x, *y;
        for s1 in seqs:
            for s2 in seqs:
                A.states += 1
                A.trans += len(s1) + len(s2) + 1
                dts = (Dtor("x", s1, None, None), Dtor("y", s2, None, None))
                t1, e1 = dm.place(ctx, Decln(_atomic_spec(dm.S_INT), dts))
                t2, e2 = dm.place(ctx, Decln((("qual", "_Atomic"),) + dm.S_INT, dts))
                _g_pair(A, ctx, dm.text(t1), e1, dm.text(t2), e2, "atomic-spec-multi")
    return A.out()


# ---------------------------------------------------------------------------
# (h) the declared name is spelled like a typedef name of an enclosing scope
# ---------------------------------------------------------------------------
H_CTX = ("block", "for", "param", "member")


def _h_place(ctx, seq, bi, red):
    if ctx == "param":
        return dm.place(ctx, Entity("T", seq, BASES[bi]), red, with_T=True)
    return dm.place(ctx, Decln(BASES[bi], (Dtor("T", seq, None, None),)), red, with_T=True)


def _h_shape(seq):
    s = ""
    for sym in reversed(seq):
        c = "ptr" if sym[0] == "ptr" else "suffix"
        s = f"{c}({s})" if s else c
    return s or "plain"


def _work_h(task):
    ctx, maxlen = task
    A = Acc()
    param = ctx == "param"
    st = {}
    seqs = dm.sequences(maxlen, param=param, stats=st)
    A.states, A.trans = st["states"], st["transitions"]
    cache = {}
    for seq in seqs:
        for bi in range(len(BASES)):
            # C99 6.7.5.3p11: in a parameter declaration `int (T)` is a function
            # taking T, so the redundant-parentheses spelling is not a
            # declaration of T there.
            for red in ((False,) if param else (False, True)):
                try:
                    toks, exp = _h_place(ctx, seq, bi, red)
                except dm.Unrenderable:
                    A.skipped += 1
                    continue

                def mk(r, seq=seq, bi=bi, red=red):
                    key = (_h_shape(seq), red, r[0])
                    if key not in cache:
                        best = seq
                        for sub in _subseqs(seq):
                            if not dm.valid_seq(sub, param):
                                continue
                            try:
                                t2, e2 = _h_place(ctx, sub, bi, red)
                            except dm.Unrenderable:
                                continue
                            if _cmp(dm.text(t2), e2) is not None:
                                best = sub
                                break
                        cache[key] = f"h:{ctx}:{_h_shape(best)}{'+parens' if red else ''}:{r[0]}"
                    return cache[key]

                A.case(dm.text(toks), exp, mk, {"family": "h", "ctx": ctx})
    # round 8: the same redeclaration after an `_Atomic(type-name)` SPECIFIER
    # (the specifier is a type specifier, 6.7.2.4: the T that follows can only
    # be the declared name), alone and as the first of two declarators
    for seq in seqs:
        for two in (False, True):
            if two and param:
                continue
            spec = _atomic_spec(dm.S_INT)
            try:
                if param:
                    toks, exp = dm.place(ctx, Entity("T", seq, spec), False, with_T=True)
                else:
                    dts = (Dtor("T", seq, None, None),) + ((Dtor("q", (Ptr(),), None, None),) if two else ())
                    toks, exp = dm.place(ctx, Decln(spec, dts), False, with_T=True)
            except dm.Unrenderable:
                A.skipped += 1
                continue
            A.case(dm.text(toks), exp,
                   lambda r, seq=seq, two=two: f"h:{ctx}:atomic-spec:{_h_shape(seq)}{'+second' if two else ''}:{r[0]}",
                   {"family": "h", "ctx": ctx})
    return A.out()


# ---------------------------------------------------------------------------
# (h2) every small parameter declarator whose innermost position is the
#      typedef name T - is T the parameter's name or a typedef name?
# ---------------------------------------------------------------------------
# A shape is a sequence of operations applied inside-out to the innermost token
# X (X = T, or the ordinary identifier x):
#   ptr    * D        ptrc   * const D        paren  ( D )
#   [3] / (void) / (int)   D suffix   - only on a direct declarator (otherwise
#                                       the suffix would belong to the inner
#                                       direct declarator: a different shape)
# Reading "X is the declared name" (6.7.6p1 declarator grammar): the derivation
# sequence is the non-paren operations in order.
# Reading "X is a typedef name": in an abstract-declarator the only place a
# typedef name can stand is the start of a parameter-type-list, i.e. directly
# after a '(' (6.7.7 abstract-declarator / 6.7.6 parameter-type-list); nothing
# but suffixes can follow it inside that group, they form the abstract
# declarator of that inner parameter.  So the reading exists iff the first
# non-suffix operation is `paren`; the group is then a function suffix on an
# empty direct-abstract-declarator and the remaining operations apply to that
# function type.  C11 6.7.6.3p11: where both readings exist in a *parameter
# declaration*, the typedef-name reading is taken.  After `int` a second type
# specifier is impossible (6.7.2p2), after `*`/qualifiers the grammar has no
# place for one - there X can only be the name.  Outside parameter declarations
# a declarator is required, so X is always the (re)declared name.
# Both readings are audited with gcc (see _audit_h2).
H2_OPS = ("ptr", "ptrc", "paren", "[3]", "(void)", "(int)")
_H2_SFX = {"[3]": (["[", "3", "]"], Arr("N")), "(void)": (["(", "void", ")"], Fn("void")),
           "(int)": (["(", "int", ")"], Fn("int"))}
_H2_PTR = {"ptr": (["*"], Ptr()), "ptrc": (["*", "const"], Ptr("const"))}


def h2_tokens(core_tok, ops):
    toks = [core_tok]
    direct = True
    for op in ops:
        if op in _H2_PTR:
            toks = _H2_PTR[op][0] + toks
            direct = False
        elif op == "paren":
            toks = ["("] + toks + [")"]
            direct = True
        else:
            if not direct:
                return None
            toks = toks + _H2_SFX[op][0]
    return toks


def _h2_sym(op):
    return _H2_PTR[op][1] if op in _H2_PTR else _H2_SFX[op][1]


def h2_readings(ops, tname_spec=dm.S_T):
    """(sequence if X is the name, sequence if X is a typedef name | None)."""
    named = tuple(_h2_sym(op) for op in ops if op != "paren")
    i = 0
    while i < len(ops) and ops[i] in _H2_SFX:
        i += 1
    alt = None
    if i < len(ops) and ops[i] == "paren":
        inner = Entity(None, tuple(_h2_sym(op) for op in ops[:i]), tuple(tname_spec))
        alt = (("fn", ((inner,), False, None)),) + tuple(_h2_sym(op) for op in ops[i + 1:] if op != "paren")
    return named, alt


def h2_shapes(maxops):
    out = []
    for n in range(0, maxops + 1):
        for ops in itertools.product(H2_OPS, repeat=n):
            if h2_tokens("T", ops) is None:
                continue
            named, alt = h2_readings(ops)
            if not dm.valid_seq(named):
                continue
            if alt is not None:
                inner = dm.fn_info(alt[0]).params[0]
                if not dm.valid_seq(alt) or not dm.valid_seq(inner.seq):
                    continue   # the typedef reading is grammatical but no C type: not a valid program
            out.append(ops)
    return out


H2_BASES = [dm.S_INT, S_STRUCT]
H2_PLACES = ("param", "param-first", "param-last", "block", "for", "member")


def _h2_case(place, ops, core_tok, bi):
    """(text, expected FileAST, reading)"""
    base = H2_BASES[bi]
    named, alt = h2_readings(ops)
    shape = h2_tokens(core_tok, ops)
    if place.startswith("param"):
        if core_tok == "T" and alt is not None:
            ent, reading = Entity(None, alt, base), "typedef-name"
        else:
            ent, reading = Entity(core_tok, named, base), "name"
        a = Entity("a", (), dm.S_INT)
        ents = {"param": [ent], "param-first": [ent, a], "param-last": [a, ent]}[place]
        toks = list(dm.PREFIX_T) + ["void", "g", "("]
        for k, e in enumerate(ents):
            toks += ([","] if k else []) + (dm.render_spec(base) + shape if e is ent else dm.render_entity(e))
        toks += [")", ";"]
        g = dm._simple_decl("g", ["void"], lambda td: dm.N(
            "FuncDecl", args=dm.N("ParamList", params=[dm.expect_param(e) for e in ents]), type=td))
        return dm.text(toks), dm.N("FileAST", ext=dm._prefix_T_ast() + [g]), reading
    toks, _ = dm.place(place, Decln(base, (Dtor("@@", (), None, None),)), with_T=True)
    k = toks.index("@@")
    toks = toks[:k] + shape + toks[k + 1:]
    _, exp = dm.place(place, Decln(base, (Dtor(core_tok, named, None, None),)), with_T=True)
    return dm.text(toks), exp, "name"


def _work_h2(task):
    place, shapes = task
    A = Acc()
    for ops in shapes:
        A.states += 1
        A.trans += len(ops)
        for core_tok in ("T", "x"):
            for bi in range(len(H2_BASES)):
                text, exp, reading = _h2_case(place, ops, core_tok, bi)
                what = ("typedef-name" if core_tok == "T" else "identifier") + "-innermost"
                ctx = "param" if place.startswith("param") else place
                A.case(text, exp, lambda r: f"h2:{ctx}:{what}:should-read-as-{reading}:{r[0]}",
                       {"family": "h2", "place": place, "ops": list(ops)})
    return A.out()


def _work_audit_h2(task):
    """gcc decides both readings: `void f(int SHAPE);` must be compatible with
    the function type built one derivation per typedef for the reading the
    model expects, and (where the other reading exists) must NOT be compatible
    with the other one.  T is `char` here so that the readings differ in type."""
    path, shapes = task
    lines = ["typedef char T;", "struct S { int m; };"]
    want = {}
    n = 0
    fails = []

    def chain(seq, spec, stem):
        # parameter type through one-step typedefs (the inner parameter of the
        # typedef-name reading gets its own chain first)
        if seq and seq[0][0] == "fn" and not isinstance(seq[0][1], str):
            inner = dm.fn_info(seq[0]).params[0]
            l0, q = dm.typedef_chain(inner.spec, inner.seq, stem + "q")
            lines.extend(l0)
            seq = (("fn", ((Entity(None, (), (("tname", q),)),), False, None)),) + tuple(seq[1:])
        l1, p = dm.typedef_chain(spec, seq, stem)
        lines.extend(l1)
        lines.append(f"typedef void {stem}_F({p});")
        return f"{stem}_F"

    for si, ops in enumerate(shapes):
        for core_tok in ("T", "x"):
            for bi, base in enumerate(H2_BASES):
                named, alt = h2_readings(ops)
                i = n
                n += 1
                lines.append(f"void f{i}({dm.text(dm.render_spec(base) + h2_tokens(core_tok, ops))});")
                is_td = core_tok == "T" and alt is not None
                good = chain(alt if is_td else named, base, f"G{i}")
                lines.append(f"_Static_assert(__builtin_types_compatible_p(__typeof__(f{i}), {good}), \"#{i}#pos\");")
                want[i] = (ops, core_tok, bi)
                if core_tok == "T" and alt is not None:
                    bad = chain(named, base, f"N{i}")
                    lines.append(f"_Static_assert(!__builtin_types_compatible_p(__typeof__(f{i}), {bad}), \"#{i}#neg\");")
    # liveness control: `int *(T)` asserted to be the *name* reading must be refuted
    c_named, _c_alt = h2_readings(("paren", "ptr"))
    lines.append(f"void fctl({dm.text(['int'] + h2_tokens('T', ('paren', 'ptr')))});")
    bad = chain(c_named, dm.S_INT, "CTL")
    lines.append(f"_Static_assert(__builtin_types_compatible_p(__typeof__(fctl), {bad}), \"#ctl#\");")
    with open(path, "w") as f:
        f.write("\n".join(lines) + "\n")
    p = subprocess.run(["gcc", "-std=c11", "-fsyntax-only", "-w", "-fmax-errors=0", path],
                       capture_output=True, text=True)
    errs = [ln for ln in p.stderr.splitlines() if "error:" in ln]
    if not any("#ctl#" in ln for ln in errs):
        fails.append(("audit:h2:dead", {"stderr": p.stderr[:300]}, "gcc did not refute the deliberately wrong control"))
    any_err = bool(errs)
    errs = [ln for ln in errs if "#ctl#" not in ln]
    for ln in errs:
        m = re.search(r"static assertion failed: \"#(\d+)#(pos|neg)\"", ln)
        if m:
            ops, core_tok, bi = want[int(m.group(1))]
            fails.append(("audit:h2:gcc-reads-the-parameter-differently",
                          {"ops": list(ops), "innermost": core_tok, "base": bi, "which": m.group(2),
                           "c": f"void f({dm.text(dm.render_spec(H2_BASES[bi]) + h2_tokens(core_tok, ops))});"},
                          "gcc disagrees with the model's reading of 6.7.6.3p11"))
        else:
            fails.append(("audit:h2:gcc-rejects", {"error": ln[:200]}, ln[:200]))
    if p.returncode != 0 and not any_err:
        fails.append(("audit:h2:gcc-failed", {"stderr": p.stderr[:300]}, "gcc failed"))
    return n, fails[:20]


def _audit_h2(R, shapes, tmp):
    """The audit in parallel batches (each batch carries its own control)."""
    tasks = [(os.path.join(tmp, f"h2_{k}.c"), ch)
             for k, ch in enumerate(core.chunked(shapes, max(1, len(shapes) // 24)))]
    total = 0
    for n, fails in core.pmap(_work_audit_h2, tasks, chunksize=1):
        total += n
        R.fail_many(fails)
    return total


# ---------------------------------------------------------------------------
# run
# ---------------------------------------------------------------------------
def run(tier):
    R = core.Run(PID, tier, "model_checking")
    quick = tier == "quick"
    T = Total()
    B = dict(
        a_len=3 if quick else 4,
        a_typed_bound_len=2 if quick else 3,
        b_len=1 if quick else 2,
        b_triple_len=1,
        b_typedef_redefinition="every non-empty subset of positions of 2- and 3-declarator typedef declarations "
                               "redefines a visible typedef name; file and block scope; " +
                               ("pairs over sequences <=1, triples over 4 sequences" if quick else
                                "pairs: new names over sequences <=2; triples over sequences <=1"),
        c_len=3 if quick else 4,
        d_members=3, d_enumerators=3,
        e_nodes=3 if quick else 4, e_depth=2, e_designator_chain=2,
        f_knr_params=2, f_rest=1 if quick else 2,
        g_len=2 if quick else 3, g_multi_len=1 if quick else 2,
        g_derived_multi="pairs of sequences <=1 and triples over 4 sequences x 7 derived type names x 3 bases" if quick
        else "pairs and triples of sequences <=1 x 7 derived type names x 3 bases; pairs of sequences <=2 x 3 type names",
        h_len=2 if quick else 3,
        h2_ops=5 if quick else 6,
        audit_len=3 if quick else 4,
    )

    import time as _t
    phase = {}
    t_last = [_t.time()]

    def lap(name):
        now = _t.time()
        phase[name] = round(now - t_last[0], 2)
        t_last[0] = now

    # (a)
    tasks = []
    for ctx in dm.CONTEXTS:
        n_alpha = len(dm.symbols(ctx in dm.PARAM_CONTEXTS))
        for bi in range(len(BASES)):
            for fi in range(-1, n_alpha):
                tasks.append((ctx, bi, B["a_len"], fi))
    per_ctx = {}
    for t, res in zip(tasks, core.pmap(_work_a, tasks, chunksize=1)):
        T.merge("a", res)
        per_ctx[t[0]] = per_ctx.get(t[0], 0) + res[0]
    R.set("a_cases_per_context", per_ctx)
    for res in core.pmap(_work_a2, [("param", B["a_len"] - 2), ("param_abs", B["a_len"] - 2)], chunksize=1):
        T.merge("a", res)
    tasks = []
    for ctx in dm.CONTEXTS:
        n_alpha = len(dm.symbols(ctx in dm.PARAM_CONTEXTS)) + len(dm.ARR_TYPED)
        tasks += [(ctx, B["a_typed_bound_len"], fi) for fi in range(n_alpha)]
    for res in core.pmap(_work_a3, tasks, chunksize=1):
        T.merge("a", res)
    lap("a")

    # gcc audit
    tmp = tempfile.mkdtemp(prefix="c03_")
    try:
        audited, controls = _audit(R, B["audit_len"], tmp)
    finally:
        shutil.rmtree(tmp, ignore_errors=True)
    R.set("model_audit", {
        "gcc_audited_declarations": audited,
        "controls_refuted": controls,
        "what": "file-scope named declarators of family (a), plain and redundant parentheses, 4 bases: "
                "__builtin_types_compatible_p(__typeof__(&x), __typeof__(Bk *)) with Bk built one derivation per typedef",
    })
    lap("audit")
    if audited < (5000 if quick else 50000):
        R.fail("vacuous:audit", {"audited": audited}, "gcc audit covered too few declarations")

    # (b)
    nseq = len(dm.sequences(B["b_len"]))
    tasks = [(ctx, si, B["b_len"], i, 2) for ctx in B_CTX for si in range(len(B_SPECS)) for i in range(nseq)]
    n1 = len(dm.sequences(B["b_triple_len"]))
    tasks += [(ctx, 0, B["b_triple_len"], i, 3) for ctx in ("file", "member") for i in range(n1)]
    for res in core.pmap(_work_b, tasks, chunksize=max(1, len(tasks) // 128)):
        T.merge("b", res)

    lvl = 1 if quick else 2
    tasks = [(scope, si, ar, lvl, sh, 4) for scope in ("file", "block") for si in range(len(B_SPECS))
             for ar in (2, 3) for sh in range(4)]
    for res in core.pmap(_work_b_redef, tasks, chunksize=1):
        T.merge("b", res)
    lap("b")

    # (c)
    tasks = []
    c_lists = {}
    for sub in C_SUB:
        ms = c_multisets(sub, B["c_len"])
        c_lists[sub] = len(ms)
        tasks += [(sub, ch) for ch in core.chunked(ms, 40)]
    for res in core.pmap(_work_c, tasks, chunksize=1):
        T.merge("c", res)
    R.set("c_specifier_multisets", c_lists)

    lap("c")

    # (d)
    tasks = [("su", (k, B["d_members"])) for k in MEMBER_KINDS] + [("enum", B["d_enumerators"]), ("bitfields", None)]
    for res in core.pmap(_work_d, tasks, chunksize=1):
        T.merge("d", res)

    lap("d")

    # (e)
    tasks = []
    for nodes in range(1, B["e_nodes"] + 1):
        for shape in init_shapes(nodes):
            small = nodes <= (2 if quick else 3)
            ctxs = ("file", "block", "complit") if small else ("file",)
            for d0 in DESIGS:
                tasks.append((shape, d0, ctxs, small))
    for res in core.pmap(_work_e, tasks, chunksize=1):
        T.merge("e", res)

    lap("e")

    # (f)
    tasks = []
    for names in ((), ("a",), ("a", "b")):
        tasks.append((("fn", (None, False, names)), B["f_rest"], (0,)))
    for k in dm.FN_PROTO:
        tasks.append((Fn(k), B["f_rest"] + 1, tuple(range(len(BASES)))))
    for res in core.pmap(_work_f, tasks, chunksize=1):
        T.merge("f", res)

    lap("f")

    # (g)
    tasks = []
    for ctx in dm.CONTEXTS + ("funcdef",):
        tasks.append(("pure", ctx, B["g_len"]))
        tasks.append(("derived", ctx, B["g_len"] - 1))
        tasks.append(("mixed", ctx, B["g_len"] - 1))
    for ctx in B_CTX:
        tasks.append(("multi", ctx, B["g_multi_len"]))
        for sh in range(8):
            tasks.append(("derived-multi", ctx, (1 if quick else 2, sh, 8)))
            tasks.append(("derived-multi-qual", ctx, (1 if quick else 2, sh, 8)))
            if not quick:
                tasks.append(("derived-multi", ctx, (3, sh, 8)))
    for res in core.pmap(_work_g, tasks, chunksize=1):
        T.merge("g", res)

    lap("g")

    # (h)
    for res in core.pmap(_work_h, [(ctx, B["h_len"]) for ctx in H_CTX], chunksize=1):
        T.merge("h", res)
    shapes = h2_shapes(B["h2_ops"])
    tasks = [(pl, ch) for pl in H2_PLACES for ch in core.chunked(shapes, max(1, len(shapes) // 12))]
    for res in core.pmap(_work_h2, tasks, chunksize=1):
        T.merge("h", res)
    tmp = tempfile.mkdtemp(prefix="c03h_")
    try:
        h2_audited = _audit_h2(R, shapes, tmp)
    finally:
        shutil.rmtree(tmp, ignore_errors=True)
    n_td = sum(1 for o in shapes if h2_readings(o)[1] is not None)
    R.set("h2", {"shapes": len(shapes), "shapes_where_T_is_a_typedef_name": n_td,
                 "gcc_audited_parameter_declarations": h2_audited})
    if n_td < 50 or len(shapes) - n_td < 50:
        R.fail("vacuous:h2", {"shapes": len(shapes), "typedef_reading": n_td}, "too few shapes of one reading")
    lap("h")

    # ---- verdicts
    for sig in sorted(T.fails):
        cnt, ex = T.fails[sig]
        case, detail = ex[0]
        case = dict(case)
        case["occurrences_in_run"] = cnt
        R.fail(sig, case, detail)
        if sig in R.viol:
            R.viol[sig] = (R.viol[sig][0], R.viol[sig][1], cnt)
    R.set("failure_counts", {s: c for s, (c, _) in sorted(T.fails.items())})

    cases = sum(f["cases"] for f in T.fam.values())
    parsed = sum(f["parsed"] for f in T.fam.values())
    floors = dict(a=100000, b=5000, c=5000, d=20000, e=10000, f=3000, g=5000, h=2000)
    for fam, lo in floors.items():
        got = T.fam.get(fam, {}).get("cases", 0)
        if got < lo:
            R.fail(f"vacuous:{fam}", {"cases": got, "floor": lo}, "family explored too little")
    if len(T.exp) < cases // 4:
        R.fail("vacuous:expectations", {"distinct_expected": len(T.exp), "cases": cases},
               "too few distinct expected ASTs: the comparison may be dead")

    R.set("families", T.fam)
    R.set("states", sum(f["states"] for f in T.fam.values()))
    R.set("transitions", sum(f["transitions"] for f in T.fam.values()))
    R.set("traces_validated_against_impl", cases)
    R.set("evaluations", cases + audited)
    R.set("distinct_nontrivial", parsed)
    R.set("distinct_outcomes", len(T.exp))
    R.set("distinct_expected_asts", len(T.exp))
    R.set("unrenderable_skipped", sum(f["skipped"] for f in T.fam.values()))
    R.set("bounds", B)
    R.set("phase_wall_s", phase)
    R.assumptions += [
        "model terms are valid C types only (no function returning function/array, no array of functions or of incomplete arrays, "
        "no restrict pointer to function; [static]/[qual] only in the outermost array derivation of a parameter, [*] only in parameters)",
        "`* _Atomic (D)` has no C11 spelling (6.7.2.4p4) and is skipped (counted in unrenderable_skipped)",
        "qualifier order inside one quals list is compared exactly except where an atomic specifier is mixed with other qualifiers",
        "qualifiers written next to an _Atomic(derived type-name) specifier qualify the atomic pointer itself "
        "(`const _Atomic(int *) p` is `int * const _Atomic p`), qualifiers inside the type name stay on their level; "
        "the order inside one quals list is not compared there",
    ]
    return R.finish(
        [x for fam in sorted(T.fam) for x in
         core.pick_samples([f"({f}) {t}" for f, t in T.samples if f == fam], 2)],
        "every term of the declaration model inside the bounds, rendered with the C99 6.7.5 inside-out rule, "
        "parsed by the real parser; canon(FileAST) (whole translation unit, coordinates dropped) must equal the model's "
        "expected AST. states = distinct model terms (derivation sequences, declarator tuples, specifier multisets, "
        "member lists, initialiser trees), transitions = constructor applications that built them, traces = rendered "
        "translation units parsed and compared. non-trivial = the parser accepted the text, so the AST comparison "
        "really ran on a declaration AST",
    )


def replay(rep):
    c = rep["case"]
    out = core.parse_outcome(c["text"])
    print("input   :", c["text"])
    if "text2" in c:
        print("same as :", c["text2"])
    if out[0] != "ok":
        print("outcome :", out[:2])
        return 1
    if c.get("shared_node_check"):
        sh = _shared_node(out[1], c["text"])
        print("node identity:", sh or "no node is reachable twice")
        return 1 if sh else 0
    if "expected_alignas_in_order" in c:
        g = core.canon(out[1])
        have = dm.to_jsonable(tuple(_collect(_collect(g, "CompoundLiteral", []), "Alignas", [])))
        print("Alignas nodes expected in the compound literal:", c["expected_alignas_in_order"])
        print("Alignas nodes observed                        :", have)
        rest_ok = dm.to_jsonable(_strip_typename_align(g)) == c["expected"]
        print("rest of the AST as expected:", rest_ok)
        return 0 if (have == c["expected_alignas_in_order"] and rest_ok) else 1
    got = dm.to_jsonable(core.canon(out[1]))
    exp = c["expected"]
    if c.get("sort_quals"):
        got = dm.to_jsonable(_sort_quals(core.canon(out[1])))

    def tup(x):
        return tuple(tup(y) for y in x) if isinstance(x, list) else x

    if got == exp:
        print("AST equals the model's expectation")
        return 0
    d = core.first_diff(tup(exp), tup(got))
    print("first difference (expected != observed):", " / ".join(d))
    if "text2" in c:
        o2 = core.parse_outcome(c["text2"])
        if o2[0] == "ok":
            nf = _sort_quals if c.get("sort_quals") else (lambda x: x)
            same = nf(core.canon(o2[1])) == nf(core.canon(out[1]))
            print("differential: the two spellings give", "the same AST" if same else "different ASTs")
    return 1

"""The bounded program pool (DESIGN §4.9): the 'for all accepted programs' of
C07/C11/C14/C15/C17/C18.  Deterministic, de-duplicated, recomputed from the
working tree on every run.

  POOL-A   every token string the parser under test accepts, up to N tokens
           after each context prefix (TokEx by-product: the implementation's own
           language up to N)
  POOL-M   hand-written programs covering every node class (models/mini_pool.py)
  POOL-E/D/S  sentences of the expression / declaration / statement models
  POOL-K   the repository corpus (preprocessed), POOL-K1 its accepted 1-token edits
"""
from __future__ import annotations

from . import core, tokex, corpus
from models import vocab


def _acc_visitor(child, toks, text, out, viable, stats, fails, extra):
    if out[0] == "ok":
        extra.append(text)


def pool_a(tier):
    quick = tier == "quick"
    res = []
    sizes = {}
    plan = []
    for ctx in vocab.CONTEXTS:
        plan.append((ctx, vocab.SIGMA, 3 if quick else 4))
    for ctx in ("file", "func"):
        plan.append((ctx, vocab.SIGMA_R, 4 if quick else 6))
    for ctx, voc, N in plan:
        r = tokex.explore(vocab.CONTEXTS[ctx], voc, N, _acc_visitor)
        res.extend(r["extra"])
        sizes[f"A:{ctx}/{len(voc)}/N={N}"] = len(r["extra"])
    return res, sizes


def _edit_acc(task):
    toks, edits = task
    acc = []
    for kind, i, t in edits:
        if kind == "del":
            m = toks[:i] + toks[i + 1 :]
        elif kind == "dup":
            m = toks[: i + 1] + toks[i:]
        elif kind == "swap":
            m = toks[:i] + [toks[i + 1], toks[i]] + toks[i + 2 :]
        elif kind == "ins":
            m = toks[:i] + [t] + toks[i:]
        else:
            m = toks[:i] + [t] + toks[i + 1 :]
        text = " ".join(m) + " "
        if core.parse_outcome(text)[0] == "ok":
            acc.append(text)
    return acc


def pool_k1(tier):
    tasks = []
    for name, toks in corpus.small_corpus_tokens(60 if tier == "quick" else 130):
        ed = []
        for i in range(len(toks)):
            ed.append(("del", i, None))
            ed.append(("dup", i, None))
            if i + 1 < len(toks):
                ed.append(("swap", i, None))
            for t in vocab.SIGMA_R:
                ed.append(("ins", i, t))
                ed.append(("rep", i, t))
        for ch in core.chunked(ed, 300):
            tasks.append((toks, ch))
    out = []
    for acc in core.pmap(_edit_acc, tasks, chunksize=1):
        out.extend(acc)
    return out


def model_programs(tier):
    """Sentences of the reference models (when the model modules are present)."""
    out = []
    sizes = {}
    try:
        from models import mini_pool

        ps = list(mini_pool.PROGRAMS)
        out += [("M", p) for p in ps]
        sizes["M"] = len(ps)
    except Exception:
        pass
    try:
        from models import pool_adapters

        for tag, prog in pool_adapters.programs(tier):
            out.append((tag, prog))
            sizes[tag] = sizes.get(tag, 0) + 1
    except ImportError:
        pass
    return out, sizes


def build_pool(tier="quick", parts=("A", "M", "K", "K1"), model_tier=None):
    """[(origin, text)] of programs accepted by the parser under test."""
    pool = []
    sizes = {}
    if "A" in parts:
        a, sz = pool_a(tier)
        pool += [("A", t) for t in a]
        sizes.update(sz)
    if "M" in parts:
        # consumers whose cost per program is high (C11, C17, C18) keep the
        # quick-tier model sentences in the thorough tier and deepen elsewhere
        m, sz = model_programs(model_tier or tier)
        pool += m
        sizes.update(sz)
    if "M" in parts:
        # regression anchors: the example input of every recorded finding of
        # every property (repaired or open) stays in the pool explicitly
        # (only the accepted ones: consumers mutate pool programs on the
        # premise that the original is an accepted program)
        xs = [("X", e) for e in core.known_examples()
              if isinstance(e, str) and core.parse_outcome(e)[0] == "ok"]
        pool += xs
        sizes["X"] = len(xs)
    if "K" in parts:
        ks = [(f"K:{n}", t) for n, t in corpus.corpus(tier)]
        pool += ks
        sizes["K"] = len(ks)
    if "K1" in parts:
        k1 = pool_k1(tier)
        pool += [("K1", t) for t in k1]
        sizes["K1"] = len(k1)
    seen = set()
    out = []
    for o, t in pool:
        if t in seen:
            continue
        seen.add(t)
        out.append((o, t))
    # only accepted programs belong to the pool (model sentences that the
    # parser rejects are C01's business, not the pool's)
    build_pool.sizes = sizes
    return out

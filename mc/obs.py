"""Observations shared by the history explorer (C12) and the schedule explorer
(C13): what a parse / a generation "returned", in a canonical comparable form,
the set of node identities of an AST, and a short root-cause-stable signature
for the difference between an expected and an observed observation.
"""
from __future__ import annotations

from . import core


def parse_obs(parser, text, filename=""):
    """Run parser.parse and return (observation, ast-or-None).

    observation = ("ok", canon_coord(ast)) | ("exc", ExcTypeName, message)
    (every exception type is observed, not only ParseError: the property
    compares "the same AST or the same ParseError" with a fresh instance)."""
    try:
        ast = parser.parse(text, filename)
    except RecursionError:
        return ("exc", "RecursionError", ""), None
    except Exception as e:  # noqa
        return ("exc", type(e).__name__, str(e)), None
    return ("ok", core.canon_coord(ast)), ast


def visit_obs(gen, node):
    """Run gen.visit(node): ("text", str) | ("exc", ExcTypeName, message)."""
    try:
        return ("text", gen.visit(node))
    except RecursionError:
        return ("exc", "RecursionError", "")
    except Exception as e:  # noqa
        return ("exc", type(e).__name__, str(e))


def node_ids(root):
    """{id(node): ClassName} of every c_ast.Node reachable from root through
    __slots__ (never children()), lists and tuples."""
    from pycparser import c_ast

    out = {}
    stack = [root]
    while stack:
        x = stack.pop()
        if isinstance(x, c_ast.Node):
            if id(x) in out:
                continue
            out[id(x)] = x.__class__.__name__
            for s in x.__slots__:
                if s in ("coord", "__weakref__"):
                    continue
                v = getattr(x, s, None)
                if isinstance(v, (c_ast.Node, list, tuple)):
                    stack.append(v)
        elif isinstance(x, (list, tuple)):
            stack.extend(x)
    return out


def _is_cnode(t):
    return (
        isinstance(t, tuple)
        and len(t) == 3
        and isinstance(t[0], str)
        and t[0][:1].isupper()
        and isinstance(t[2], tuple)
        and (t[1] is None or (isinstance(t[1], tuple) and len(t[1]) == 3))
    )


def ast_diff(a, b, path=()):
    """(path of Class.field steps, kind) of the first difference between two
    canon_coord() values; kind in class / coord.file / coord.line /
    coord.column / coord.none / len / value."""
    if a == b:
        return None
    if _is_cnode(a) and _is_cnode(b):
        if a[0] != b[0]:
            return path, "class"
        if a[1] != b[1]:
            if a[1] is None or b[1] is None:
                return path + (a[0],), "coord.none"
            for k, nm in enumerate(("file", "line", "column")):
                if a[1][k] != b[1][k]:
                    return path + (a[0],), "coord." + nm
        for (sa, va), (sb, vb) in zip(a[2], b[2]):
            if va != vb:
                return ast_diff(va, vb, path + (f"{a[0]}.{sa}",))
        return path, "slots"
    if isinstance(a, tuple) and isinstance(b, tuple) and not _is_cnode(a) and not _is_cnode(b):
        if len(a) != len(b):
            return path, "len"
        for va, vb in zip(a, b):
            if va != vb:
                return ast_diff(va, vb, path)
    return path, "value"


def obs_sig(exp, got):
    """Signature of got != exp that is stable over manifestations of one
    root cause: which kind of outcome turned into which, and for two ASTs the
    kind of the first difference (file / line / column / shape)."""
    if exp == got:
        return "equal"
    if exp[0] != got[0]:
        e = exp[0] if exp[0] != "exc" else exp[1]
        g = got[0] if got[0] != "exc" else got[1]
        return f"{e}->{g}"
    if exp[0] == "exc":
        if exp[1] != got[1]:
            return f"{exp[1]}->{got[1]}"
        return f"{exp[1]}:message"
    if exp[0] == "ok":
        d = ast_diff(exp[1], got[1])
        if d is None:
            return "ast:?"
        path, kind = d
        if kind.startswith("coord."):
            return "ast:" + kind
        return "ast:shape"
    return exp[0] + ":differs"


def obs_detail(exp, got, limit=300):
    if exp[0] == "ok" and got[0] == "ok":
        d = ast_diff(exp[1], got[1])
        return f"first difference at {'/'.join(d[0][-4:])}: {d[1]}" if d else "equal"
    def short(o):
        if o[0] == "ok":
            return "FileAST"
        return repr(o)[:limit]
    return f"expected {short(exp)} got {short(got)}"


def digest(x) -> str:
    import hashlib

    return hashlib.sha1(repr(x).encode("utf-8", "backslashreplace")).hexdigest()[:16]


# ---------------------------------------------------------------------------
# instance alphabet: classes the instances under test can be made of
# ---------------------------------------------------------------------------
_CLASSES = {}


def generator_class(which):
    """Generator classes of the instance alphabet (made once per process, so
    that all instances of one kind really share a class)."""
    from pycparser import c_ast
    from pycparser.c_generator import CGenerator

    if not _CLASSES.get("gen"):
        class Deco(CGenerator):
            """overrides three visit_X methods with a recognisable decoration"""

            def visit_ID(self, n):
                return "<" + n.name + ">"

            def visit_Constant(self, n):
                return "#" + n.value

            def visit_BinaryOp(self, n):
                return "[" + super().visit_BinaryOp(n) + "]"

        class OwnVisit(CGenerator):
            """overrides visit() itself (and one visit_X)"""

            def visit(self, node):
                if isinstance(node, c_ast.Constant):
                    return "K" + node.value
                return super().visit(node)

            def visit_ID(self, n):
                return n.name.upper()

        class RPSub(CGenerator):
            def __init__(self):
                super().__init__(reduce_parentheses=True)

        class Reentrant(CGenerator):
            """renders every identifier, constant and binary operation with a
            brand-new CGenerator, constructed and used while this one is in the
            middle of its own visit (same thread, nested).  Instances being
            independent, its output is by construction that of a plain
            CGenerator - which is therefore its reference."""

            def _fresh(self):
                return CGenerator(reduce_parentheses=self.reduce_parentheses)

            def visit_ID(self, n):
                return self._fresh().visit(n)

            def visit_Constant(self, n):
                return self._fresh().visit(n)

            def visit_BinaryOp(self, n):
                return self._fresh().visit(n)

        _CLASSES["gen"] = {"": CGenerator, "deco": Deco, "ownvisit": OwnVisit, "rpsub": RPSub,
                           "reentrant": Reentrant}
    return _CLASSES["gen"][which]


def parser_class(which):
    from pycparser.c_parser import CParser

    if not _CLASSES.get("parse"):
        class Loud(CParser):
            """a user subclass overriding the error hook"""

            def _parse_error(self, msg, coord):
                super()._parse_error("LOUD " + msg, coord)

        _CLASSES["parse"] = {"": CParser, "loud": Loud}
    return _CLASSES["parse"][which]

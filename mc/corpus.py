"""The repository's own C corpus, preprocessed with the fake libc headers
(fixed, 0-deviation inputs).  Everything is recomputed from the working tree."""
from __future__ import annotations

import glob
import os
import subprocess

from . import core


def _cpp(path, extra=()):
    inc = os.path.join(core.REPO, "utils", "fake_libc_include")
    try:
        return subprocess.run(
            ["cpp", "-nostdinc", "-I", inc, "-I", os.path.dirname(path), *extra, path],
            capture_output=True, text=True, timeout=60,
        ).stdout
    except Exception:
        return None


def corpus(tier="quick"):
    """[(name, text)] of corpus programs that the parser under test accepts
    is *not* decided here: callers decide.  Returns preprocessed text."""
    out = []
    pats = ["tests/c_files/*.c", "examples/c_files/*.c"]
    for pat in pats:
        for p in sorted(glob.glob(os.path.join(core.REPO, pat))):
            name = os.path.relpath(p, core.REPO)
            if name.endswith("cppd_with_stdio_h.c"):
                with open(p) as f:
                    out.append((name, f.read()))
                continue
            t = _cpp(p)
            if t:
                out.append((name, t))
    if tier == "thorough":
        for p in sorted(glob.glob(os.path.join(core.REPO, "utils/benchmark/inputs/*.ppout"))):
            with open(p) as f:
                out.append((os.path.relpath(p, core.REPO), f.read()))
    return out


def strip_linemarkers(text):
    return "\n".join(l for l in text.split("\n") if not l.startswith("#") or l.startswith("#pragma"))


def lex_tokens(text):
    """Token spellings of a text using the lexer under test with permissive
    callbacks (used only to *produce* mutation inputs)."""
    from pycparser.c_lexer import CLexer

    lx = CLexer(lambda *a: None, lambda: None, lambda: None, lambda n: False)
    lx.input(text)
    toks = []
    while True:
        t = lx.token()
        if t is None:
            break
        if t.type == "PPPRAGMA":
            toks.append(["#pragma", None])
        elif t.type == "PPPRAGMASTR":
            if toks and toks[-1][1] is None and toks[-1][0] == "#pragma":
                toks[-1] = ["#pragma " + t.value + "\n", "P"]
        else:
            toks.append([t.value, "T"])
    res = []
    for v, k in toks:
        if k is None:
            res.append("#pragma\n")
        else:
            res.append(v)
    return res


def small_corpus_tokens(max_tokens):
    """[(name, [token spellings])] for corpus files (linemarkers stripped) that
    have at most max_tokens tokens."""
    out = []
    for name, text in corpus("quick"):
        toks = lex_tokens(strip_linemarkers(text))
        if 0 < len(toks) <= max_tokens:
            out.append((name, toks))
    return out

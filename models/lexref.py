r"""Reference lexer: a hand-written maximal-munch scanner following C99 6.4.

Written from the text of the standard (identifier 6.4.2, pp-number 6.4.8
classified by 6.4.4.1 / 6.4.4.2, character constants 6.4.4.4, string literals
6.4.5, universal character names 6.4.3, punctuators 6.4.6 by longest match) as
explicit functions, one per grammar symbol.  It shares no code and no regular
expression with pycparser.

Documented pycparser extensions that are part of the reference:
  * binary integer constants 0b... / 0B...;
  * the C11 prefixes u8 / u / U on character constants and string literals;
  * '$' as an identifier character.

The scanner is THREE-VALUED.  Every item it returns carries a verdict:

  ACCEPT(type)  the text is a well-formed token; the lexer must return exactly
                this token (pycparser's token type name, spelling unchanged)
                and no error.
  REJECT(why)   the text is malformed in one of the ways the property lists and
                must be reported through the error callback:
                  bad-octal          0[0-7]*[89] that cannot start a float
                  empty-char         ''
                  unterminated-char  ' ... end of line
                  lone-quote         " ... end of line (unterminated string)
                  bad-escape         a terminated literal containing a backslash
                                     followed by a character outside BOTH C99's
                                     escapes and pycparser's documented lenient
                                     set
                  comment            /* or //
                  illegal-char       a character that starts no C token
                                     (backslash outside a literal, @, `)
                `core` is the (start, end) of the minimal malformed piece: no
                token may start at core[0].
  DONTCARE(why) the lenient zone; checks never alarm here:
                  lenient-escape     escape letters beyond C99's that pycparser
                                     documents for Windows paths (a-z A-Z and
                                     . - ~ ^ _ ! = & ; ,), decimal escapes
                                     (\8, \9, digit runs C would split), \x
                                     without hex digits, malformed \u / \U
                  pp-number          a preprocessing number that is no valid
                                     constant (1e, 1lul, 0x, 1.2.3, 0x1e+1, 08e)
                                     - C rejects it, pycparser may split it
                                     into well-formed tokens
                  char-count         > 4 c-chars, or a prefixed multi-character
                                     constant (implementation-defined in C)
                  ucn-range          a UCN violating 6.4.3p2
                  hash / non-ascii   '#' lines (the layout model's subject) and
                                     characters outside the basic set
"""
from __future__ import annotations

from models.vocab import KEYWORDS, PUNCT, PUNCT_TYPE

ACCEPT = "accept"
REJECT = "reject"
DONTCARE = "dontcare"

DIGIT = "0123456789"
NONZERO_DIGIT = "123456789"
OCTAL_DIGIT = "01234567"
HEX_DIGIT = "0123456789abcdefABCDEF"
BIN_DIGIT = "01"
# 6.4.2.1 identifier-nondigit, plus '$' (documented extension)
NONDIGIT = "abcdefghijklmnopqrstuvwxyzABCDEFGHIJKLMNOPQRSTUVWXYZ_$"
IDCHAR = NONDIGIT + DIGIT
BLANK = " \t\n"

KEYWORD_TYPE = {k: k.upper() for k in KEYWORDS}

# punctuators grouped by first character, longest first (6.4p4 longest match)
_PUNCT_BY_FIRST = {}
for _p in PUNCT:
    _PUNCT_BY_FIRST.setdefault(_p[0], []).append(_p)
for _l in _PUNCT_BY_FIRST.values():
    _l.sort(key=len, reverse=True)

CHAR_TYPE = {"": "CHAR_CONST", "L": "WCHAR_CONST", "u8": "U8CHAR_CONST",
             "u": "U16CHAR_CONST", "U": "U32CHAR_CONST"}
STRING_TYPE = {"": "STRING_LITERAL", "L": "WSTRING_LITERAL",
               "u8": "U8STRING_LITERAL", "u": "U16STRING_LITERAL",
               "U": "U32STRING_LITERAL"}
INT_TYPES = ("INT_CONST_DEC", "INT_CONST_OCT", "INT_CONST_HEX", "INT_CONST_BIN")
FLOAT_TYPES = ("FLOAT_CONST", "HEX_FLOAT_CONST")
LITERAL_TYPES = set(INT_TYPES) | set(FLOAT_TYPES) | {"INT_CONST_CHAR"} | set(
    CHAR_TYPE.values()) | set(STRING_TYPE.values())

# escapes: C99 6.4.4.4 simple-escape-sequence
SIMPLE_ESCAPE = "'\"?\\abfnrtv"
# pycparser's documented lenient escape characters (comment in c_lexer.py:
# "a-zA-Z and '.-~^_!=&;,' are allowed as escape chars to support #line
# directives with Windows paths"); letters are added below
LENIENT_PUNCT = ".-~^_!=&;,"

# statistics for the evidence (measured, per process)
STATS = {"chars": 0, "items": 0, "scans": 0}


class Item:
    __slots__ = ("verdict", "type", "value", "start", "end", "why", "core")

    def __init__(self, verdict, type_, value, start, end, why=None, core=None):
        self.verdict = verdict
        self.type = type_
        self.value = value
        self.start = start
        self.end = end
        self.why = why
        self.core = core

    def __repr__(self):
        if self.verdict == ACCEPT:
            return f"<{self.type} {self.value!r}@{self.start}>"
        return f"<{self.verdict}:{self.why} {self.value!r}@{self.start}>"

    def key(self):
        return (self.verdict, self.type, self.value, self.start, self.why)


# ---------------------------------------------------------------------------
# 6.4.4.1 integer constants
# ---------------------------------------------------------------------------
def digit_run(s, i, digits):
    """End of the maximal run of characters of `digits` starting at i.
    (Greedy is exact for *-sequence symbols here: in every production the
    symbol following a digit-sequence cannot start with a digit of the same
    class, except hex 'e'/'f' which are handled by whole-string matching.)"""
    n = len(s)
    while i < n and s[i] in digits:
        i += 1
    return i


def unsigned_suffix(s, i):
    return {i + 1} if i < len(s) and s[i] in "uU" else set()


def long_suffix(s, i):
    return {i + 1} if i < len(s) and s[i] in "lL" else set()


def long_long_suffix(s, i):
    return {i + 2} if s[i:i + 2] in ("ll", "LL") else set()


def integer_suffix(s, i):
    """Set of positions where an integer-suffix starting at i may end.
         unsigned-suffix long-suffix(opt) | unsigned-suffix long-long-suffix
         long-suffix unsigned-suffix(opt) | long-long-suffix unsigned-suffix(opt)
    """
    out = set()
    for j in unsigned_suffix(s, i):
        out.add(j)
        out |= long_suffix(s, j)
        out |= long_long_suffix(s, j)
    for j in long_suffix(s, i):
        out.add(j)
        out |= unsigned_suffix(s, j)
    for j in long_long_suffix(s, i):
        out.add(j)
        out |= unsigned_suffix(s, j)
    return out


def _suffix_opt_to_end(s, i):
    return i == len(s) or len(s) in integer_suffix(s, i)


def integer_constant(s):
    """pycparser token type if the whole of s is an integer constant, else
    None.  decimal | octal | hexadecimal (6.4.4.1) | binary (extension)."""
    if not s:
        return None
    if s[0] in NONZERO_DIGIT:  # decimal-constant
        j = digit_run(s, 1, DIGIT)
        return "INT_CONST_DEC" if _suffix_opt_to_end(s, j) else None
    if s[0] != "0":
        return None
    if s[1:2] in ("x", "X"):  # hexadecimal-constant
        j = digit_run(s, 2, HEX_DIGIT)
        if j == 2:
            return None
        return "INT_CONST_HEX" if _suffix_opt_to_end(s, j) else None
    if s[1:2] in ("b", "B"):  # binary constant (documented extension)
        j = digit_run(s, 2, BIN_DIGIT)
        if j == 2:
            return None
        return "INT_CONST_BIN" if _suffix_opt_to_end(s, j) else None
    j = digit_run(s, 1, OCTAL_DIGIT)  # octal-constant: 0 octal-digit*
    return "INT_CONST_OCT" if _suffix_opt_to_end(s, j) else None


def integer_type_words(s):
    """C type implied by the suffix of a valid integer constant spelling."""
    body_end = len(s)
    while body_end > 0 and s[body_end - 1] in "uUlL":
        body_end -= 1
    suf = s[body_end:].lower()
    return ("unsigned " if "u" in suf else "") + "long " * suf.count("l") + "int"


# ---------------------------------------------------------------------------
# 6.4.4.2 floating constants
# ---------------------------------------------------------------------------
def sign_opt(s, i):
    return i + 1 if i < len(s) and s[i] in "+-" else i


def exponent_part(s, i, letters):
    """[eE] sign(opt) digit-sequence   (letters = 'eE' or 'pP'); end or None."""
    if i < len(s) and s[i] in letters:
        j = sign_opt(s, i + 1)
        k = digit_run(s, j, DIGIT)
        if k > j:
            return k
    return None


def floating_suffix_opt(s, i):
    return i + 1 if i < len(s) and s[i] in "flFL" else i


def fractional_constant(s, i, digits):
    """digit-sequence(opt) . digit-sequence | digit-sequence .  ; end or None."""
    j = digit_run(s, i, digits)
    if j < len(s) and s[j] == ".":
        k = digit_run(s, j + 1, digits)
        if k > j + 1 or j > i:
            return k
    return None


def decimal_floating_constant(s):
    f = fractional_constant(s, 0, DIGIT)
    if f is not None:
        e = exponent_part(s, f, "eE")
        j = f if e is None else e
        return floating_suffix_opt(s, j) == len(s)
    j = digit_run(s, 0, DIGIT)
    if j == 0:
        return False
    e = exponent_part(s, j, "eE")
    if e is None:
        return False
    return floating_suffix_opt(s, e) == len(s)


def hexadecimal_floating_constant(s):
    if s[:2] not in ("0x", "0X"):
        return False
    f = fractional_constant(s, 2, HEX_DIGIT)
    if f is None:
        f = digit_run(s, 2, HEX_DIGIT)
        if f == 2:
            return False
    e = exponent_part(s, f, "pP")  # binary-exponent-part is mandatory
    if e is None:
        return False
    return floating_suffix_opt(s, e) == len(s)


def floating_constant(s):
    if hexadecimal_floating_constant(s):
        return "HEX_FLOAT_CONST"
    if decimal_floating_constant(s):
        return "FLOAT_CONST"
    return None


def floating_type_words(s):
    """C type implied by the suffix of a valid floating constant spelling (a
    valid one ends in an exponent/fraction digit, '.', or its suffix)."""
    if s[-1] in "fF":
        return "float"
    if s[-1] in "lL":
        return "long double"
    return "double"


# ---------------------------------------------------------------------------
# 6.4.8 preprocessing numbers
# ---------------------------------------------------------------------------
def pp_number_end(s, i):
    """s[i] is a digit, or '.' followed by a digit."""
    n = len(s)
    j = i + 2 if s[i] == "." else i + 1
    while j < n:
        c = s[j]
        if c in "eEpP" and j + 1 < n and s[j + 1] in "+-":
            j += 2
        elif c in IDCHAR or c == ".":
            j += 1
        else:
            break
    return j


def classify_pp_number(p, start):
    t = integer_constant(p)
    if t is None:
        t = floating_constant(p)
    if t is not None:
        return Item(ACCEPT, t, p, start, start + len(p))
    # bad octal digit: leading digit run 0[0-7]*[89]... that cannot be the
    # integer part of a floating constant
    d = digit_run(p, 0, DIGIT)
    if p[0] == "0" and d > 1:
        o = digit_run(p, 1, OCTAL_DIGIT)
        if o < d and p[d:d + 1] not in (".", "e", "E"):
            return Item(REJECT, None, p, start, start + len(p), "bad-octal",
                        (start, start + o + 1))
    return Item(DONTCARE, None, p, start, start + len(p), "pp-number")


# ---------------------------------------------------------------------------
# 6.4.4.4 / 6.4.5 / 6.4.3 escapes, character constants, string literals
# ---------------------------------------------------------------------------
E_C99, E_UCN, E_LENIENT, E_BAD, E_EOL, E_RANGE = "c99", "ucn", "lenient", "bad", "eol", "range"


def _ucn_ok(hexdigits):
    """6.4.3p2: not below 00A0 other than 0024 $, 0040 @, 0060 `; not
    D800..DFFF."""
    v = int(hexdigits, 16)
    if v < 0xA0 and v not in (0x24, 0x40, 0x60):
        return False
    if 0xD800 <= v <= 0xDFFF:
        return False
    return True


def escape_sequence(s, j, in_char):
    """s[j] == backslash.  -> (end, class)."""
    n = len(s)
    k = j + 1
    if k >= n or s[k] == "\n":
        return k, E_EOL
    c = s[k]
    if c in SIMPLE_ESCAPE:
        return k + 1, E_C99
    if c in DIGIT:
        r = digit_run(s, k, DIGIT)
        o = digit_run(s, k, OCTAL_DIGIT)
        if c in OCTAL_DIGIT:
            if o == r and r - k <= 3:
                return r, E_C99  # octal-escape-sequence, 1..3 digits
            if not in_char:
                # in a string C reads <= 3 octal digits and ordinary
                # characters after them: valid whatever the split
                return min(o, k + 3), E_C99
        # \8, \9, or a digit run that C splits differently from pycparser's
        # documented "decimal escape": the number of c-chars is disputed
        return r, E_LENIENT
    if c == "x":
        h = digit_run(s, k + 1, HEX_DIGIT)
        if h > k + 1:
            return h, E_C99  # hexadecimal-escape-sequence (all hex digits)
        return k + 1, E_LENIENT
    if c in "uU":
        need = 4 if c == "u" else 8
        h = s[k + 1:k + 1 + need]
        if len(h) == need and all(x in HEX_DIGIT for x in h):
            return k + 1 + need, (E_UCN if _ucn_ok(h) else E_RANGE)
        return k + 1, E_LENIENT
    if c.isascii() and (c.isalpha() or c in LENIENT_PUNCT):
        return k + 1, E_LENIENT
    if not c.isascii():
        return k + 1, E_LENIENT
    return k + 1, E_BAD


def quoted(s, start, q, prefix):
    """s[q] is the opening quote of a literal whose prefix starts at `start`."""
    quote = s[q]
    in_char = quote == "'"
    n = len(s)
    j = q + 1
    nchars = 0
    seen = set()
    closed = False
    while True:
        if j >= n or s[j] == "\n":
            break
        c = s[j]
        if c == quote:
            closed = True
            j += 1
            break
        if c == "\\":
            j, cls = escape_sequence(s, j, in_char)
            if cls == E_EOL:
                break
            seen.add(cls)
            nchars += 1
        else:
            if not c.isascii():
                seen.add("nonascii")
            j += 1
            nchars += 1
    text = s[start:j]
    if not closed:
        return Item(REJECT, None, text, start, j,
                    "unterminated-char" if in_char else "lone-quote", (q, q + 1))
    if E_BAD in seen:
        return Item(REJECT, None, text, start, j, "bad-escape", (q, j))
    if in_char and nchars == 0:
        return Item(REJECT, None, text, start, j, "empty-char", (q, j))
    if E_LENIENT in seen:
        return Item(DONTCARE, None, text, start, j, "lenient-escape")
    if E_RANGE in seen:
        return Item(DONTCARE, None, text, start, j, "ucn-range")
    why = "ucn" if E_UCN in seen else None
    if not in_char:
        return Item(ACCEPT, STRING_TYPE[prefix], text, start, j, why)
    if nchars == 1:
        return Item(ACCEPT, CHAR_TYPE[prefix], text, start, j, why)
    if nchars <= 4 and prefix == "":
        return Item(ACCEPT, "INT_CONST_CHAR", text, start, j, why)
    return Item(DONTCARE, None, text, start, j, "char-count")


def literal_prefix(s, i):
    """Encoding prefix (u8 | u | U | L) directly followed by a quote at i."""
    for p in ("u8", "u", "U", "L"):
        if s.startswith(p, i) and s[i + len(p):i + len(p) + 1] in ("'", '"') \
                and i + len(p) < len(s):
            return p
    return None


# ---------------------------------------------------------------------------
# the scanner
# ---------------------------------------------------------------------------
def scan(s, is_type=None):
    """Maximal-munch scan of s into a list of Items (blanks skipped)."""
    items = []
    n = len(s)
    i = 0
    STATS["scans"] += 1
    STATS["chars"] += n
    while i < n:
        c = s[i]
        if c in BLANK:
            i += 1
            continue
        if c in NONDIGIT:
            p = literal_prefix(s, i)
            if p is not None:
                it = quoted(s, i, i + len(p), p)
            else:
                j = digit_run(s, i + 1, IDCHAR)
                w = s[i:j]
                t = KEYWORD_TYPE.get(w)
                if t is None:
                    t = "TYPEID" if (is_type is not None and is_type(w)) else "ID"
                it = Item(ACCEPT, t, w, i, j)
        elif c in DIGIT or (c == "." and i + 1 < n and s[i + 1] in DIGIT):
            j = pp_number_end(s, i)
            it = classify_pp_number(s[i:j], i)
        elif c == "'" or c == '"':
            it = quoted(s, i, i, "")
        elif c == "/" and s[i + 1:i + 2] in ("*", "/"):
            it = Item(REJECT, None, s[i:i + 2], i, i + 2, "comment", (i, i + 2))
        elif c in _PUNCT_BY_FIRST:
            for p in _PUNCT_BY_FIRST[c]:
                if s.startswith(p, i):
                    break
            it = Item(ACCEPT, PUNCT_TYPE[p], p, i, i + len(p))
        elif c == "#":
            j = s.find("\n", i)
            j = n if j < 0 else j
            it = Item(DONTCARE, None, s[i:j], i, j, "hash")
        elif not c.isascii():
            it = Item(DONTCARE, None, c, i, i + 1, "non-ascii")
        else:
            it = Item(REJECT, None, c, i, i + 1, "illegal-char", (i, i + 1))
        items.append(it)
        i = it.end
    STATS["items"] += len(items)
    return items


# DONT-CARE verdicts that are lenient *literal* forms (a token may come back)
LENIENT_LITERAL_WHYS = ("lenient-escape", "char-count", "ucn-range")


def literal_family(spelling):
    """Token kinds a quoted spelling may have, from its prefix and quote."""
    p = literal_prefix(spelling, 0) or ""
    q = spelling[len(p):len(p) + 1]
    if q == '"':
        return (STRING_TYPE[p],)
    if q == "'":
        return (CHAR_TYPE[p], "INT_CONST_CHAR") if p == "" else (CHAR_TYPE[p],)
    return ()


_CLASSIFY_CACHE = {}


def classify(spelling):
    """Verdict for `spelling` taken as ONE token: (ACCEPT, type, why) |
    (REJECT, None, why) | (DONTCARE, None, why) | (REJECT, None, 'not-one-token')."""
    r = _CLASSIFY_CACHE.get(spelling)
    if r is None:
        saved = dict(STATS)  # cache-dependent work must not show in the counters
        its = scan(spelling)
        STATS.update(saved)
        if len(its) == 1 and its[0].start == 0 and its[0].end == len(spelling):
            r = (its[0].verdict, its[0].type, its[0].why)
        else:
            r = (REJECT, None, "not-one-token")
        if len(_CLASSIFY_CACHE) < 200000:
            _CLASSIFY_CACHE[spelling] = r
    return r


def token_type(spelling, is_type=None):
    """Type of a spelling that must be one well-formed token."""
    v, t, why = classify(spelling)
    if v != ACCEPT:
        raise ValueError(f"not a well-formed token: {spelling!r} ({v}:{why})")
    if t == "ID" and is_type is not None and is_type(spelling):
        return "TYPEID"
    return t


def splits_same(spellings, is_type=None):
    """True iff the concatenation of the given well-formed tokens re-lexes into
    exactly those tokens (C's longest-match rule allows the adjacency)."""
    its = scan("".join(spellings), is_type)
    if len(its) != len(spellings):
        return False
    for it, sp in zip(its, spellings):
        if it.verdict != ACCEPT or it.value != sp:
            return False
    return True


# ---------------------------------------------------------------------------
# the three-valued comparison with an implementation run
# ---------------------------------------------------------------------------
def _kind(it):
    if it is None:
        return "end"
    return it.type if it.verdict == ACCEPT else it.why


def judge(text, toks, errs, is_type=None, items=None):
    """Compare one run of the real lexer with the reference.

    toks: [(type, value, offset)] in order; errs: [offset] of error reports.
    Returns a list of (signature, detail); empty = fine.

      * up to the first non-ACCEPT item the token list must be exactly the
        reference's and no error may be reported there;
      * if that item is REJECT: >= 1 error report inside the item and no token
        starting at the malformed core;
      * every token returned anywhere must have a spelling the reference
        accepts for exactly that type, or be one of the documented lenient
        literal forms (lenient / decimal escapes, > 4 c-chars, prefixed
        multi-character constant) with the kind its prefix and quote imply;
        a pp-number that is no constant must never come back as one token.
    """
    out = []
    if items is None:
        items = scan(text, is_type)
    k = 0
    while k < len(items) and items[k].verdict == ACCEPT:
        k += 1
    first = items[k] if k < len(items) else None
    limit = first.start if first is not None else len(text) + 1
    head = [t for t in toks if t[2] < limit]
    for idx in range(max(len(head), k)):
        it = items[idx] if idx < k else None
        tk = head[idx] if idx < len(head) else None
        if it is not None and tk is not None and tk == (it.type, it.value, it.start):
            continue
        if tk is None:
            clause = "missing"
        elif it is None:
            clause = "extra-token"
        elif tk[2] != it.start:
            clause = "position"
        elif tk[1] != it.value:
            clause = "split" if len(tk[1]) < len(it.value) else "overlong"
        else:
            clause = "type"
        out.append((f"{_kind(it) if it is not None else _kind(first)}:{clause}",
                    f"reference {it!r} lexer {tk!r}"))
        break
    for e in errs:
        if e < limit:
            inside = None
            for it in items[:k]:
                if it.start <= e < it.end:
                    inside = it
            out.append((f"{_kind(inside) if inside else 'blank'}:spurious-error",
                        f"error reported at offset {e} inside well-formed text"))
            break
    if first is not None and first.verdict == REJECT:
        if not any(first.start <= e < max(first.end, first.start + 1) for e in errs):
            out.append((f"{first.why}:not-reported",
                        f"{first.value!r} at {first.start}: no error report inside it"))
        for t in toks:
            if t[2] == first.core[0]:
                out.append((f"{first.why}:tokenised",
                            f"{first.value!r}: token {t!r} starts at the malformed text"))
                break
    for t in toks:
        if t[0] in ("PPHASH", "PPPRAGMA", "PPPRAGMASTR"):
            continue
        v, ty, why = classify(t[1])
        if v == DONTCARE:
            # Only the documented lenient LITERAL forms may come back as a
            # token, and only with the kind their prefix and quote imply.  A
            # pp-number that is no constant (1ulu, 1e, 0x1e+1) may be split or
            # reported, but never returned as one token.
            if why in ("hash", "non-ascii"):
                continue
            if why in LENIENT_LITERAL_WHYS and t[0] in literal_family(t[1]):
                continue
            out.append((f"{t[0]}:unsound-spelling",
                        f"lexer returned {t!r}; the reference accepts this spelling for no token "
                        f"kind ({why})"))
            break
        want = t[0] if t[0] != "TYPEID" else "ID"
        if v != ACCEPT or ty != want:
            out.append((f"{t[0]}:unsound-spelling",
                        f"lexer returned {t!r}; reference says {v}:{ty or why}"))
            break
    return out

"""C17 - the AST (minus coordinates) depends only on the token sequence.

Every pool program x (all-newline, all-tab, every single-gap deviation to each
of {newline, tab, 3 blanks, linemarker, #line}; pairs of gaps in the thorough
tier for short programs) and every expression-model tree x every single
redundant parenthesis pair: canon AST and generated text must equal the
single-space layout's.
"""
from __future__ import annotations

import itertools

from mc import core, progpool, corpus, layout

PID = "C17"
SEPS = ["\n", "\t", "   ", "\n\t "]
FILENAME = "main.c"


def _directives():
    return [
        ("linemarker", layout.line_directive(7, "g.c", flags=(1, 3), keyword=False)),
        ("line", layout.line_directive(9, None, keyword=True)),
        ("line-file", layout.line_directive(11, "h.h", keyword=True)),
        ("line-zero", layout.line_directive(0, "z.h", keyword=True)),
        ("linemarker-escaped-name", layout.line_directive(13, 'e\\"s c.h', flags=(2,), keyword=False)),
    ]


def _observe(text):
    o = core.parse_outcome(text, FILENAME)
    if o[0] != "ok":
        return ("rejected", str(o[1:])[:120]), None
    c = core.canon(o[1])
    try:
        g = core.generate(o[1])
    except RecursionError:
        g = None
    except Exception as e:  # noqa
        g = "gen-exc:" + core.exc_site(e)
    return c, g


def variants(toks, pairs):
    n = len(toks)
    base = [" "] * (n - 1)
    yield ("all-newline", ["\n"] * (n - 1), None)
    yield ("all-tab", ["\t"] * (n - 1), None)
    yield ("lead-trail", ["\n "] + base + [" \n\n"], None)
    for g in range(n - 1):
        for s in SEPS:
            seps = list(base)
            seps[g] = s
            yield (f"gap{g}:{s!r}", seps, None)
    for g in range(n + 1):
        for name, d in _directives():
            yield (f"dir{g}:{name}", base, {g: [d]})
            # the same directive when every token sits alone on its line (the
            # forms without a file name: what follows them on the next line matters)
            if name == "line" or n <= 12:
                yield (f"dirnl{g}:{name}", ["\n"] * (n - 1), {g: [d]})
    # the same directive before EVERY token, one token per line: all tokens then
    # share one (file, line, column) - anything keyed by a token's position collides
    for name, d in _directives():
        yield (f"dirall:{name}", ["\n"] * (n - 1), {g: [d] for g in range(n)})
    # blanks inside a #pragma line: between '#' and the word, and between the
    # word and the text (PPPRAGMA and PPPRAGMASTR are two tokens); trailing
    # blanks belong to the text and stay
    for i, t in enumerate(toks):
        if "#" in t and layout.is_pragma_token(t):
            d = layout.parse_pragma_token(t)
            if d.str is None:
                continue
            body = t.rstrip("\n")
            text = body[body.index("pragma") + 6:].lstrip(" \t")
            for hg, tg in (("", "  "), ("", "\t"), ("", " \t "), (" ", " "), ("\t ", "\t\t"), ("", "   \t")):
                alt = list(toks)
                alt[i] = "#" + hg + "pragma" + tg + text + "\n"
                yield (f"pragma-blanks{i}:{len(hg)}{len(tg)}", base, None, alt)
    if pairs:
        for g1, g2 in itertools.combinations(range(n - 1), 2):
            for s1, s2 in (("\n", "\n"), ("\n", "\t"), ("\t", "\n")):
                seps = list(base)
                seps[g1] = s1
                seps[g2] = s2
                yield (f"gaps{g1},{g2}", seps, None)
        for g1, g2 in itertools.combinations(range(n + 1), 2):
            ds = _directives()
            yield (f"dirs{g1},{g2}", base, {g1: [ds[0][1]], g2: [ds[2][1]]})


def _work(task):
    items, pair_max = task
    n = 0
    fails = []
    distinct = 0
    for origin, toks in items:
        if len(toks) < 1:
            continue
        base_lay = layout.lay_out(toks, [" "] * (len(toks) - 1), None, filename=FILENAME)
        b = _observe(base_lay.text)
        if b[0][0] == "rejected":
            # the single-space layout is one layout among others: if another
            # layout of the same tokens is accepted, that one is the accepted
            # program and the single-space layout its rejected re-layout
            for name, seps, dirs, *alt in variants(toks, False):
                if alt or dirs:
                    continue
                lay = layout.lay_out(toks, seps, None, filename=FILENAME)
                v = _observe(lay.text)
                n += 1
                if v[0][0] != "rejected":
                    b, base_lay = v, lay
                    break
            else:
                continue
        distinct += 1
        for name, seps, dirs, *alt in variants(toks, len(toks) <= pair_max):
            lay = layout.lay_out(alt[0] if alt else toks, seps, dirs, filename=FILENAME)
            v = _observe(lay.text)
            n += 1
            kind = name.split(":")[-1] if ":" in name else name
            kind = "".join(ch for ch in kind if not ch.isdigit())
            if v[0] != b[0]:
                if v[0][0] == "rejected":
                    sig = "layout:rejected:" + kind + ":" + (core.reject_sig(lay.text, FILENAME) or "?")
                    det = v[0][1]
                else:
                    sig = "layout:astdiff:" + kind + ":" + core.diff_sig(b[0], v[0])
                    det = core.first_diff(b[0], v[0])
                fails.append((sig, {"text": lay.text, "base": base_lay.text}, det))
            elif v[1] != b[1]:
                fails.append(("layout:gendiff:" + kind, {"text": lay.text, "base": base_lay.text}, "generated text differs"))
    return n, fails, distinct


PAREN_CONTEXTS = [
    ("void f(void){ ", " ; }"),
    ("void f(void){ L : ", " ; }"),
    ("void f(void){ switch ( x ) { case 1 : ", " ; } }"),
    ("void f(void){ switch ( x ) { default : ", " ; } }"),
    ("void f(void){ if ( c ) ", " ; else ; }"),
    ("void f(void){ if ( c ) ; else ", " ; }"),
    ("void f(void){ while ( c ) ", " ; }"),
    ("void f(void){ do ", " ; while ( c ) ; }"),
    ("int f(void){ return ", " ; }"),
    ("void f(void){ for ( ", " ; ; ) ; }"),
    ("void f(void){ if ( c ) L : ", " ; }"),
]


def _paren_work(task):
    from models import expr_model as em

    trees, nctx = task
    n = 0
    fails = []
    for t in trees:
        for ci, (pre, post) in enumerate(PAREN_CONTEXTS[:nctx]):
            base = "typedef int T ; " + pre + em.render(t) + post
            b = _observe(base)
            if b[0][0] == "rejected":
                continue  # rejected expressions are C01/C02's business
            for path in em.positions(t):
                sub = em.get_at(t, path)
                if sub[0] == "comma":
                    continue  # a parenthesised comma operand is visible by design
                vt = "typedef int T ; " + pre + em.render(em.wrap_at(t, path)) + post
                v = _observe(vt)
                n += 1
                if v[0] != b[0]:
                    if v[0][0] == "rejected":
                        sig = "parens:rejected:" + em.class_term(sub)
                        det = v[0][1]
                    else:
                        sig = "parens:" + core.diff_sig(b[0], v[0])
                        det = core.first_diff(b[0], v[0])
                    fails.append((sig, {"text": vt, "base": base}, det))
                elif v[1] != b[1]:
                    fails.append(("parens:gendiff", {"text": vt, "base": base}, ""))
    return n, fails


def run(tier):
    R = core.Run(PID, tier, "exploration")
    quick = tier == "quick"
    pool = progpool.build_pool(tier, parts=("A", "M", "K1"), model_tier="quick")
    items = []
    for origin, text in pool:
        toks = corpus.lex_tokens(text)
        if 0 < len(toks) <= (28 if quick else 80):
            items.append((origin, toks))
    for name, toks in corpus.small_corpus_tokens(130 if quick else 900):
        items.append((f"K:{name}", toks))
    # token sequences given as such (the pool's texts are split with the lexer
    # under test, which cannot show a lexer that rewrites the text first):
    # tokens that contain raw tabs, form feeds are not used (not white space here)
    items.append(("T:tabs-string", ["char", "*", "s", "=", '"a\tb\t"', ";", "int", "z", "=", 'sizeof', "(", 'L"\t"', ")", ";"]))
    items.append(("T:tabs-char", ["char", "c", "=", "'\t'", ";", "int", "z", "=", "L'\t'", ";"]))
    items.append(("T:tabs-pragma", ["int", "x", ";", "#pragma x\ty\t\n", "int", "z", ";", "#pragma \t\n"]))
    items.append(("T:blanks", ["char", "*", "s", "=", '"a  b   "', '" "', ";", "#pragma  p   q  \n", "int", "z", ";"]))
    # de-duplicate by token sequence, smallest first
    seen = set()
    uniq = []
    for o, t in sorted(items, key=lambda x: (len(x[1]), x[1])):
        k = tuple(t)
        if k not in seen:
            seen.add(k)
            uniq.append((o, t))
    pair_max = 0 if quick else 10
    n = distinct = 0
    for cnt, fl, d in core.pmap(_work, [(ch, pair_max) for ch in core.chunked(uniq, 20)], chunksize=1):
        n += cnt
        distinct += d
        R.fail_many(fl)
    # redundant parentheses on expression-model trees
    pn = 0
    try:
        from models import expr_model as em

        trees = list(em.trees(2)) if quick else list(em.trees(2)) + list(em.trees(3, ops=em.OPS_REP, min_ops=3))
        small = list(em.trees(1)) + list(em.trees(2, ops=em.OPS_REP, min_ops=2))
        ptasks = [(ch, 1) for ch in core.chunked(trees, 300)] + [(ch, len(PAREN_CONTEXTS)) for ch in core.chunked(small, 60)]
        for cnt, fl in core.pmap(_paren_work, ptasks, chunksize=1):
            pn += cnt
            R.fail_many(fl)
        R.set("paren_trees", len(trees))
    except (ImportError, AttributeError):
        R.notes.append("expression model not available: redundant-parenthesis part skipped")
    if distinct < 500 or n < 20000:
        R.fail("vacuous", {"programs": distinct, "variants": n}, "too little explored")
    R.set("evaluations", n + pn)
    R.set("distinct_nontrivial", distinct)
    R.set("layout_variants", n)
    R.set("paren_variants", pn)
    R.set("programs", distinct)
    R.set("pool_parts", getattr(progpool.build_pool, "sizes", {}))
    R.set("bounds", {"max_tokens_per_program": 28 if quick else 80, "pairs_of_gaps_for_tokens<=": pair_max,
                     "separators": SEPS, "directives": [n for n, _ in _directives()]})
    return R.finish(
        [" ".join(t) for _, t in core.pick_samples(uniq)],
        "every distinct token sequence of the bounded pool x every whole-layout variant, every "
        "single-gap deviation to 4 separators and 3 directive forms (pairs in thorough); every "
        "expression-model tree x every single redundant parenthesis pair; oracle = canon AST and "
        "generated text equal to the single-space layout's; non-trivial = distinct accepted token sequences",
    )


def replay(rep):
    c = rep["case"]
    b = _observe(c["base"])
    v = _observe(c["text"])
    print("base:", repr(c["base"][:300]))
    print("variant:", repr(c["text"][:300]))
    same = b == v
    print("same AST and generated text:", same)
    if not same and b[0] != v[0]:
        print("diff:", v[0][:2] if v[0][0] == "rejected" else core.first_diff(b[0], v[0]))
    return 0 if same else 1

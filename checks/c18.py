"""C18 - structurally malformed input is always rejected.

(a) 'accepted => brackets balanced' on every string TokEx explores (full
    vocabulary, six contexts);
(b) TokEx over a bracket-heavy vocabulary to a larger depth in expression,
    declarator and statement contexts;
(c) every pool program x every single bracket deletion / duplication / kind swap;
(d) every pool program x every gap x every non-token text.
"""
from __future__ import annotations

from mc import core, tokex, progpool, corpus
from models import vocab

PID = "C18"

OPEN = "([{"
CLOSE = ")]}"
PAIR = {")": "(", "]": "[", "}": "{"}
NONTOKENS = ["@", "`", "\\", "/*", "//", "'", '"',
             # characters that are neither C tokens nor C white space, and the null directive
             "\ufeff", "\u00a0", "\u200b", "\n#\n", "\n# \t\n", "\x00", "\x1b", "\x7f", "\u0085", "\uffff", "\n#define X\n", "\n#include <a.h>\n", "\n#if 0\n",
             # directives whose name merely begins like a supported one
             "\n#pragmatic x\n", "\n#pragma_once\n", "\n#pragma2\n", "\n# pragmas ]] ((\n",
             "\n#linex 3\n", "\n#line_ 3 \"f\"\n", "\n#lines\n", "\n#elif 1\n", "\n#endif\n", "\n#error x\n"]


def bracket_problem(text):
    """None if the bracket characters of text nest and balance, else a short
    description of the first problem (reference stack matcher).  Texts explored
    here have no brackets inside literals or pragma text."""
    st = []
    for ch in text:
        if ch in OPEN:
            st.append(ch)
        elif ch in CLOSE:
            if not st:
                return "stray" + ch
            if st[-1] != PAIR[ch]:
                return "mismatch" + st[-1] + ch
            st.pop()
    if st:
        return "unclosed" + st[-1]
    return None


def tok_visitor(child, toks, text, out, viable, stats, fails, extra):
    if out[0] == "ok":
        p = bracket_problem(text)
        stats["accepted_checked"] = stats.get("accepted_checked", 0) + 1
        if p is not None:
            fails.append((f"accepted-unbalanced:{p}", {"text": text}, "accepted with unbalanced brackets"))
    # count strings that are unbalanced (the ones the invariant speaks about)
    if bracket_problem(text) is not None:
        stats["unbalanced_run"] = stats.get("unbalanced_run", 0) + 1
        if out[0] == "exc":
            fails.append((f"not-ParseError:{out[1]}", {"text": text}, f"unbalanced input: {out[2]}"))


def _split_tokens(text):
    """Token spellings of an accepted program via the lexer under test."""
    return corpus.lex_tokens(text)


def _rejected(mt, what, sig, fails, text):
    """The property says 'rejected with ParseError': acceptance and any other
    exception are both violations.  True if properly rejected."""
    o = core.parse_outcome(mt)
    if o[0] == "ok":
        fails.append((sig, {"text": mt, "origin": text}, what + " accepted"))
    elif o[0] == "exc":
        fails.append((f"not-ParseError:{o[1]}", {"text": mt, "origin": text}, f"{what}: {o[2]}"))
    return o[0] == "perr"


# line directives in front of an injection: the logical line number may lie far
# beyond the physical lines of the text, the file name may change
FAR = ["", '#line 99999 "far away.h"\n', "# 4000000000\n"]


def _mut_work(items):
    n = 0
    nontriv = 0
    fails = []
    for origin, text in items:
        toks = _split_tokens(text)
        if not toks:
            continue
        # (c) bracket mutations
        for i, t in enumerate(toks):
            if t in OPEN or t in CLOSE:
                muts = [("del", toks[:i] + toks[i + 1 :]), ("dup", toks[: i + 1] + toks[i:])]
                for alt in (OPEN if t in OPEN else CLOSE):
                    if alt != t:
                        muts.append((f"swap{t}{alt}", toks[:i] + [alt] + toks[i + 1 :]))
                for kind, m in muts:
                    mt = " ".join(m) + " "
                    n += 1
                    nontriv += 1
                    _rejected(mt, "bracket mutant", f"accepted-mutant:{kind[:4]}:{t}", fails, text)
        # (d) non-token injections at every gap (the directive look-alikes only
        # in programs of at most 10 tokens: their effect does not depend on what
        # surrounds the line)
        junks = NONTOKENS if len(toks) <= 10 else NONTOKENS[:20]
        for i in range(len(toks) + 1):
            for junk in junks:
                for far in (FAR if len(toks) <= 10 else FAR[:1]):
                    mt = far + " ".join(toks[:i] + [junk] + toks[i:]) + " "
                    n += 1
                    if _rejected(mt, "non-token text", f"accepted-junk:{junk.strip()[:8]}", fails, text):
                        nontriv += 1
    return n, nontriv, fails


DIRECTIVE_JUNK = [")", "(", "}", "@", "`", "\\", "/* c */", "// c", "'", '"', "x", "1 2 x"]


def _dir_work(items):
    """Non-token text on a #line / linemarker line (after the line number, the
    file name or the flags) must be rejected too: a directive line is not
    #pragma text."""
    n = 0
    fails = []
    for origin, text in items:
        toks = _split_tokens(text)
        if not toks or len(toks) > 12:
            continue
        for g in range(len(toks) + 1):
            for head in ('# 7 "g.h"', '# 7 "g.h" 1 3', '#line 7 "g.h"', "#line 7", "# 7"):
                for junk in DIRECTIVE_JUNK:
                    if junk in ("1 2 x",) and '"' not in head:
                        continue
                    if junk in ('"',) and '"' not in head:
                        pass
                    line = head + " " + junk
                    mt = " ".join(toks[:g]) + "\n" + line + "\n" + " ".join(toks[g:]) + " "
                    n += 1
                    kind = "name" if '"' in head else "number"
                    _rejected(mt, "non-token text on a line directive",
                              f"accepted-junk-on-directive:after-{kind}:{junk[:2]}", fails, text)
    return n, fails


def run(tier):
    R = core.Run(PID, tier, "model_checking")
    quick = tier == "quick"
    states = transitions = decided = 0
    accepted_checked = unbalanced_run = 0
    levels = {}
    # (a)
    plan = [(ctx, vocab.CONTEXTS[ctx], vocab.SIGMA, 3 if quick else 4) for ctx in vocab.CONTEXTS]
    # (b)
    NB = 6 if quick else 8
    bctx = {"expr": "int x = ", "declarator": "typedef int T; int ", "stmt": "typedef int T; void f(void){ "}
    for k, p in bctx.items():
        plan.append((f"B:{k}", p, vocab.BRACKET_SIGMA, NB))
    samples = []
    for name, prefix, voc, N in plan:
        r = tokex.explore(prefix, voc, N, tok_visitor)
        R.fail_many(r["fails"])
        states += r["viable_total"]
        transitions += r["executions"]
        decided += r["decided"]
        accepted_checked += r["stats"].get("accepted_checked", 0)
        unbalanced_run += r["stats"].get("unbalanced_run", 0)
        levels[f"{name}/N={N}"] = r["levels"]
    # (c), (d)
    pool = progpool.build_pool(tier, parts=("A", "M", "K1"), model_tier="quick")
    small = [(f"K:{n}", " ".join(t) + " ") for n, t in corpus.small_corpus_tokens(60 if quick else 800)]
    pool = sorted(pool + small, key=lambda x: (len(x[1]), x[1]))
    # bound the mutation part by program size (characters of the single-space rendering)
    maxlen = 70 if quick else 160
    pool = [p for p in pool if len(p[1]) <= maxlen or p[0].startswith("K:")]
    if not quick:
        pass
    mut = nontriv = 0
    for n, nt, fl in core.pmap(_mut_work, core.chunked(pool, 50), chunksize=1):
        mut += n
        nontriv += nt
        R.fail_many(fl)
    dn = 0
    for n, fl in core.pmap(_dir_work, core.chunked(pool, 50), chunksize=1):
        dn += n
        R.fail_many(fl)
    mut += dn
    R.set("directive_line_injections", dn)
    if accepted_checked < 100 or mut < 10000:
        R.fail("vacuous", {"accepted_checked": accepted_checked, "mutants": mut}, "too little explored")
    samples = [pool[0][1], pool[len(pool) // 2][1], {"nontokens": NONTOKENS}]
    R.set("states", states)
    R.set("transitions", transitions)
    R.set("traces_validated_against_impl", transitions + mut)
    R.set("evaluations", transitions + mut)
    R.set("distinct_nontrivial", unbalanced_run + nontriv)
    R.set("strings_decided_incl_pruned", decided)
    R.set("accepted_strings_checked_balanced", accepted_checked)
    R.set("unbalanced_strings_executed", unbalanced_run)
    R.set("mutants_and_injections", mut)
    R.set("pool_programs_mutated", len(pool))
    R.set("viable_per_level", levels)
    R.set("bounds", {"tokex_full_vocab_N": 3 if quick else 4, "bracket_vocab_N": NB,
                     "mutations": "single bracket del/dup/kind-swap; 10 non-token texts at every gap; 12 junk texts on 5 directive forms at every gap (programs <= 12 tokens)",
                     "max_program_chars_for_mutation": maxlen})
    return R.finish(
        samples,
        "every token string <= N (full vocabulary, 6 contexts; bracket vocabulary to a larger N in 3 "
        "contexts) executed on the real parser with the invariant accepted => balanced (reference stack "
        "matcher); every pool program x every single-bracket mutation and every non-token injection at "
        "every gap must raise ParseError. non-trivial = executed strings that are unbalanced + mutants "
        "rejected by the parser/lexer",
    )


def replay(rep):
    c = rep["case"]
    o = core.parse_outcome(c["text"])
    print("input:", repr(c["text"]))
    print("outcome:", o[0], "" if o[0] == "ok" else o[1:])
    print("bracket problem:", bracket_problem(c["text"]))
    return 1 if o[0] in ("ok", "exc") else 0

"""C19 - every fake libc header preprocesses and parses via parse_file.

Grid (both tiers): every *.h found by walking utils/fake_libc_include x
{-std=c99, -std=c11, -std=gnu99, -std=gnu11} x both cpp_args forms of
pycparser.parse_file(use_cpp=True):
  list form    cpp_path='cpp', cpp_args=['-I', <dir>, '-std=...']
  string form  cpp_args='-I<dir>' as ONE string (preprocess_file must hand it
               to cpp as one argv element: <dir> is reached through a symlink
               whose name contains a space, so a split string cannot work);
               the dialect flag comes from a two-line wrapper script used as
               cpp_path (`exec cpp -std=... "$@"`).
plus, per dialect and form: all headers in one file in directory order and
reversed; and the typedef sweep: all headers, then `NAME v_i;` for every
typedef name that an own small reader finds in _fake_typedefs.h (and any other
*_fake_typedefs.h): every v_i must be a Decl of type NAME and NAME must be a
Typedef of the AST.  Thorough adds every ordered pair of headers (c99, list).
Oracle: parse_file returns a FileAST that is canon_coord-equal to
CParser().parse(<output of the same cpp command run by hand>, filename).
"""
from __future__ import annotations

import contextlib
import os
import re
import shutil
import stat
import subprocess
import sys
import tempfile

from mc import core

PID = "C19"
STDS = ["c99", "c11", "gnu99", "gnu11"]
FORMS = ["list", "string"]
SPACED = os.path.join("J\u00fcrgen", "t\u00e9st fake libc include")  # blanks and non-ASCII characters
SRCDIR = "s\u00f4urce dir \u4e2d"


def fake_dir():
    return os.path.join(core.REPO, "utils", "fake_libc_include")


def headers():
    """Relative paths of all *.h below the fake include directory, in
    directory order (top directory first, names sorted, then sub-directories)."""
    root = fake_dir()
    out = []
    for dp, dns, fns in os.walk(root):
        dns.sort()
        for fn in sorted(fns):
            if fn.endswith(".h"):
                out.append(os.path.relpath(os.path.join(dp, fn), root))
    return out


def _classify(directive, rest):
    """One conditional as (kind, text, negated): kind 'defined' for a pure
    defined-ness test of one macro (#ifdef M, #ifndef M, #if defined(M),
    #if !defined M), else 'expr' (version tests, arithmetic, combinations)."""
    rest = rest.strip()
    if directive == "ifdef" and re.fullmatch(r"[A-Za-z_]\w*", rest.split()[0] if rest else ""):
        return ("defined", rest.split()[0], False)
    if directive == "ifndef" and re.fullmatch(r"[A-Za-z_]\w*", rest.split()[0] if rest else ""):
        return ("defined", rest.split()[0], True)
    m = re.fullmatch(r"(!?)\s*defined\s*(?:\(\s*([A-Za-z_]\w*)\s*\)|\s([A-Za-z_]\w*))", rest)
    if directive == "if" and m:
        return ("defined", m.group(2) or m.group(3), bool(m.group(1)))
    return ("expr", f"#{directive} {rest}", False)


def typedef_names(path):
    """Own small reader: [(name, conditions)] for every `typedef ... NAME;` of
    a header (comments removed, brace bodies skipped).  conditions = tuple of
    all enclosing conditionals (see _classify), the file's own include guard
    excluded; #else negates a pure test, #elif makes the level an 'expr'."""
    with open(path, encoding="utf-8") as f:
        src = f.read()
    src = re.sub(r"/\*.*?\*/", " ", src, flags=re.S)
    src = re.sub(r"//[^\n]*", " ", src)
    names = []
    conds = []
    stmt = ""
    depth = 0
    first_guard = True
    for line in src.split("\n"):
        s = line.strip()
        if s.startswith("#"):
            m = re.match(r"#\s*(ifdef|ifndef|if|endif|else|elif)\b\s*(.*)", s)
            if m:
                d, rest = m.group(1), m.group(2).strip()
                if d in ("ifdef", "ifndef", "if"):
                    if d == "ifndef" and first_guard and not names:
                        conds.append(None)  # include guard
                    else:
                        conds.append(_classify(d, rest))
                    first_guard = False
                elif d == "endif":
                    if conds:
                        conds.pop()
                elif d == "else" and conds and conds[-1] is not None:
                    k, t, neg = conds[-1]
                    conds[-1] = (k, t, not neg) if k == "defined" else ("expr", t + " / #else", False)
                elif d == "elif" and conds and conds[-1] is not None:
                    conds[-1] = ("expr", conds[-1][1] + f" / #elif {rest}", False)
            continue
        for ch in line + "\n":
            if ch == "{":
                depth += 1
            elif ch == "}":
                depth -= 1
            if ch == ";" and depth == 0:
                st = stmt.strip()
                stmt = ""
                if re.match(r"typedef\b", st):
                    st = re.sub(r"\{.*\}", " ", st, flags=re.S)
                    m = re.search(r"\(\s*\*\s*([A-Za-z_]\w*)\s*\)\s*\(", st)
                    if m:
                        nm = m.group(1)
                    else:
                        ids = re.findall(r"[A-Za-z_]\w*", re.sub(r"\[[^\]]*\]", " ", st))
                        nm = ids[-1]
                    names.append((nm, tuple(c for c in conds if c is not None)))
            else:
                stmt += ch
    return names


def excused(conds, macros):
    """A name may be missing in a dialect only if an enclosing conditional is a
    pure defined-ness test that is false for cpp's predefined macros of that
    dialect.  Anything under another kind of #if is required everywhere."""
    for kind, text, neg in conds:
        if kind == "defined" and ((text in macros) == neg):
            return True
    return False


def cond_text(conds):
    return " && ".join((("!" if n else "") + f"defined({t})") if k == "defined" else t for k, t, n in conds) or "unconditional"


def predefined_macros(std):
    r = subprocess.run(["cpp", "-dM", f"-std={std}", "-x", "c", "/dev/null"], capture_output=True, text=True)
    return set(re.findall(r"^#define (\w+)", r.stdout, flags=re.M))


# ---------------------------------------------------------------------------
# scratch directory
# ---------------------------------------------------------------------------
class Scratch:
    def __init__(self):
        self.dir = tempfile.mkdtemp(prefix="verif-c19-")
        self.inc = fake_dir()
        self.spaced = os.path.join(self.dir, SPACED)
        os.makedirs(os.path.dirname(self.spaced))
        os.symlink(self.inc, self.spaced)
        self.src = os.path.join(self.dir, SRCDIR)  # the including files live under a non-ASCII path
        os.makedirs(self.src)
        self.wrappers = {}
        for std in STDS:
            p = os.path.join(self.dir, f"cpp-{std}")
            with open(p, "w") as f:
                f.write(f'#!/bin/sh\nexec cpp -std={std} "$@"\n')
            os.chmod(p, os.stat(p).st_mode | stat.S_IXUSR | stat.S_IXGRP | stat.S_IXOTH)
            self.wrappers[std] = p
        self.n = 0

    def cfile(self, name, hdrs, tail=""):
        p = os.path.join(self.src, name)
        with open(p, "w") as f:
            f.write("".join(f"#include <{h}>\n" for h in hdrs) + tail)
        return p

    def info(self):
        return {"dir": self.dir, "inc": self.inc, "spaced": self.spaced, "wrappers": self.wrappers, "src": self.src}

    def remove(self):
        shutil.rmtree(self.dir, ignore_errors=True)


@contextlib.contextmanager
def quiet_stderr():
    """cpp writes its diagnostics to our stderr when parse_file runs it."""
    sys.stderr.flush()
    saved = os.dup(2)
    dn = os.open(os.devnull, os.O_WRONLY)
    try:
        os.dup2(dn, 2)
        yield
    finally:
        os.dup2(saved, 2)
        os.close(saved)
        os.close(dn)


def anonymise(msg, sc):
    return (str(msg).replace(sc["spaced"], "<inc>").replace(sc["inc"], "<inc>")
            .replace(os.path.realpath(sc["inc"]), "<inc>").replace(sc["dir"], "<tmp>"))


def run_cell(cfile, std, form, sc, reference=True):
    """-> (problem or None, info).  problem = (signature, detail).
    reference=False (ordered pairs): the by-hand pipeline is run only when
    parse_file raised, to name the root cause; the oracle is 'returns a FileAST'."""
    from pycparser import parse_file

    list_problem = None
    if form == "list":
        # ONE list object per dialect is passed to every parse_file call of this process
        want_list = ["-I", sc["inc"], f"-std={std}"]
        cpp_args = _SHARED_LISTS.setdefault((sc["inc"], std), list(want_list))
        cpp_path = "cpp"
        manual = ["cpp", "-I", sc["inc"], f"-std={std}", cfile]
    else:
        cpp_path, cpp_args = sc["wrappers"][std], "-I" + sc["spaced"]
        manual = ["cpp", f"-std={std}", "-I" + sc["spaced"], cfile]
    try:
        with quiet_stderr():
            ast = parse_file(cfile, use_cpp=True, cpp_path=cpp_path, cpp_args=cpp_args)
        got = ("ok", ast)
    except RecursionError:
        got = ("rec",)
    except Exception as e:  # noqa
        got = ("exc", type(e).__name__, anonymise(e, sc))
    if form == "list":
        _SHARED_USES[0] += 1
        if cpp_args != want_list:
            list_problem = ("cpp_args-list-modified-by-parse_file",
                            f"-std={std}: the caller's list is now {anonymise(cpp_args, sc)[:200]} (use #{_SHARED_USES[0]} of this list object)")
            cpp_args[:] = want_list  # go on with a repaired list
    prob, info = _judge_cell(cfile, std, form, sc, reference, got, manual)
    return (list_problem or prob), info


_SHARED_LISTS = {}
_SHARED_USES = [0]


def _judge_cell(cfile, std, form, sc, reference, got, manual):
    ast = got[1] if got[0] == "ok" else None
    if got[0] == "ok" and not reference:
        info = {"ast": got[1] if hasattr(got[1], "ext") else None}
        if info["ast"] is None:
            return (f"parse_file:returned-{type(got[1]).__name__}", f"-std={std} {form} form"), info
        return None, info
    r = subprocess.run(manual, capture_output=True, text=True)
    if r.returncode != 0:
        ref = ("cpp-failed", anonymise(r.stderr.strip(), sc))
    else:
        ref = core.parse_outcome(r.stdout, cfile)
    info = {"ast": got[1] if got[0] == "ok" and hasattr(got[1], "ext") else None}
    if got[0] != "ok":
        how = got[1] if len(got) > 1 else got[0]
        if ref[0] == "ok":
            # by hand the same command line works: the defect is in parse_file / preprocess_file
            return (f"differs-from-manual:{form}:parse_file-raises-{how}",
                    f"-std={std}: {got[-1][:300]} (the same cpp command run by hand parses)"), info
        if ref[0] == "cpp-failed":
            first = next((l for l in ref[1].split("\n") if "error" in l), ref[1].split("\n")[0])
            first = re.sub(r":\d+:\d+:", ":", first)
            first = re.sub(r"<tmp>/[\w.]+", "<tmp>/FILE", first)
            return (f"cpp-failed:{first[:120]}", f"-std={std} {form} form: {ref[1][:300]}"), info
        if ref[0] == "perr":
            m = re.sub(r":\d+(:\d+)?: ", ": ", anonymise(ref[1], sc))
            m = re.sub(r"<tmp>/[\w.]+", "<tmp>/FILE", m)
            return (f"parse-error:{m[:120]}", f"-std={std} {form} form: {got[-1][:300]}"), info
        return (f"parser-failure:{ref[1] if len(ref) > 1 else ref[0]}", f"-std={std} {form} form: {got[-1][:300]}"), info
    if not hasattr(ast, "ext"):
        return (f"parse_file:returned-{type(ast).__name__}", f"-std={std} {form} form"), info
    if ref[0] != "ok":
        return (f"differs-from-manual:{form}:outcome", f"-std={std}: parse_file returned an AST, by hand: {str(ref[1:])[:200]}"), info
    a, b = core.canon(ast), core.canon(ref[1])
    if a != b:
        return (f"differs-from-manual:{form}:{core.diff_sig(a, b)}",
                f"-std={std}: first difference {anonymise(core.first_diff(a, b), sc)}"[:400]), info
    a, b = core.canon_coord(ast), core.canon_coord(ref[1])
    if a != b:
        return (f"differs-from-manual:{form}:coordinates",
                f"-std={std}: same structure, first coordinate difference {anonymise(core.first_diff(a, b), sc)}"[:400]), info
    missing = sorted(f for f in coord_files(a) if os.path.isabs(f) and not os.path.exists(f))
    if missing:
        return (f"coordinates-name-a-file-that-does-not-exist:{form}", f"-std={std}: {anonymise(missing[:3], sc)}"), info
    return None, info


def coord_files(cc):
    """File names in the coordinates of a canon_coord value."""
    out = set()
    todo = [cc]
    while todo:
        x = todo.pop()
        if isinstance(x, tuple):
            if len(x) == 3 and isinstance(x[0], str) and x[0][:1].isupper() and isinstance(x[2], tuple):
                if isinstance(x[1], tuple) and x[1] and isinstance(x[1][0], str):
                    out.add(x[1][0])
                todo.append(x[2])
            else:
                todo.extend(x)
    return out


def _grid_work(task):
    sc, cells = task
    fails = []
    n = 0
    nontrivial = 0
    hashes = set()
    ext_counts = {}
    compared = 0
    for hdrs, cfile, std, form, ref in cells:
        prob, info = run_cell(cfile, std, form, sc, reference=ref)
        n += 1
        compared += ref and info["ast"] is not None
        if info["ast"] is not None:
            k = len(info["ast"].ext)
            if k:
                nontrivial += 1
            hashes.add(hash(core.canon(info["ast"])))
            if len(hdrs) == 1 and std == "c99" and form == "list":
                ext_counts[hdrs[0]] = k
        if prob:
            fails.append((prob[0], {"headers": hdrs, "std": std, "form": form}, prob[1]))
    return n, fails, nontrivial, hashes, ext_counts, compared


def _sweep_work(task):
    """One dialect x form: (1) parse the all-headers file and read off the
    Typedef names T of the AST; every name of the reader that is not excused
    must be in T; (2) rewrite the sweep file as all headers + `NAME v_i;` for
    every reader name in T and parse it: each v_i must be a Decl of type NAME;
    the result is compared with the by-hand pipeline."""
    from pycparser import c_ast

    sc, hdrs, all_file, sweep_file, std, form, names, macros = task
    macros = set(macros)
    case = {"headers": "all", "std": std, "form": form, "typedef_sweep": True}
    fails = []
    prob, info = run_cell(all_file, std, form, sc, reference=False)
    if prob:
        return [(prob[0], case, prob[1])], 0, None, []
    T = {e.name for e in info["ast"].ext if isinstance(e, c_ast.Typedef)}
    exc = sorted(n for n, c in names if excused(c, macros))
    by_cond = {}
    for n, c in names:
        if n not in T and not excused(c, macros):
            by_cond.setdefault(cond_text(c), []).append(n)
    for ct, ns in by_cond.items():
        sig = f"typedef-missing:under {ct}" if ct != "unconditional" else f"typedef-missing:{ns[0]}"
        fails.append((sig, case, f"-std={std} {form} form: {len(ns)} type names of the fake typedef files are not defined "
                                 f"after including every header: {ns}"))
    declared = [(i, n) for i, (n, c) in enumerate(names) if n in T]
    with open(sweep_file, "w") as f:
        # every name as an object, a pointer, an array element type, a parameter
        # and a return type, a cast and a sizeof operand: "usable as a type" in
        # every syntactic position (also makes the unit several thousand tokens long)
        f.write("".join(f"#include <{h}>\n" for h in hdrs) + "".join(
            f"{n} v_{i};\n{n} *p_{i}, a_{i}[2];\n{n} *f_{i}({n} x, {n} *);\n"
            f"unsigned long s_{i} = sizeof({n}) + sizeof(({n} *)0) + _Alignof({n}) + alignof({n});\n"
            # ... and as the operand of the alignment specifier, spelled directly and through
            # the alignas macro of the fake headers, at file scope, in a struct and in a block
            f"_Alignas({n}) char al_{i}[64];\nalignas({n}) char am_{i};\n"
            f"struct su_{i} {{ _Alignas({n}) char c; {n} m; }};\n"
            f"void fb_{i}(void) {{ _Alignas({n}) char local; {n} w; (void)sizeof(_Alignof({n})); }}\n"
            # ... in unnamed parameters of function type (the name must not be taken for a parameter name)
            # and at the head of the declaration list of an old-style definition
            f"void u_{i}(void *({n}, {n}), {n} *({n}));\n"
            f"int k_{i}(a, b) {n} a; {n} *b; {{ return 0; }}\n"
            for i, n in declared))
    prob, info = run_cell(sweep_file, std, form, sc)
    if prob:
        fails.append((prob[0], case, prob[1]))
    if info["ast"] is not None:
        decls = {e.name: e for e in info["ast"].ext if isinstance(e, c_ast.Decl)}
        for i, n in declared:
            d = decls.get(f"v_{i}")
            ok = (d is not None and isinstance(d.type, c_ast.TypeDecl)
                  and isinstance(d.type.type, c_ast.IdentifierType) and d.type.type.names == [n])
            if not ok:
                fails.append((f"typedef-not-usable:{n}", case, f"-std={std} {form} form: `{n} v_{i};` did not become a Decl of type {n}"))
            many = len(declared) > 3

            def names_of(t):  # type name of a Typename/Decl whose type is [PtrDecl ->] TypeDecl -> IdentifierType
                t = getattr(t, "type", None)
                if isinstance(t, c_ast.PtrDecl):
                    t = t.type
                t = getattr(t, "type", None)
                return getattr(t, "names", None)

            u = decls.get(f"u_{i}")
            ps = getattr(getattr(getattr(u, "type", None), "args", None), "params", None) or []
            okU = len(ps) == 2 and all(isinstance(q, c_ast.Typename) and q.name is None and isinstance(q.type, c_ast.FuncDecl)
                                       and isinstance(q.type.type, c_ast.PtrDecl) for q in ps)
            if okU:
                inner = [[(type(x).__name__, getattr(x, "name", "?"), names_of(x)) for x in q.type.args.params] for q in ps]
                okU = (inner == [[("Typename", None, [n])] * 2, [("Typename", None, [n])]]
                       and names_of(ps[0].type) == ["void"] and names_of(ps[1].type) == [n])
            if not okU:
                fails.append(("typedef-in-unnamed-function-type-parameter" if many else f"typedef-in-unnamed-function-type-parameter:{n}", case,
                              f"-std={std} {form} form: `void u_{i}(void *({n}, {n}), {n} *({n}));` is not two unnamed parameters of function type taking {n}"))
            kd = next((e for e in info["ast"].ext if isinstance(e, c_ast.FuncDef) and e.decl.name == f"k_{i}"), None)
            pd = getattr(kd, "param_decls", None) or []
            if not (len(pd) == 2 and [d2.name for d2 in pd] == ["a", "b"] and names_of(pd[0]) == [n] and names_of(pd[1]) == [n]
                    and isinstance(pd[1].type, c_ast.PtrDecl)):
                fails.append(("typedef-at-head-of-old-style-declaration-list" if many else f"typedef-at-head-of-old-style-declaration-list:{n}", case,
                              f"-std={std} {form} form: `int k_{i}(a, b) {n} a; {n} *b; {{...}}` did not give param_decls a, b of type {n}"))
            a = decls.get(f"al_{i}")
            al = getattr(a, "align", None) or []
            t = getattr(al[0], "alignment", None) if al else None
            if not (isinstance(t, c_ast.Typename) and isinstance(getattr(t.type, "type", None), c_ast.IdentifierType)
                    and t.type.type.names == [n]):
                fails.append(("typedef-not-usable-as-alignment-operand" if len(declared) > 3 else f"typedef-not-usable-as-alignment-operand:{n}",
                              case, f"-std={std} {form} form: `_Alignas({n}) char al_{i}[64];` did not record the type name {n} as alignment"))
    return fails, len(declared), sorted(T), exc


# ---------------------------------------------------------------------------
# one scratch path rewritten with different contents inside one process
# ---------------------------------------------------------------------------
def _rewrite_work(task):
    """task = (sc, path, [(index, header)], std, form).  The same path is
    rewritten for each header of the chain (`#include <h>` + `int marker_i;`)
    and parsed right away; every result must equal the by-hand pipeline run on
    the file as it is at that moment and contain its own marker."""
    from pycparser import c_ast

    sc, path, chain, std, form = task
    fails = []
    steps = 0
    prev = None
    for idx, h in chain:
        with open(path, "w") as f:
            f.write(f"#include <{h}>\nint marker_{idx};\nchar *lit_{idx} = \"J\u00fcrgen \u00e9\u4e2d {idx}\";\n")
        prob, info = run_cell(path, std, form, sc)
        steps += 1
        case = {"rewrite_chain": [x for _, x in chain], "first_index": chain[0][0], "failing_header": h, "std": std, "form": form}
        ast = info["ast"]
        cur = core.canon(ast) if ast is not None else None
        has = ast is not None and any(isinstance(e, c_ast.Decl) and e.name == f"marker_{idx}" for e in ast.ext)
        if ast is not None and not has and prev is not None and cur == prev:
            fails.append(("same-path-rewritten:stale-result", case,
                          f"-std={std} {form} form: after rewriting the file for {h} parse_file returned the AST of the previous contents"))
        elif prob:
            fails.append((prob[0], case, f"[same path rewritten, now including {h}] {prob[1]}"))
        elif not has:
            fails.append(("same-path-rewritten:marker-missing", case, f"-std={std} {form} form: no Decl marker_{idx} after including {h}"))
        prev = cur
    return steps, fails


def typedef_files():
    root = fake_dir()
    return [h for h in headers() if os.path.basename(h).endswith("_fake_typedefs.h")]


def run(tier):
    R = core.Run(PID, tier, "exploration")
    hs = headers()
    S = Scratch()
    try:
        return _run(R, tier, hs, S)
    finally:
        core.close_pool()
        S.remove()


def _run(R, tier, hs, S):
    sc = S.info()
    names = []
    per_file = {}
    for tf in typedef_files():
        got = typedef_names(os.path.join(fake_dir(), tf))
        per_file[tf] = len(got)
        names += got
    # de-duplicate names, keep order
    seen = set()
    names = [(n, c) for n, c in names if not (n in seen or seen.add(n))]
    macros = {std: sorted(predefined_macros(std)) for std in STDS}

    # ---- grid ----------------------------------------------------------------
    cells = []
    for i, h in enumerate(hs):
        cf = S.cfile(f"one_{i}.c", [h])
        for std in STDS:
            for form in FORMS:
                cells.append(([h], cf, std, form, True))
    all_fwd = S.cfile("all_forward.c", hs)
    all_rev = S.cfile("all_reversed.c", list(reversed(hs)))
    multi = []
    for std in STDS:
        for form in FORMS:
            multi.append((["<all, directory order>"], all_fwd, std, form, True))
            multi.append((["<all, reversed>"], all_rev, std, form, True))
    pairs = []
    if tier == "thorough":
        for i, a in enumerate(hs):
            for j, b in enumerate(hs):
                cf = S.cfile(f"pair_{i}_{j}.c", [a, b])
                pairs.append(([a, b], cf, "c99", "list", False))
    n_total = 0
    nontriv = 0
    hashes = set()
    ext_counts = {}
    tasks = [(sc, ch) for ch in core.chunked(cells, 12)] + [(sc, [m]) for m in multi] + [(sc, ch) for ch in core.chunked(pairs, 40)]
    compared = 0
    for n, fl, nt, hsh, ec, cmpd in core.pmap(_grid_work, tasks, chunksize=1):
        n_total += n
        compared += cmpd
        nontriv += nt
        hashes |= hsh
        ext_counts.update(ec)
        R.fail_many(fl)

    # ---- one path rewritten (consecutive header pairs) --------------------------
    CH = 8
    chains = []
    k = 0
    for start in range(0, len(hs) - 1, CH):
        chain = [(i, hs[i]) for i in range(start, min(start + CH + 1, len(hs)))]
        for form in FORMS:
            for std in (STDS if tier == "thorough" else [STDS[k % len(STDS)]]):
                chains.append((sc, os.path.join(S.src, f"scratch_{len(chains)}.c"), chain, std, form))
        k += 1
    rewrite_steps = 0
    pairs_covered = set()
    for (steps, fl), ch in zip(core.pmap(_rewrite_work, chains, chunksize=1), chains):
        rewrite_steps += steps
        R.fail_many(fl)
        pairs_covered.update((a[0], b[0], ch[4]) for a, b in zip(ch[2], ch[2][1:]))
    n_total += rewrite_steps
    compared += rewrite_steps

    # ---- typedef sweep -------------------------------------------------------
    sweep_tasks = []
    for std in STDS:
        for form in FORMS:
            sweep_tasks.append((sc, hs, all_fwd, os.path.join(S.src, f"sweep_{std}_{form}.c"), std, form, names, macros[std]))
    used_names = []
    sweeps_ok = 0
    tsets = {}
    for (fl, used, T, exc), t in zip(core.pmap(_sweep_work, sweep_tasks, chunksize=1), sweep_tasks):
        R.fail_many(fl)
        if T is not None:
            used_names.append(used)
            sweeps_ok += 1
            tsets[(t[4], t[5])] = (set(T), set(exc))
    n_total += 2 * len(sweep_tasks)
    # differential clause: the usable type names are the same in all four dialects but for excused names
    cond_of = {n: cond_text(c) for n, c in names}
    dialect_diffs = 0
    for form in FORMS:
        for i, sa in enumerate(STDS):
            for sb in STDS[i + 1:]:
                if (sa, form) not in tsets or (sb, form) not in tsets:
                    continue
                (Ta, Ea), (Tb, Eb) = tsets[(sa, form)], tsets[(sb, form)]
                dialect_diffs += 1
                diff = sorted((Ta ^ Tb) - Ea - Eb)
                groups = {}
                for n in diff:
                    groups.setdefault(cond_of.get(n, "defined by another header"), []).append(n)
                for ct, ns in groups.items():
                    R.fail(f"typedef-dialect-dependent:{ct}" if ct != "unconditional" else f"typedef-dialect-dependent:{ns[0]}",
                           {"headers": "all", "std": sa, "other_std": sb, "form": form, "typedef_sweep": True},
                           f"type names defined under -std={sa} xor -std={sb} ({form} form): {ns}")

    # ---- vacuity guards ------------------------------------------------------
    main_td = per_file.get("_fake_typedefs.h", 0)
    if not R.viol and (len(hs) < 100 or main_td < 150 or n_total < len(hs) * len(STDS) * len(FORMS)
            or nontriv < len(hs) * 4 or len(hashes) < 3 or (sweeps_ok and min(used_names) < 150)
            or len(pairs_covered) < (len(hs) - 1) * len(FORMS) or (sweeps_ok == len(sweep_tasks) and dialect_diffs < 12)):  # (only when nothing else failed: failures shrink the counts)
        R.fail("vacuous", {"headers": len(hs), "typedef_names": main_td, "runs": n_total,
                           "nontrivial": nontriv, "distinct_asts": len(hashes), "used_names": used_names},
               "too few headers / typedef names / runs, or the ASTs are empty")
    R.set("evaluations", n_total)
    R.set("distinct_nontrivial", nontriv)
    R.set("states", len(hs))
    R.set("transitions", n_total)
    R.set("traces_validated_against_impl", compared + sweeps_ok)
    R.set("distinct_outcomes", len(hashes))
    R.set("results_compared_with_by_hand_pipeline", compared + sweeps_ok)
    R.set("headers_found", len(hs))
    R.set("typedef_names_per_file", per_file)
    R.set("typedef_names_distinct", len(names))
    R.set("typedef_names_conditional", [f"{n} ({cond_text(c)})" for n, c in names if c])
    R.set("typedef_names_excused_per_dialect", {std: sorted(n for n, c in names if excused(c, set(macros[std]))) for std in STDS})
    R.set("typedef_names_in_ast_per_dialect", {f"{k[0]}/{k[1]}": len(v[0]) for k, v in sorted(tsets.items())})
    R.set("dialect_pairs_compared", dialect_diffs)
    R.set("same_path_rewrite_steps", rewrite_steps)
    R.set("same_path_consecutive_pairs_covered", len(pairs_covered))
    R.set("typedef_names_declared_per_sweep", used_names)
    R.set("single_header_cells", len(cells))
    R.set("all_in_one_cells", len(multi))
    R.set("ordered_pair_cells", len(pairs))
    R.set("typedef_sweep_cells", len(sweep_tasks))
    R.set("headers_with_empty_ast", sorted(h for h, k in ext_counts.items() if k == 0))
    R.set("top_level_nodes_per_header_min_max", [min(ext_counts.values() or [0]), max(ext_counts.values() or [0])])
    R.set("bounds", {"headers": len(hs), "dialects": STDS, "cpp_args_forms": FORMS,
                     "orders": ["single", "all forward", "all reversed", "same path rewritten for consecutive headers"] + (["all ordered pairs (c99, list)"] if pairs else []),
                     "string_form_include_dir": "symlink whose name contains a space"})
    R.assumptions += [
        "cpp is the system's GNU cpp; without -nostdinc, as the property states (-I only)",
        "a typedef name may be missing in a dialect only under a pure defined-ness test (#ifdef/#ifndef/#if [!]defined) that is "
        "false for cpp's predefined macros of that dialect; names under any other #if are required in all four dialects",
    ]
    samples = [{"header": c[0][0], "std": c[2], "form": c[3]} for c in core.pick_samples(cells, 9)]
    samples += [{"headers": m[0][0], "std": m[2], "form": m[3]} for m in multi[:2]]
    samples += [{"typedef_sweep": f"{names[0][0]} v_0; ... {names[-1][0]} v_{len(names) - 1};"}]
    return R.finish(
        samples,
        "every header x 4 dialects x 2 cpp_args forms through parse_file(use_cpp=True); all headers in one file "
        "forward and reversed x 4 x 2; one scratch path rewritten for every consecutive header pair x 2 forms (dialects rotating; "
        "all 4 in thorough); the typedef sweep x 4 x 2 (names required unless excused, usable as types, same set in all dialects); thorough: every ordered pair of headers (c99, list form; "
        "oracle: returns a FileAST). Each grid / all-in-one / sweep result compared (canon with coordinates) with "
        "CParser().parse(output of the same cpp command run by hand). non-trivial = runs whose AST has at least "
        "one top-level node",
    )


def replay(rep):
    c = rep["case"]
    hs = headers()
    S = Scratch()
    try:
        sc = S.info()
        if c.get("typedef_sweep"):
            names = []
            for tf in typedef_files():
                names += typedef_names(os.path.join(fake_dir(), tf))
            seen = set()
            names = [(n, k) for n, k in names if not (n in seen or seen.add(n))]
            macros = predefined_macros(c["std"])
            allf = S.cfile("all_forward.c", hs)
            fails, used, T, exc = _sweep_work((sc, hs, allf, os.path.join(S.src, "sweep.c"), c["std"], c["form"], names, sorted(macros)))
            if c.get("other_std") and T is not None:
                m2 = predefined_macros(c["other_std"])
                f2, _, T2, exc2 = _sweep_work((sc, hs, allf, os.path.join(S.src, "sweep2.c"), c["other_std"], c["form"], names, sorted(m2)))
                diff = sorted((set(T) ^ set(T2 or [])) - set(exc) - set(exc2))
                if diff:
                    fails = fails + f2 + [("typedef-dialect-dependent", {}, f"-std={c['std']} vs -std={c['other_std']}: {diff}")]
            for f in fails[:10]:
                print("problem:", f[0], "|", f[2])
            if not fails:
                print(f"typedef sweep fine: {used} names declared and found, -std={c['std']} {c['form']} form")
            return 1 if fails else 0
        if "rewrite_chain" in c:
            chain = list(enumerate(c["rewrite_chain"], c.get("first_index", 0)))
            steps, fails = _rewrite_work((sc, os.path.join(S.src, "scratch.c"), chain, c["std"], c["form"]))
            for f in fails[:10]:
                print("problem:", f[0], "|", f[2])
            if not fails:
                print(f"{steps} rewrites of one path parsed correctly, -std={c['std']} {c['form']} form")
            return 1 if fails else 0
        sel = c["headers"]
        if sel == ["<all, directory order>"]:
            sel = hs
        elif sel == ["<all, reversed>"]:
            sel = list(reversed(hs))
        cf = S.cfile("replay.c", sel)
        prob, info = run_cell(cf, c["std"], c["form"], sc)
        print("file:", "".join(f"#include <{h}> " for h in sel[:6]), "..." if len(sel) > 6 else "")
        print("dialect:", c["std"], "cpp_args form:", c["form"])
        print("problem:", prob or "none")
        return 1 if prob else 0
    finally:
        S.remove()

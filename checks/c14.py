"""C14 - node classes and tree traversal conform to _c_ast.cfg.

Part 1 (configurations, exhaustive): for each class of the cfg (independent
reader in models/astspec.py) every configuration {each '*' child present or
None} x {each '**' child in None, [], [n], [n, n']} with unique sentinel
values is built positionally (cfg order + coord) and by keyword, on
  (a) the checked-in pycparser.c_ast,
  (b) a module regenerated in memory from the cfg by pycparser._ast_gen,
and compared with what the specification implies (slots, constructor order,
attr_names, children() names/order/values, iteration, show, visitor) and
(a) against (b) observation by observation.

Part 2 (inputs): on every AST of the program pool: children()/iteration of
every node agree with the specification; a counting NodeVisitor reaches every
node (found by an independent walk over the specification's child fields read
with getattr) exactly once in preorder; a visitor defining every visit_X at
once dispatches each node to the method of its own class; for each X in turn a
visitor defining only visit_X intercepts exactly the X nodes not nested below
another X and generic-visits exactly the other nodes above them; show() writes
exactly one line per reachable node (8 flag variants), line i naming the class
(and child name) of the i-th node in preorder at its depth.
"""
from __future__ import annotations

import inspect
import io
import os

from mc import core
from models import astspec, mini_pool

PID = "C14"
SHOW_VARIANTS = [
    dict(),
    dict(attrnames=True),
    dict(nodenames=True),
    dict(showcoord=True),
    dict(attrnames=True, nodenames=True, showcoord=True),
    dict(showemptyattrs=False),
    dict(attrnames=True, showemptyattrs=False),
    dict(offset=3, nodenames=True),
]


def specs():
    return astspec.read_cfg(astspec.cfg_path(core.REPO))


def regenerate():
    """c_ast regenerated in memory from the cfg by the tree's own _ast_gen."""
    from pycparser import _ast_gen

    gen = _ast_gen.ASTCodeGenerator(astspec.cfg_path(core.REPO))
    buf = io.StringIO()
    gen.generate(buf)
    src = buf.getvalue()
    ns = {"__name__": "c_ast_regenerated"}
    exec(compile(src, "<c_ast regenerated from _c_ast.cfg>", "exec"), ns)
    return ns, src


def node_classes(ns):
    """Node subclasses of a module namespace in definition order."""
    base = ns["Node"]
    return [
        k for k, v in ns.items()
        if inspect.isclass(v) and issubclass(v, base) and v is not base
    ]


# ---------------------------------------------------------------------------
# show() oracle shared by both parts
# ---------------------------------------------------------------------------
class _ListBuffer(list):
    """A collector that is an (initially empty, hence falsy) list."""

    def write(self, text):
        self.append(text)

    def getvalue(self):
        return "".join(self)


class _FalsyBuffer:
    """A writer whose truth value is False."""

    def __init__(self):
        self.parts = []

    def __bool__(self):
        return False

    def write(self, text):
        self.parts.append(text)

    def getvalue(self):
        return "".join(self.parts)


class _SizedBuffer:
    """A writer with __len__ (0 while nothing has been written)."""

    def __init__(self):
        self.parts = []

    def __len__(self):
        return len(self.parts)

    def write(self, text):
        self.parts.append(text)

    def getvalue(self):
        return "".join(self.parts)


BUFFER_KINDS = [("io.StringIO", io.StringIO), ("list subclass with write()", _ListBuffer),
                ("object with __bool__ == False", _FalsyBuffer), ("object with __len__ == 0", _SizedBuffer)]


def show_problem(node, pre, kw):
    """None or (kind, detail).  pre = [(depth, name_in_parent, node)].
    show() is run once per kind of buffer object; everything must arrive in the
    buffer that was passed and nothing on sys.stdout."""
    import sys

    texts = []
    for kind, make in BUFFER_KINDS:
        buf = make()
        saved, sys.stdout = sys.stdout, io.StringIO()
        try:
            node.show(buf, **kw)
            leaked = sys.stdout.getvalue()
        finally:
            sys.stdout = saved
        got = buf.getvalue()
        if leaked:
            return ("show:writes-to-stdout-instead-of-the-given-buffer" if not got else "show:writes-to-stdout-too",
                    f"buffer kind: {kind}; {len(leaked)} characters went to sys.stdout, {len(got)} into the buffer, flags {kw}")
        texts.append(got)
    if len(set(texts)) != 1:
        k = next(i for i, t in enumerate(texts) if t != texts[0])
        return "show:output-depends-on-buffer-kind", f"{BUFFER_KINDS[k][0]} received {len(texts[k])} characters, io.StringIO {len(texts[0])}, flags {kw}"
    text = texts[0]
    if not text.endswith("\n"):
        return "show:no-final-newline", text[-80:]
    lines = text[:-1].split("\n")
    if len(lines) != len(pre):
        # diagnose: an attribute whose printed value spans several lines
        for _, _, n in pre:
            for a in n.attr_names:
                v = getattr(n, a, None)
                if "\n" in f"{v}":
                    held = v[0] if isinstance(v, list) and v else v
                    return (f"show:multi-line-attribute:{n.__class__.__name__}.{a}",
                            f"{len(lines)} lines for {len(pre)} reachable nodes: attribute {a} of a "
                            f"{n.__class__.__name__} holds a {type(held).__name__} whose text spans lines, flags {kw}")
        return "show:line-count", f"{len(lines)} lines for {len(pre)} reachable nodes, flags {kw}"
    off = kw.get("offset", 0)
    for i, (line, (d, nm, n)) in enumerate(zip(lines, pre)):
        want = " " * (off + 2 * d) + n.__class__.__name__
        if kw.get("nodenames") and nm is not None:
            want += " <" + nm + ">"
        want += ":"
        if not line.startswith(want):
            return "show:line-identity", f"line {i}: {line[:80]!r} should start with {want!r}, flags {kw}"
        if kw.get("showcoord") and not line.endswith(f" (at {n.coord})"):
            return "show:coord", f"line {i}: {line[-60:]!r} flags {kw}"
    return None


# ---------------------------------------------------------------------------
# part 1: configurations
# ---------------------------------------------------------------------------
def observe(ns, spec, config, leaves, coord):
    """What one module does for one configuration -> dict of observations in
    symbolic form: the sentinel objects are named by identity ('leaf3', 'ROOT',
    'COORD'), so observations of two modules are comparable with ==."""
    cls = ns[spec.name]
    counter = [0]

    def leaf(tag):
        i = counter[0]
        counter[0] += 1
        return leaves[i]

    vals = astspec.build_values(spec, config, leaf)
    names = {id(l): f"leaf{i}" for i, l in enumerate(leaves)}
    names[id(coord)] = "COORD"
    for f, v in zip(spec.fields, vals):
        if isinstance(v, list):
            names[id(v)] = f"LIST:{f}"

    def sym(v):
        if v is None or isinstance(v, str):
            return v
        return names.get(id(v), f"<unknown {type(v).__name__}>")

    node = cls(*vals, coord)
    names[id(node)] = "ROOT"
    obs = {"node": node, "vals": vals, "want_fields": [sym(v) for v in vals]}
    obs["positional"] = [sym(getattr(node, f, "<missing>")) for f in spec.fields] + [sym(getattr(node, "coord", "<missing>"))]
    try:
        knode = cls(**dict(zip(spec.fields, vals)), coord=coord)
        obs["keyword"] = [sym(getattr(knode, f, "<missing>")) for f in spec.fields] + [sym(knode.coord)]
    except TypeError as e:
        obs["keyword"] = f"TypeError: {e}"
    try:
        dnode = cls(*vals)
        obs["default_coord"] = sym(dnode.coord)
    except TypeError as e:
        obs["default_coord"] = f"TypeError: {e}"
    ch = node.children()
    obs["children_type"] = type(ch).__name__
    obs["children"] = [(n, sym(v)) for n, v in ch]
    obs["iter"] = [sym(v) for v in iter(node)]
    obs["iter2"] = [sym(v) for v in node]  # a second iteration gives the same
    obs["repr"] = repr(node)
    shows = []
    for kw in SHOW_VARIANTS:
        b = io.StringIO()
        node.show(b, **kw)
        shows.append(b.getvalue())
    obs["show"] = shows
    seen = []

    class Counting(ns["NodeVisitor"]):
        def generic_visit(self, n):
            seen.append(sym(n))
            ns["NodeVisitor"].generic_visit(self, n)

    Counting().visit(node)
    obs["visited"] = seen
    try:
        import weakref

        obs["weakref"] = weakref.ref(node)() is node
    except TypeError as e:
        obs["weakref"] = f"TypeError: {e}"
    obs["sym"] = sym
    return obs


def class_static(ns, spec):
    cls = ns[spec.name]
    try:
        sig = str(inspect.signature(cls.__init__))
    except (TypeError, ValueError) as e:
        sig = f"?{e}"
    return {
        "slots": tuple(cls.__slots__),
        "attr_names": cls.attr_names,
        "signature": sig,
        "bases": [b.__name__ for b in cls.__bases__],
        "has_dict": hasattr(object.__new__(cls), "__dict__"),
    }


def check_static(spec, st, label, fails):
    want_slots = tuple(spec.fields) + ("coord", "__weakref__")
    if st["slots"] != want_slots:
        fails.append((f"{label}|{spec.name}|__slots__", {"class": spec.name},
                      f"__slots__ {st['slots']} but the cfg implies {want_slots}"))
    if not isinstance(st["attr_names"], tuple) or tuple(st["attr_names"]) != tuple(spec.attrs):
        fails.append((f"{label}|{spec.name}|attr_names", {"class": spec.name},
                      f"attr_names {st['attr_names']!r} but the cfg's bare fields are {tuple(spec.attrs)}"))
    want_sig = "(self, " + "".join(f + ", " for f in spec.fields) + "coord=None)"
    if st["signature"] != want_sig:
        fails.append((f"{label}|{spec.name}|__init__:signature", {"class": spec.name},
                      f"signature {st['signature']} but the cfg implies {want_sig}"))
    if st["bases"] != ["Node"]:
        fails.append((f"{label}|{spec.name}|bases", {"class": spec.name}, str(st["bases"])))
    if st["has_dict"]:
        fails.append((f"{label}|{spec.name}|has-__dict__", {"class": spec.name}, "instances carry a __dict__ (slots not effective)"))


def check_config(spec, config, obs, label, fails, specs_by_name):
    """Compare one module's observations with the specification."""
    case = {"class": spec.name, "config": list(config), "module": label or "c_ast"}
    vals = obs["vals"]
    sym = obs["sym"]
    want_fields = obs["want_fields"]
    if obs["positional"][:-1] != want_fields:
        bad = [f for f, g, w in zip(spec.fields, obs["positional"], want_fields) if g != w]
        fails.append((f"{label}|{spec.name}|__init__:positional-order", case,
                      f"fields {bad} do not hold the values passed at their cfg positions: {obs['positional'][:-1]}"))
        return  # everything observed below is built from the misplaced values
    if obs["positional"][-1] != "COORD":
        fails.append((f"{label}|{spec.name}|__init__:coord", case, f"coord is {obs['positional'][-1]!r}, not the value passed after the fields"))
    if isinstance(obs["keyword"], str) or obs["keyword"] != want_fields + ["COORD"]:
        fails.append((f"{label}|{spec.name}|__init__:keyword", case, f"keyword construction: {str(obs['keyword'])[:160]}"))
    if obs["default_coord"] is not None:
        fails.append((f"{label}|{spec.name}|__init__:coord-default", case, f"coord omitted gives {obs['default_coord']!r}"))
    exp = astspec.expected_children(spec, vals)
    exp_pairs = [(n, sym(v)) for n, v in exp]
    if obs["children"] != exp_pairs:
        gn = [n for n, _ in obs["children"]]
        en = [n for n, _ in exp_pairs]
        if sorted(gn) != sorted(en):
            kind = "children:missing-or-extra"
        elif gn != en:
            kind = "children:order"
        else:
            kind = "children:values"
        fails.append((f"{label}|{spec.name}|{kind}", case, f"children() gives {obs['children']}, specification implies {exp_pairs}"))
    if obs["iter"] != [v for _, v in exp_pairs] or obs["iter2"] != obs["iter"]:
        fails.append((f"{label}|{spec.name}|__iter__", case,
                      f"iteration yields {obs['iter']}, specification implies {[v for _, v in exp_pairs]}"))
    children_ok = obs["children"] == exp_pairs
    if children_ok and obs["visited"] != ["ROOT"] + [v for _, v in exp_pairs]:
        fails.append((f"{label}|{spec.name}|generic_visit", case,
                      f"counting visitor saw {obs['visited']}, expected ROOT + {[v for _, v in exp_pairs]}"))
    if obs["weakref"] is not True:
        fails.append((f"{label}|{spec.name}|weakref", case, f"weakref.ref(node): {obs['weakref']}"))
    pre = [(0, None, obs["node"])] + [(1, n, v) for n, v in exp]
    for kw, text in zip(SHOW_VARIANTS, obs["show"] if children_ok else []):
        lines = text[:-1].split("\n") if text.endswith("\n") else None
        if lines is None or len(lines) != len(pre):
            fails.append((f"{label}|{spec.name}|show:line-count", case, f"{text!r:.200} flags {kw}"))
            break
        p = show_problem(obs["node"], pre, kw)
        if p:
            fails.append((f"{label}|{spec.name}|{p[0]}", case, p[1]))
            break


def part1(R):
    from pycparser import c_ast
    from pycparser.c_parser import Coord

    sp = specs()
    by = {s.name: s for s in sp}
    fails = []
    counts = {"classes": len(sp), "configurations": 0, "observations_compared": 0,
              "drift_comparisons": 0, "configs_with_absent_child": 0, "configs_with_empty_list": 0}
    ns_a = vars(c_ast)
    try:
        ns_b, regen_src = regenerate()
    except Exception as e:  # noqa
        fails.append(("regen:generator-crash", {}, repr(e)[:300]))
        ns_b, regen_src = None, ""
    # class lists
    names = [s.name for s in sp]
    if len(set(names)) != len(names):
        fails.append(("cfg:duplicate-class", {}, str(names)))
    ca = node_classes(ns_a)
    if ca != names:
        fails.append(("c_ast:class-list", {"missing": [n for n in names if n not in ca], "extra": [n for n in ca if n not in names]},
                      "Node subclasses of c_ast differ (set or order) from the cfg entries"))
    if ns_b is not None:
        cb = node_classes(ns_b)
        if cb != names:
            fails.append(("regen:class-list", {"missing": [n for n in names if n not in cb], "extra": [n for n in cb if n not in names]},
                          "regenerated module's classes differ from the cfg entries"))
    coord = Coord("cfg sweep.c", 7, 3)
    samples = []
    per_class = {}
    for spec in sp:
        if spec.name not in ns_a:
            continue
        st_a = class_static(ns_a, spec)
        check_static(spec, st_a, "", fails)
        st_b = None
        if ns_b is not None and spec.name in ns_b:
            st_b = class_static(ns_b, spec)
            check_static(spec, st_b, "regen:", fails)
            if st_a != st_b and not any(f[0].split("|")[1:2] == [spec.name] for f in fails):
                diff = [k for k in st_a if st_a[k] != st_b[k]]
                fails.append((f"drift:|{spec.name}|{diff[0]}", {"class": spec.name},
                              f"checked-in {st_a[diff[0]]!r} vs regenerated {st_b[diff[0]]!r}"))
        confs = astspec.configurations(spec)
        per_class[spec.name] = len(confs)
        for config in confs:
            counts["configurations"] += 1
            if "absent" in config or "None" in config:
                counts["configs_with_absent_child"] += 1
            if "[]" in config:
                counts["configs_with_empty_list"] += 1
            leaves = [c_ast.ID(f"leaf{i}", Coord("leaf.c", i + 1, 1)) for i in range(2 * len(spec.fields) + 1)]
            try:
                oa = observe(ns_a, spec, config, leaves, coord)
            except Exception as e:  # noqa
                fails.append((f"|{spec.name}|crash:{type(e).__name__}", {"class": spec.name, "config": list(config)}, repr(e)[:200]))
                continue
            check_config(spec, config, oa, "", fails, by)
            counts["observations_compared"] += 9 + len(SHOW_VARIANTS)
            if len(samples) < 400:
                samples.append({"class": spec.name, "config": list(config),
                                "children": [n for n, _ in oa["children"]]})
            if st_b is None:
                continue
            try:
                ob = observe(ns_b, spec, config, leaves, coord)
            except Exception as e:  # noqa
                fails.append((f"regen:|{spec.name}|crash:{type(e).__name__}", {"class": spec.name, "config": list(config)}, repr(e)[:200]))
                continue
            check_config(spec, config, ob, "regen:", fails, by)
            if any(f[0].split("|")[1:2] == [spec.name] for f in fails):
                continue  # already reported against the specification
            for key in ("positional", "keyword", "default_coord", "children_type", "children", "iter", "visited", "repr", "show", "weakref"):
                va, vb = oa[key], ob[key]
                counts["drift_comparisons"] += 1
                if va != vb:
                    fails.append((f"drift:|{spec.name}|{key}", {"class": spec.name, "config": list(config)},
                                  f"checked-in module: {str(oa[key])[:150]} / regenerated from cfg: {str(ob[key])[:150]}"))
    # informational: source-level drift (python AST of checked-in file vs regenerated text)
    R.set("source_level_drift", source_drift(regen_src) if regen_src else "n/a")
    R.set("configurations_per_class", per_class)
    return sp, fails, counts, samples


def source_drift(regen_src):
    """Names of top-level definitions whose python AST (docstrings removed)
    differs between pycparser/c_ast.py and the regenerated text.  Reported in
    the evidence only: behaviour is what the property is about."""
    import ast as pyast

    def norm(src):
        out = {}
        for item in pyast.parse(src).body:
            if isinstance(item, (pyast.ClassDef, pyast.FunctionDef)):
                for sub in pyast.walk(item):
                    if isinstance(sub, (pyast.ClassDef, pyast.FunctionDef)):
                        sub.body = [
                            b for b in sub.body
                            if not (isinstance(b, pyast.Expr) and isinstance(getattr(b, "value", None), pyast.Constant)
                                    and isinstance(b.value.value, str))
                        ] or [pyast.Pass()]
                out[item.name] = pyast.dump(item)
        return out

    try:
        with open(os.path.join(core.REPO, "pycparser", "c_ast.py"), encoding="utf-8") as f:
            a = norm(f.read())
        b = norm(regen_src)
    except SyntaxError as e:
        return f"unparsable: {e}"
    return sorted(k for k in set(a) | set(b) if a.get(k) != b.get(k))


# ---------------------------------------------------------------------------
# part 2: pool ASTs
# ---------------------------------------------------------------------------
_W = {}


def _wstate():
    """Per-process: specs, visitor classes."""
    if _W:
        return _W
    from pycparser import c_ast

    sp = specs()
    by = {s.name: s for s in sp}
    _W["by"] = by
    _W["names"] = [s.name for s in sp]

    class Counting(c_ast.NodeVisitor):
        def __init__(self):
            self.seen = []

        def generic_visit(self, n):
            self.seen.append(id(n))
            c_ast.NodeVisitor.generic_visit(self, n)

    _W["Counting"] = Counting

    def mk_all():
        d = {"__init__": lambda self: setattr(self, "seen", [])}
        for nm in _W["names"]:
            def m(self, n, _nm=nm):
                self.seen.append((_nm, id(n)))
                c_ast.NodeVisitor.generic_visit(self, n)
            d["visit_" + nm] = m

        def g(self, n):
            self.seen.append(("<generic>", id(n)))
            c_ast.NodeVisitor.generic_visit(self, n)
        d["generic_visit"] = g
        return type("AllVisitor", (c_ast.NodeVisitor,), d)

    _W["All"] = mk_all()

    def mk_one(nm):
        def init(self):
            self.hit = []
            self.gen = []

        def m(self, n):
            self.hit.append(id(n))

        def g(self, n):
            self.gen.append(id(n))
            c_ast.NodeVisitor.generic_visit(self, n)
        return type("Only_" + nm, (c_ast.NodeVisitor,), {"__init__": init, "visit_" + nm: m, "generic_visit": g})

    _W["One"] = {nm: mk_one(nm) for nm in _W["names"]}

    def mk_hook(nm, own_generic):
        """visit() overridden as a recording hook that delegates to
        NodeVisitor.visit; optionally a visit_<nm> (non-descending) and an
        overridden generic_visit."""
        def init(self):
            self.passed = []
            self.hit = []
            self.gen = []

        def visit(self, n):
            self.passed.append(id(n))
            return c_ast.NodeVisitor.visit(self, n)
        d = {"__init__": init, "visit": visit}
        if nm is not None:
            def m(self, n):
                self.hit.append(id(n))
            d["visit_" + nm] = m
        if own_generic:
            def g(self, n):
                self.gen.append(id(n))
                c_ast.NodeVisitor.generic_visit(self, n)
            d["generic_visit"] = g
        return type(f"Hook_{nm}_{int(own_generic)}", (c_ast.NodeVisitor,), d)

    _W["Hook"] = {(nm, g): mk_hook(nm, g) for nm in [None] + _W["names"] for g in (False, True)}
    return _W


def attr_held_nodes(by, root):
    """Nodes stored in *attribute* fields (e.g. Decl.align holds Alignas
    nodes): not children by the specification, so traversal does not promise to
    reach them; they are checked as extra roots."""
    from pycparser import c_ast

    found = []
    todo = [root]
    while todo:
        n = todo.pop()
        spec = by.get(n.__class__.__name__)
        if spec is None:
            continue
        for f, k in zip(spec.fields, spec.kinds):
            v = getattr(n, f, None)
            if k == "attr":
                vs = v if isinstance(v, (list, tuple)) else [v]
                for e in vs:
                    if isinstance(e, c_ast.Node):
                        found.append((f"{spec.name}.{f}", e))
                        todo.append(e)
            elif k == "child":
                if isinstance(v, c_ast.Node):
                    todo.append(v)
            else:
                for e in v or []:
                    if isinstance(e, c_ast.Node):
                        todo.append(e)
    return found


def check_tree(root, W, stats):
    """-> list of (sig, detail) for one tree (root + everything reachable)."""
    from pycparser import c_ast

    by = W["by"]
    out = []
    # 0. field typing, so that the independent walk is well defined
    pre = []
    stack = [(0, None, root, None)]
    while stack:
        d, nm, n, parent = stack.pop()
        if not isinstance(n, c_ast.Node) or n.__class__.__name__ not in by:
            out.append((f"{parent}:child-field-holds-non-node", f"{type(n).__name__} in {parent} ({nm})"))
            continue
        pre.append((d, nm, n))
        spec = by[n.__class__.__name__]
        for f in spec.seqs:
            v = getattr(n, f)
            if v is not None and not isinstance(v, list):
                out.append((f"{spec.name}.{f}:sequence-field-not-a-list", type(v).__name__))
        ch = astspec.spec_children(by, n)
        for cn, c in reversed(ch):
            stack.append((d + 1, cn, c, f"{spec.name}.{cn.split('[')[0]}"))
    if out:
        return out
    ids = [id(n) for _, _, n in pre]
    stats["nodes"] += len(pre)
    # 1. per node: children() and iteration agree with the specification
    for _, _, n in pre:
        k = n.__class__.__name__
        stats["classes"][k] = stats["classes"].get(k, 0) + 1
        exp = astspec.spec_children(by, n)
        got = n.children()
        if [(a, id(b)) for a, b in got] != [(a, id(b)) for a, b in exp]:
            gn, en = [a for a, _ in got], [a for a, _ in exp]
            kind = "missing-or-extra" if sorted(gn) != sorted(en) else ("order" if gn != en else "values")
            out.append((f"|{k}|children:{kind}", f"children() {gn[:8]} vs specification {en[:8]}"))
        if [id(b) for b in n] != [id(b) for _, b in exp]:
            out.append((f"|{k}|__iter__", f"iteration differs from specification children {[a for a, _ in exp][:8]}"))
        if tuple(n.__slots__) != tuple(by[k].fields) + ("coord", "__weakref__"):
            out.append((f"|{k}|__slots__", str(n.__slots__)))
    stats["node_local"] += len(pre)
    if out:
        return out  # traversal and printing are built on children(): consequences only
    # 2. counting visitor
    v = W["Counting"]()
    v.visit(root)
    stats["visitor_runs"] += 1
    if v.seen != ids:
        out.append(visitor_diff("generic_visit", v.seen, pre))
        return out
    # 3. all visit_X at once
    v = W["All"]()
    v.visit(root)
    stats["visitor_runs"] += 1
    want = [(n.__class__.__name__, id(n)) for _, _, n in pre]
    if v.seen != want:
        bad = next((w for g, w in zip(v.seen + [None] * len(want), want) if g != w), None)
        out.append((f"dispatch:|{bad[0] if bad else 'extra'}|not-own-method", "a node was not dispatched to the visit_ method of its own class (or traversal differs)"))
    # 4. each visit_X in turn
    present = {n.__class__.__name__ for _, _, n in pre}
    for nm in W["names"]:
        if nm in present:
            cut = astspec.preorder(by, root, stop_class=nm)
            want_hit = [id(n) for _, _, n in cut if n.__class__.__name__ == nm]
            want_gen = [id(n) for _, _, n in cut if n.__class__.__name__ != nm]
            stats["intercepted"] += len(want_hit)
            if len(want_hit) < sum(1 for _, _, n in pre if n.__class__.__name__ == nm):
                stats["nested_same_class"] += 1
        else:
            want_hit, want_gen = [], ids
        v = W["One"][nm]()
        v.visit(root)
        stats["visitor_runs"] += 1
        if v.hit != want_hit:
            kind = "missed" if len(v.hit) < len(want_hit) else ("extra" if len(v.hit) > len(want_hit) else "other-nodes")
            out.append((f"visit_|{nm}|{kind}", f"visit_{nm} intercepted {len(v.hit)} nodes, expected {len(want_hit)}"))
        elif v.gen != want_gen:
            out.append((f"visit_|{nm}|generic-part", f"generic_visit saw {len(v.gen)} nodes, expected {len(want_gen)}"))
    # 4b. subclasses that override visit() as a hook: every node that the traversal
    #     handles must pass through visit() exactly once, in preorder
    for nm in [None] + sorted(present):
        if nm is None:
            want_pass, want_hit = ids, []
        else:
            cut = astspec.preorder(by, root, stop_class=nm)
            want_pass = [id(n) for _, _, n in cut]
            want_hit = [id(n) for _, _, n in cut if n.__class__.__name__ == nm]
        for own_generic in (False, True):
            v = W["Hook"][(nm, own_generic)]()
            v.visit(root)
            stats["visitor_runs"] += 1
            stats["hook_visitor_runs"] += 1
            variant = ("with" if nm else "without") + "-visit_X/" + ("own" if own_generic else "inherited") + "-generic_visit"
            if v.passed != want_pass:
                from collections import Counter

                kind = ("missed" if Counter(want_pass) - Counter(v.passed) else
                        ("more-than-once" if Counter(v.passed) - Counter(want_pass) else "order"))
                out.append((f"visit-hook:{variant}:{kind}",
                            f"an overridden visit() saw {len(v.passed)} nodes, the traversal handles {len(want_pass)}"
                            + (f" (visit_{nm} defined)" if nm else "")))
            elif v.hit != want_hit:
                out.append((f"visit-hook:{variant}:visit_X-interception", f"visit_{nm} intercepted {len(v.hit)} nodes, expected {len(want_hit)}"))
            elif own_generic and v.gen != [i for i in want_pass if i not in set(want_hit)]:
                out.append((f"visit-hook:{variant}:generic-part", f"generic_visit saw {len(v.gen)} nodes"))
    # 5. show
    for kw in SHOW_VARIANTS:
        stats["show_runs"] += len(BUFFER_KINDS)
        p = show_problem(root, pre, kw)
        if p:
            out.append(p)
            break
    return out


def visitor_diff(label, seen, pre):
    ids = [id(n) for _, _, n in pre]
    info = {id(n): (nm, n.__class__.__name__) for _, nm, n in pre}
    parent = {}
    stackp = []
    for d, nm, n in pre:
        del stackp[d:]
        parent[id(n)] = stackp[-1].__class__.__name__ if stackp else None
        stackp.append(n)
    from collections import Counter

    cs, ci = Counter(seen), Counter(ids)
    missed = [i for i in ids if cs[i] < ci[i]]
    if missed:
        nm, k = info[missed[0]]
        return (f"{label}:missed:{parent[missed[0]] or 'root'}.{(nm or '').split('[')[0]}",
                f"{len(missed)} reachable nodes never visited; first is a {k} held in {parent[missed[0]]}.{nm}")
    extra = [i for i in seen if cs[i] > ci[i]]
    if extra:
        return (f"{label}:more-than-once", f"{len(extra)} visits too many")
    return (f"{label}:order", "all nodes visited once but not in preorder of the specification's child order")


# ---------------------------------------------------------------------------
# part 3: visitor class hierarchies and orders of use
# ---------------------------------------------------------------------------
ORDERS = ["plain-first", "base-then-derived", "derived-then-base", "siblings-alternating", "same-class-twice"]


def _mk_visitor(name, bases, visit_names):
    """A fresh visitor class: visit_<n> for n in visit_names records and does
    not descend; generic_visit records and descends (defined once, on the
    class that has no visitor base)."""
    from pycparser import c_ast

    d = {}
    if bases == (c_ast.NodeVisitor,):
        def init(self):
            self.hit = []
            self.gen = []

        def g(self, n):
            self.gen.append(id(n))
            c_ast.NodeVisitor.generic_visit(self, n)
        d["__init__"] = init
        d["generic_visit"] = g
    for nm in visit_names:
        def m(self, n, _nm=nm):
            self.hit.append((_nm, id(n)))
        d["visit_" + nm] = m
    return type(name, bases, d)


def _expect(by, root, visit_names):
    """(hits, generic) a visitor defining exactly visit_<n>, n in visit_names, must see."""
    hits, gen = [], []
    stack = [root]
    while stack:
        n = stack.pop()
        k = n.__class__.__name__
        if k in visit_names:
            hits.append((k, id(n)))
            continue
        gen.append(id(n))
        for _, c in reversed(astspec.spec_children(by, n)):
            stack.append(c)
    return hits, gen


def _judge(by, root, v, visit_names, order, role, X, out):
    hits, gen = _expect(by, root, set(visit_names))
    if v.hit != hits:
        kind = "missed" if len(v.hit) < len(hits) else ("extra" if len(v.hit) > len(hits) else "other-nodes")
        out.append((f"hierarchy:{order}:|{X}|visit_X-{kind}",
                    f"{role} visitor defining {sorted(visit_names)} intercepted {len(v.hit)} nodes, expected {len(hits)}"))
    elif v.gen != gen:
        out.append((f"hierarchy:{order}:|{X}|generic-part",
                    f"{role} visitor: generic_visit saw {len(v.gen)} nodes, expected {len(gen)}"))


def hierarchy_problems(by, root, X, Y, stats, orders=None):
    """The given ORDERS (default all) for one class X on one tree that contains X."""
    from pycparser import c_ast

    NV = c_ast.NodeVisitor
    orders = ORDERS if orders is None else orders
    out = []
    if ORDERS[0] in orders:  # plain NodeVisitor instance first
        NV().visit(root)
        V = _mk_visitor("AfterPlain_" + X, (NV,), [X])
        v = V(); v.visit(root)
        _judge(by, root, v, [X], ORDERS[0], "subclass", X, out)
        stats["hierarchy_visitor_runs"] += 2
    if ORDERS[1] in orders:  # Base without visit_X first, then Derived(Base) with visit_X
        B = _mk_visitor("Base", (NV,), [])
        D = _mk_visitor("Derived_" + X, (B,), [X])
        b = B(); b.visit(root)
        _judge(by, root, b, [], ORDERS[1], "base", X, out)
        d = D(); d.visit(root)
        _judge(by, root, d, [X], ORDERS[1], "derived", X, out)
        stats["hierarchy_visitor_runs"] += 2
    if ORDERS[2] in orders:  # Derived first, then Base
        B = _mk_visitor("Base", (NV,), [])
        D = _mk_visitor("Derived_" + X, (B,), [X])
        d = D(); d.visit(root)
        _judge(by, root, d, [X], ORDERS[2], "derived", X, out)
        b = B(); b.visit(root)
        _judge(by, root, b, [], ORDERS[2], "base", X, out)
        stats["hierarchy_visitor_runs"] += 2
    if ORDERS[3] in orders:  # two siblings below one base with different visit_* sets, alternating
        P = _mk_visitor("Parent", (NV,), [])
        S1 = _mk_visitor("Sib_" + X, (P,), [X])
        S2 = _mk_visitor("Sib_" + Y, (P,), [Y])
        for rnd in range(2):
            s1 = S1(); s1.visit(root)
            _judge(by, root, s1, [X], ORDERS[3], "sibling-1", X, out)
            s2 = S2(); s2.visit(root)
            _judge(by, root, s2, [Y], ORDERS[3], "sibling-2", X, out)
        stats["hierarchy_visitor_runs"] += 4
    if ORDERS[4] in orders:  # the same subclass instantiated twice
        V = _mk_visitor("Twice_" + X, (NV,), [X])
        v1 = V(); v1.visit(root)
        v2 = V(); v2.visit(root)
        _judge(by, root, v1, [X], ORDERS[4], "first-instance", X, out)
        _judge(by, root, v2, [X], ORDERS[4], "second-instance", X, out)
        stats["hierarchy_visitor_runs"] += 2
    stats["hierarchy_cases"] += len(orders)
    return out


def _hier_work(task):
    """task = (X, Y, [(origin, text)]): every order on every tree of the list
    that contains X.  The worker first runs the ordinary visitors of part 2 on
    each tree, so the hierarchy families always start in a process where other
    visitor classes (and instances) have already been used."""
    W = _wstate()
    by = W["by"]
    X, Y, items, orders = task
    stats = {"hierarchy_visitor_runs": 0, "hierarchy_cases": 0, "hierarchy_trees": 0}
    fails = []
    for origin, text in items:
        o = core.parse_outcome(text, "pool.c")
        if o[0] != "ok":
            continue
        roots = [("root", o[1])] + attr_held_nodes(by, o[1])
        for where, r in roots:
            if not any(n.__class__.__name__ == X for _, _, n in astspec.preorder(by, r)):
                continue
            W["Counting"]().visit(r)
            W["All"]().visit(r)
            W["One"][X]().visit(r)
            stats["hierarchy_trees"] += 1
            for sig, det in hierarchy_problems(by, r, X, Y, stats, orders):
                fails.append((sig, {"text": text, "origin": origin, "root": where, "hierarchy_class": X,
                                    "sibling_class": Y, "orders": orders}, det))
    return X, stats, fails


def _pool_work(items):
    W = _wstate()
    stats = {"nodes": 0, "classes": {}, "node_local": 0, "visitor_runs": 0, "show_runs": 0,
             "intercepted": 0, "nested_same_class": 0, "hook_visitor_runs": 0, "attr_held": {}, "trees": 0, "skipped": 0,
             "attr_roots": 0}
    fails = []
    hashes = set()
    for origin, text in items:
        o = core.parse_outcome(text, "pool.c")
        if o[0] != "ok":
            stats["skipped"] += 1
            continue
        ast = o[1]
        stats["trees"] += 1
        try:
            h = hash(core.canon(ast))
        except RecursionError:
            stats["skipped"] += 1
            continue
        hashes.add(h)
        roots = [("root", ast)]
        for where, n in attr_held_nodes(W["by"], ast):
            stats["attr_held"][where] = stats["attr_held"].get(where, 0) + 1
            roots.append((where, n))
            stats["attr_roots"] += 1
        for where, r in roots:
            try:
                probs = check_tree(r, W, stats)
            except RecursionError:
                stats["skipped"] += 1
                continue
            except Exception as e:  # noqa
                probs = [(f"crash:{core.exc_site(e)}", repr(e)[:200])]
            for sig, det in probs:
                fails.append((sig, {"text": text, "origin": origin, "root": where}, det))
    return stats, fails, hashes


def regroup(fails):
    """Final signatures.  Checks emit 'group|Class|aspect'; when the same
    (group, aspect) fails for >= 3 classes it is one generic defect (base
    Node / NodeVisitor / generator template) and gets 'group*:aspect'."""
    classes = {}
    for sig, _, _ in fails:
        if sig.count("|") == 2:
            g, k, a = sig.split("|")
            classes.setdefault((g, a), set()).add(k)
    out = []
    for sig, case, det in fails:
        if sig.count("|") == 2:
            g, k, a = sig.split("|")
            if len(classes[(g, a)]) >= 3:
                sig, det = f"{g}*:{a}", f"[{k}] {det}"
            else:
                sig = f"{g}{k}:{a}"
        out.append((sig, case, det))
    return out


def merge_stats(acc, st):
    for k, v in st.items():
        if isinstance(v, dict):
            d = acc.setdefault(k, {})
            for kk, vv in v.items():
                d[kk] = d.get(kk, 0) + vv
        else:
            acc[k] = acc.get(k, 0) + v


def run(tier):
    R = core.Run(PID, tier, "exploration")
    # ---- part 1 ----------------------------------------------------------
    import time

    t0 = time.time()
    sp, fails, counts, samples1 = part1(R)
    phases = {"configurations": round(time.time() - t0, 1)}
    if (counts["classes"] < 49 or counts["configurations"] < 3 * counts["classes"]
            or counts["configs_with_absent_child"] < counts["classes"] or counts["configs_with_empty_list"] < 10):
        R.fail("vacuous:configurations", counts, "fewer classes/configurations than the specification has")
    # ---- part 2 ----------------------------------------------------------
    ok, msg, _ = mini_pool.verify()
    if not ok:
        R.fail("vacuous:mini-pool", {"message": msg}, "the hand-written pool no longer parses or misses node classes")
    t0 = time.time()
    pool, sizes, src = mini_pool.load_pool(tier)
    phases["pool_build"] = round(time.time() - t0, 1)
    t0 = time.time()
    pool.sort(key=lambda x: (len(x[1]), x[1]))
    stats = {}
    hashes = set()
    # coarse tasks, big texts alone
    small = [p for p in pool if len(p[1]) < 20000]
    big = [[p] for p in pool if len(p[1]) >= 20000]
    tasks = big + core.chunked(small, 60)
    for st, fl, hs in core.pmap(_pool_work, tasks, chunksize=1):
        merge_stats(stats, st)
        fails.extend(fl)
        hashes |= hs
    phases["pool_sweep"] = round(time.time() - t0, 1)
    # ---- part 3: hierarchies / orders of use (hand-written pool, every class) ----
    t0 = time.time()
    names_all = [s.name for s in sp]
    mini = [(f"M:{i}", p) for i, p in enumerate(mini_pool.PROGRAMS)]
    mini.sort(key=lambda x: (len(x[1]), x[1]))
    hstats = {}
    hier_classes = set()
    # a bare NodeVisitor() instance is used only in the second pass, so that the
    # other orders are judged in processes where none was used yet
    for orders in (ORDERS[1:], ORDERS[:1]):
        htasks = [(X, names_all[(i + 1) % len(names_all)], mini, orders) for i, X in enumerate(names_all)]
        for X, st, fl in core.pmap(_hier_work, htasks, chunksize=1):
            merge_stats(hstats, st)
            fails.extend(fl)
            if st["hierarchy_trees"]:
                hier_classes.add(X)
    phases["hierarchy"] = round(time.time() - t0, 1)
    if hier_classes != set(names_all) or hstats.get("hierarchy_cases", 0) < len(ORDERS) * len(names_all):
        R.fail("vacuous:hierarchy", {"classes_without_tree": sorted(set(names_all) - hier_classes)},
               "some class had no tree for the visitor-hierarchy families")
    R.set("hierarchy_orders", ORDERS)
    R.set("hierarchy_cases", hstats.get("hierarchy_cases", 0))
    R.set("hierarchy_trees", hstats.get("hierarchy_trees", 0))
    R.set("hierarchy_visitor_runs", hstats.get("hierarchy_visitor_runs", 0))
    R.set("phase_seconds", phases)
    # smallest case first per signature (big corpus files are scheduled first for load balance)
    fails.sort(key=lambda f: len(f[1].get("text", "")) if isinstance(f[1], dict) else 0)
    R.fail_many(regroup(fails))
    names = [s.name for s in sp]
    reached = set(stats.get("classes", {}))
    if stats.get("trees", 0) < 60 or len(hashes) < 50 or reached != set(names):
        R.fail("vacuous:pool", {"trees": stats.get("trees", 0), "distinct": len(hashes),
                                "classes_not_reached": sorted(set(names) - reached)},
               "pool too small or some node class never traversed")
    if stats.get("intercepted", 0) == 0 or stats.get("nested_same_class", 0) == 0:
        R.fail("vacuous:visit_X", {}, "no visit_X interception (or no nested same-class case) was exercised")
    evaluations = (counts["observations_compared"] + counts["drift_comparisons"] + stats.get("node_local", 0)
                   + stats.get("visitor_runs", 0) + stats.get("show_runs", 0) + hstats.get("hierarchy_visitor_runs", 0))
    R.set("evaluations", evaluations)
    R.set("distinct_nontrivial", counts["configurations"] + len(hashes))
    R.set("states", counts["configurations"] + stats.get("nodes", 0))
    R.set("transitions", stats.get("visitor_runs", 0) + stats.get("show_runs", 0) + 2 * counts["configurations"])
    R.set("traces_validated_against_impl", stats.get("trees", 0) + stats.get("attr_roots", 0) + 2 * counts["configurations"])
    R.set("distinct_outcomes", len(hashes))
    R.set("configuration_sweep", counts)
    R.set("pool_source", src)
    R.set("pool_parts", sizes)
    R.set("pool_trees_checked", stats.get("trees", 0))
    R.set("pool_programs_skipped", stats.get("skipped", 0))
    R.set("pool_distinct_asts", len(hashes))
    R.set("pool_nodes_traversed", stats.get("nodes", 0))
    R.set("node_classes_reached", stats.get("classes", {}))
    R.set("visitor_runs", stats.get("visitor_runs", 0))
    R.set("show_runs", stats.get("show_runs", 0))
    R.set("show_buffer_kinds", [k for k, _ in BUFFER_KINDS])
    R.set("visit_hook_visitor_runs", stats.get("hook_visitor_runs", 0))
    R.set("visit_X_nodes_intercepted", stats.get("intercepted", 0))
    R.set("visit_X_runs_with_nested_same_class", stats.get("nested_same_class", 0))
    R.set("nodes_held_in_attribute_fields", stats.get("attr_held", {}))
    R.set("bounds", {"classes": counts["classes"], "single_child": ["present", "None"],
                     "sequence_child": list(astspec.SEQ_OPTIONS), "show_variants": SHOW_VARIANTS,
                     "modules": ["checked-in c_ast", "regenerated from cfg by _ast_gen"],
                     "pool": src})
    R.assumptions += [
        "a field the cfg marks as an attribute may hold nodes (Decl/TypeDecl/Typename.align holds Alignas nodes): "
        "they are not children by the specification, traversal is not expected to reach them; they are checked as separate roots and counted",
        "expected children order: present single children in cfg order, then sequences in cfg order (property text)",
    ]
    samples = core.pick_samples(samples1, 8) + [{"pool_program": t[:200]} for _, t in core.pick_samples(pool, 4)]
    return R.finish(
        samples,
        "every class of _c_ast.cfg x every subset of single children absent x every sequence child in "
        "{None, [], [n], [n,n']} on the checked-in module and on a module regenerated from the cfg (each compared "
        "with the specification and with each other); every AST of the program pool x {counting visitor, all-classes "
        "visitor, one visit_X visitor per class, visitors overriding visit() as a hook (with/without a visit_X for every class "
        "present, with/without an own generic_visit), 8 show() variants x 4 kinds of buffer object with sys.stdout captured, "
        "children()/iteration of every node}; every class X x 5 "
        "orders of use of visitor class hierarchies (plain NodeVisitor first, Base then Derived(Base)+visit_X, Derived "
        "then Base, alternating siblings, one class instantiated twice) on every hand-written tree containing X, in "
        "processes where other visitors ran before. "
        "evaluations = observations compared; non-trivial = configurations + distinct canonical pool ASTs",
    )


def replay(rep):
    c = rep["case"]
    if "text" in c:
        W = _wstate()
        o = core.parse_outcome(c["text"], "pool.c")
        if o[0] != "ok":
            print("program no longer parses:", o[1:])
            return 0
        stats = {"nodes": 0, "classes": {}, "node_local": 0, "visitor_runs": 0, "show_runs": 0,
                 "intercepted": 0, "nested_same_class": 0, "hook_visitor_runs": 0}
        roots = [o[1]] + [n for _, n in attr_held_nodes(W["by"], o[1])]
        if "hierarchy_class" in c:
            hs = {"hierarchy_visitor_runs": 0, "hierarchy_cases": 0}
            X = c["hierarchy_class"]
            probs = [p for r in roots
                     if any(n.__class__.__name__ == X for _, _, n in astspec.preorder(W["by"], r))
                     for p in hierarchy_problems(W["by"], r, X, c.get("sibling_class", X), hs, c.get("orders"))]
        else:
            probs = [p for r in roots for p in check_tree(r, W, stats)]
        probs = [(sig, det) for sig, _, det in regroup([(sig, {}, det) for sig, det in probs])]
        print("input:", repr(c["text"][:300]))
        for p in probs:
            print("problem:", p)
        if not probs:
            print("traversal, interception and show() agree with the specification")
        return 1 if probs else 0
    R = core.Run(PID, "quick", "exploration")
    sp, fails, counts, _ = part1(R)
    core.close_pool()
    rel = regroup([f for f in fails if f[1].get("class") == c.get("class") or not c.get("class")])
    for sig, case, det in rel[:10]:
        print("signature:", sig)
        print("case:", case)
        print("detail:", det)
    if not rel:
        print("class", c.get("class"), "conforms to the specification on every configuration")
    return 1 if rel else 0

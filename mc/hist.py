"""History explorer (DESIGN §3.H): breadth-first over operation sequences on
real objects.

A *state* is the event history that reaches it.  `build(spec, hist)` replays
the history on a FRESH real object; the invariant (observation of the n-th
operation == observation of the same operation on a brand-new instance, plus
the spec's own invariants) is evaluated after every event.  `canon_state(obj)`
is a deep canonical form of `obj.__dict__` (recursively, including the lexer
and the token stream of a parser) and is used to COUNT distinct object states;
no two histories are ever merged on it - every sequence up to the depth bound
is executed (merging on a hand-written state abstraction would assume exactly
what C12 tests).

A spec is any object with

    name            str
    ops             list of JSON-able operation descriptions
    fresh()         -> a new real object
    apply(obj, i)   -> (observation, keepalive)   # run ops[i] on obj
    invariants(obj, hist, obs, keep) -> [(sig, detail), ...]   # optional extras

Specs are created inside worker processes from (module, factory, args), so
nothing unpicklable crosses a process boundary.
"""
from __future__ import annotations

import importlib
import itertools
import types

from . import core, obs as O


# ---------------------------------------------------------------------------
# deep canonical form of an object's state
# ---------------------------------------------------------------------------
_PRIM = (str, bytes, int, float, bool, type(None), complex)


def canon_state(x, memo=None):
    """Deep canonical form of the mutable state reachable from x.

    Objects are expanded through __dict__ and __slots__ (along the MRO);
    cycles / sharing are rendered as back references numbered in visiting
    order (so aliasing is part of the state), bound methods as (name, owner),
    functions and classes by qualified name."""
    if memo is None:
        memo = {}
    if isinstance(x, _PRIM):
        return x
    k = id(x)
    if k in memo:
        return ("ref", memo[k])
    if isinstance(x, (type, types.FunctionType, types.BuiltinFunctionType)):
        return ("fn", getattr(x, "__module__", "?"), getattr(x, "__qualname__", repr(x)))
    if isinstance(x, types.MethodType):
        return ("method", x.__func__.__qualname__, canon_state(x.__self__, memo))
    if isinstance(x, tuple):  # immutable: sharing is not state
        return ("tuple",) + tuple(canon_state(e, memo) for e in x)
    memo[k] = len(memo)
    if isinstance(x, list):
        return ("list",) + tuple(canon_state(e, memo) for e in x)
    if isinstance(x, dict):
        items = sorted(x.items(), key=lambda kv: repr(kv[0]))
        return ("dict",) + tuple((canon_state(a, memo), canon_state(b, memo)) for a, b in items)
    if isinstance(x, (set, frozenset)):
        return ("set",) + tuple(sorted((canon_state(e, memo) for e in x), key=repr))
    if hasattr(x, "pattern") and hasattr(x, "flags") and hasattr(x, "match"):
        return ("re", x.pattern, x.flags)
    fields = []
    d = getattr(x, "__dict__", None)
    if isinstance(d, dict):
        for name in sorted(d):
            fields.append((name, canon_state(d[name], memo)))
    seen = set()
    for cls in type(x).__mro__:
        sl = cls.__dict__.get("__slots__", ())
        if isinstance(sl, str):
            sl = (sl,)
        for name in sl:
            if name in ("__weakref__", "__dict__") or name in seen:
                continue
            seen.add(name)
            try:
                v = getattr(x, name)
            except AttributeError:
                continue
            fields.append((name, canon_state(v, memo)))
    return ("obj", type(x).__module__ + "." + type(x).__qualname__, tuple(fields))


def state_digest(obj) -> str:
    return O.digest(canon_state(obj))


# ---------------------------------------------------------------------------
# the explorer
# ---------------------------------------------------------------------------
_SPECS = {}


def get_spec(ref):
    """ref = (module, factory, args) -> spec (one instance per process)."""
    ref = (ref[0], ref[1], tuple(ref[2]))
    s = _SPECS.get(ref)
    if s is None:
        mod = importlib.import_module(ref[0])
        s = getattr(mod, ref[1])(*ref[2])
        s._expected = {}
        _SPECS[ref] = s
    return s


def expected(spec, i):
    """Observation of ops[i] on a brand-new instance (the reference)."""
    e = spec._expected.get(i)
    if e is None:
        e = spec.apply(spec.fresh(), i)[0]
        spec._expected[i] = e
    return e


def build(spec, hist, check=True):
    """Replay `hist` (a sequence of op indices) on a fresh real object.
    Returns (obj, observations, keepalives, violations); violations is a list
    of (event index, signature, detail).  The invariant is evaluated after
    every event."""
    obj = spec.fresh()
    obs, keep, viol = [], [], []
    extra = getattr(spec, "invariants", None)
    bad = []
    for n, i in enumerate(hist):
        o, k = spec.apply(obj, i)
        obs.append(o)
        keep.append(k)
        if not check:
            continue
        e = expected(spec, i)
        bad.append(o != e)
        if o != e:
            viol.append((n, f"{spec.name}:reuse:{O.obs_sig(e, o)}", O.obs_detail(e, o)))
        # same operation earlier in this history => equal results (implied by
        # the comparison with a fresh instance unless "fresh" itself is not
        # stable; reported on its own only in that case)
        for m in range(n):
            if hist[m] == i and obs[m] != o and not bad[m] and not bad[n]:
                viol.append((n, f"{spec.name}:same-op-twice:{O.obs_sig(obs[m], o)}",
                             O.obs_detail(obs[m], o)))
                break
        if extra is not None:
            for sig, detail in extra(obj, hist[: n + 1], obs, keep):
                viol.append((n, f"{spec.name}:{sig}", detail))
    return obj, obs, keep, viol


def _explore_prefix(task):
    """All histories that start with `prefix` (inclusive) up to `depth`."""
    ref, prefix, depth = task
    spec = get_spec(ref)
    nops = len(spec.ops)
    prefix = tuple(prefix)
    histories = applied = same_twice = 0
    states = set()
    last_state = {}  # last op -> set of end-state digests (evidence only)
    fails = []
    outcome_kinds = {}
    for extra_len in range(0, depth - len(prefix) + 1):
        for tail in itertools.product(range(nops), repeat=extra_len):
            h = prefix + tail
            if not h:
                continue
            obj, obs, keep, viol = build(spec, h)
            histories += 1
            applied += len(h)
            if h[-1] in h[:-1]:
                same_twice += 1
            d = state_digest(obj)
            states.add(d)
            last_state.setdefault(h[-1], set()).add(d)
            k = obs[-1][0] if obs[-1][0] != "exc" else obs[-1][1]
            outcome_kinds[k] = outcome_kinds.get(k, 0) + 1
            for n, sig, detail in viol:
                # a violation at an earlier event was already reported by the
                # (shorter) history that ends there
                if n == len(h) - 1 and len(fails) < 50:
                    fails.append((sig, {"spec": list(ref), "history": list(h),
                                        "ops": [spec.ops[i] for i in h]}, detail))
    return {
        "histories": histories,
        "applied": applied,
        "same_twice": same_twice,
        "states": states,
        "last_state": last_state,
        "fails": fails,
        "outcome_kinds": outcome_kinds,
    }


def explore(ref, depth, plen=2):
    """All histories of length 1..depth over spec.ops, smallest first.
    Work is partitioned by the first `plen` operations (enumeration index, not
    time) and merged in index order.  Returns a summary dict."""
    spec = get_spec(ref)
    nops = len(spec.ops)
    plen = min(plen, depth)
    tasks = []
    # histories shorter than plen: one task per length-1.. prefix, no extension
    for l in range(1, plen):
        for p in itertools.product(range(nops), repeat=l):
            tasks.append((ref, p, l))
    for p in itertools.product(range(nops), repeat=plen):
        tasks.append((ref, p, depth))
    res = core.pmap(_explore_prefix, tasks)
    out = {"histories": 0, "applied": 0, "same_twice": 0, "states": set(),
           "last_state": {}, "fails": [], "outcome_kinds": {}}
    for r in res:
        out["histories"] += r["histories"]
        out["applied"] += r["applied"]
        out["same_twice"] += r["same_twice"]
        out["states"] |= r["states"]
        for k, v in r["last_state"].items():
            out["last_state"].setdefault(k, set()).update(v)
        out["fails"].extend(r["fails"])
        for k, v in r["outcome_kinds"].items():
            out["outcome_kinds"][k] = out["outcome_kinds"].get(k, 0) + v
    # smallest-first so that the first recorded case per signature is minimal
    out["fails"].sort(key=lambda f: (len(f[1]["history"]), f[1]["history"]))
    out["expected_distinct"] = len({O.digest(expected(spec, i)) for i in range(nops)})
    out["nops"] = nops
    return out


# ---------------------------------------------------------------------------
# self check of the engine on a toy object with a planted history dependence
# ---------------------------------------------------------------------------
class _ToySpec:
    """Accumulator whose `put(v)` forgets to reset a flag when leaky=True."""

    def __init__(self, leaky):
        self.name = "toy-leaky" if leaky else "toy-clean"
        self.leaky = leaky
        self.ops = [{"put": 0}, {"put": 1}, {"put": 2}]

    def fresh(self):
        class Toy:
            def __init__(self):
                self.seen_two = False
                self.last = None

        return Toy()

    def apply(self, obj, i):
        v = self.ops[i]["put"]
        if not self.leaky:
            obj.seen_two = False
        if v == 2:
            obj.seen_two = True
        obj.last = v
        return ("text", f"{v}:{obj.seen_two}"), None


def toy_spec(leaky):
    return _ToySpec(bool(leaky))


def selfcheck():
    """The engine must (a) stay silent on a history-independent toy, (b) find
    the planted dependence in the leaky toy with a minimal history of length
    2, (c) give identical observations when one history is replayed twice."""
    clean = _explore_prefix((("mc.hist", "toy_spec", (0,)), (), 3))
    leaky = _explore_prefix((("mc.hist", "toy_spec", (1,)), (), 3))
    ok = clean["histories"] == 3 + 9 + 27 and not clean["fails"]
    ok = ok and leaky["fails"] and min(len(f[1]["history"]) for f in leaky["fails"]) == 2
    s = get_spec(("mc.hist", "toy_spec", (1,)))
    a = build(s, (2, 0, 1))
    b = build(s, (2, 0, 1))
    ok = ok and a[1] == b[1] and state_digest(a[0]) == state_digest(b[0])
    return bool(ok)

"""C09 - tokenisation is lossless, longest-match and position-exact.

(a') every keyword look-alike identifier (case variants of every keyword,
    keyword+suffix, prefix+keyword, underscore variants) alone and next to
    every vocabulary token, as a plain identifier and as a typedef name;

(a) every ordered pair of the full vocabulary x separators (incl. the empty
    one; where the concatenation re-lexes differently the expectation is the
    reference lexer's re-tokenisation), triples over a ~40-token vocabulary;
(b) every pair x every gap x 5 directive forms (two in sequence: thorough);
(c) type_lookup_func answering True for `T` only (TYPEID vs ID), with a
    never-true control run;
(d) CharEx: every string <= L over a 20-character alphabet with a recording
    error callback, model-free invariants.

Model = models/lexref.py (token classes, longest match) + mc/layout.py
(offsets, columns, logical file/line).  Every model behaviour is replayed on
the real CLexer and compared token by token.
"""
from __future__ import annotations

import itertools

from mc import core, layout
from pycparser import c_lexer, c_parser  # noqa: F401  (imported before the pool forks)
from mc.lexrun import run_lexer, line_starts
from models import lexref, lexvocab

PID = "C09"
FILENAME = "in.c"

# directive forms: (kind, ...) -> built by _mk_directive; `k` = 0/1 selects
# distinct numbers / names for the first / second directive of a sequence
FORMS = ["line-kw-file", "marker-file-flags", "marker-bare", "pragma-text", "pragma-bare",
         "marker-file-flags-tabs"]
# pragma lines with trailing blanks (rendered plain only, not in every shape)
TRAILING_FORMS = ["pragma-text-trailing", "pragma-blanks-only"]


# directive forms with an unusual file name: "name:<style>:<index into
# lexvocab.DIRECTIVE_FILE_NAMES>", styles: line / line-flags / marker / marker-flags
NAME_STYLES = ["line", "line-flags", "marker", "marker-flags"]
NAME_FORMS = ["name:%s:%d" % (st, i) for i in range(len(lexvocab.DIRECTIVE_FILE_NAMES))
              for st in NAME_STYLES]


def _mk_directive(form, k=0, indent="", hash_gap=None):
    if form.startswith("name:"):
        _, style, idx = form.split(":")
        return layout.line_directive(60 + 100 * k, lexvocab.DIRECTIVE_FILE_NAMES[int(idx)],
                                     (1, 3) if style.endswith("flags") else (),
                                     keyword=style.startswith("line"), indent=indent, hash_gap=hash_gap)
    if form == "line-kw-file":
        return layout.line_directive(40 + 100 * k, "f%d.h" % k, keyword=True, indent=indent,
                                     hash_gap=hash_gap)
    if form == "marker-file-flags":
        return layout.line_directive(7 + 10 * k, "d/g%d.h" % k, (1, 3), keyword=False, indent=indent,
                                     hash_gap=hash_gap)
    if form == "marker-file-flags-tabs":
        return layout.line_directive(7 + 10 * k, "d/g%d.h" % k, (1, 3), keyword=False, indent=indent,
                                     field_sep="\t", hash_gap=hash_gap)
    if form == "marker-bare":
        return layout.line_directive(90 + 100 * k, keyword=False, indent=indent, hash_gap=hash_gap)
    if form == "pragma-text":
        return layout.pragma_directive("omp x(%d)" % k, indent=indent, hash_gap=hash_gap or "")
    if form == "pragma-text-trailing":
        return layout.pragma_directive("omp x(%d)" % k, indent=indent, hash_gap=hash_gap or "",
                                       text_gap="  ", trailing=" \t ")
    if form == "pragma-blanks-only":
        return layout.pragma_directive(None, indent=indent, hash_gap=hash_gap or "", trailing=" \t")
    if form == "pragma-bare":
        return layout.pragma_directive(None, indent=indent, hash_gap=hash_gap or "")
    raise ValueError(form)


# (hash gap, indentation) variants every directive form is also rendered with
DIRECTIVE_SHAPES = [("  ", ""), ("\t", ""), (None, " \t")]


def _lookup(mode):
    if mode == "T":
        return lexvocab.is_type
    if mode == "variants":
        return lexvocab.is_type_variants
    return None


def _build(case):
    dirs = {}
    for spec in case.get("directives", []):
        g, form, k, indent = spec[:4]
        dirs.setdefault(g, []).append(_mk_directive(form, k, indent, spec[4] if len(spec) > 4 else None))
    return layout.lay_out(case["tokens"], case["seps"], dirs, filename=FILENAME,
                          paste="keep", end_newline=case.get("end_newline", True),
                          is_type=_lookup(case.get("lookup", "T")))


def _prev_kind(lay, i):
    if i == 0:
        # what precedes the first token in the text?
        return "directive" if lay.directive_lines and lay.directive_lines[0][0] <= lay.stream[0].line and \
            lay.stream[0].origin == "token" and lay.stream[0].line > 1 else "start"
    p = lay.stream[i - 1]
    cur = lay.stream[i]
    for ln, d in lay.directive_lines:
        if p.line <= ln < cur.line and d.kind == "line":
            return "line-directive"
    if p.origin != "token":
        return "pragma"
    return "newline" if cur.line > p.line else "token"


def check_case(case):
    """-> (list of (sig, detail), info dict)."""
    is_type = _lookup(case.get("lookup", "T"))
    lay = _build(case)
    text = lay.text
    r = run_lexer(text, FILENAME, is_type)
    info = {"ntok": len(r.toks), "pasted": False, "three_valued": False,
            "types": None, "key": hash((text, case.get("lookup", "T")))}
    info["text"] = text
    fails = []
    if r.exc is not None:
        # an exception escaping the lexer: it neither finished nor reported
        return [("lexer:exception:" + r.exc,
                 f"{text!r}: {r.exc_repr} after {len(r.toks)} tokens")], info
    if not r.terminated:
        fails.append(("no-termination", f"{r.calls} token() calls on {len(text)} characters"))
    pasted = any(t.pasted for t in lay.toks)
    info["pasted"] = pasted
    if pasted:
        # expectation = the reference lexer's re-tokenisation of each chunk
        exp = []
        definite = True
        for first, ctext, idxs in lay.chunks:
            items = lexref.scan(ctext, is_type)
            for it in items:
                if it.verdict != lexref.ACCEPT:
                    definite = False
                exp.append((it.type, it.value, first.lline, first.col + it.start, first.lfile))
        if not definite:
            info["three_valued"] = True
            ls = line_starts(text)
            toks = [(t[0], t[1], ls[t[2] - 1] + t[3] - 1) for t in r.toks]
            errs = [ls[e[1] - 1] + e[2] - 1 for e in r.errs]
            for sig, det in lexref.judge(text, toks, errs, is_type):
                fails.append((sig, det))
            return fails, info
        kinds = None
    else:
        exp = layout.expected_tokens(lay, is_type)
        kinds = lay
    info["types"] = tuple(e[0] for e in exp)
    got = r.toks
    if got != exp:
        for i in range(max(len(got), len(exp))):
            e = exp[i] if i < len(exp) else None
            g = got[i] if i < len(got) else None
            if e == g:
                continue
            if e is None:
                sig = "end:extra-token"
            elif g is None:
                sig = f"{e[0]}:missing"
            elif g[0] != e[0]:
                sig = f"{e[0]}:type"
            elif g[1] != e[1]:
                sig = f"{e[0]}:value"
            else:
                clause = "line" if g[2] != e[2] else "column" if g[3] != e[3] else "file"
                after = _prev_kind(kinds, i) if kinds is not None else "pasted"
                sig = f"pos:{clause}@after-{after}"
            if e is not None and e[0] == "PPPRAGMA" and text.endswith("pragma") and i == len(exp) - 1 \
                    and g is not None and g[0] == "PPHASH":
                # separately signed: a bare `#pragma` that ends the text
                # without a newline (a source file must end in a newline,
                # C99 5.1.1.2, so this is at the edge of the property)
                sig = "PPPRAGMA:bare-at-eof-without-newline"
            fails.append((sig, f"token #{i}: reference {e!r} lexer {g!r}"))
            break
    if r.errs:
        fails.append(("spurious-error", f"well-formed text, lexer reported {r.errs[0]!r}"))
    if r.final_filename != lay.final_file:
        fails.append(("pos:file@end-of-input",
                      f"filename after end of input {r.final_filename!r}, model {lay.final_file!r}"))
    if fails and any(str(d[1]).startswith("name:") and
                     int(d[1].split(":")[2]) == lexvocab.NAME_ENDING_IN_ESCAPED_QUOTE
                     for d in case.get("directives", [])):
        # separately signed: a directive file name whose last character is an
        # escaped quote ("a\"")
        fails = [("pos:file:name-ending-in-escaped-quote", fails[0][1])]
    return fails, info


# ---------------------------------------------------------------------------
# (a) (b) (c) workers
# ---------------------------------------------------------------------------
def _cases_for_pair(a, b, seps, dir_mode, both_edges):
    for s in seps:
        yield {"tokens": [a, b], "seps": ["", s, ""]}
        if both_edges and s:
            yield {"tokens": [a, b], "seps": [s, s, s]}
    for g in range(3):
        for f in FORMS + TRAILING_FORMS:
            yield {"tokens": [a, b], "seps": ["", " ", ""], "directives": [[g, f, 0, ""]]}
            if g == 2:
                yield {"tokens": [a, b], "seps": ["", " ", ""], "directives": [[g, f, 0, ""]],
                       "end_newline": False}
            if f in TRAILING_FORMS:
                continue
            for hg, ind in DIRECTIVE_SHAPES:
                yield {"tokens": [a, b], "seps": ["", " ", ""], "directives": [[g, f, 0, ind, hg]]}
            if dir_mode == "thorough":
                yield {"tokens": [a, b], "seps": [" ", "\n", "\t"], "directives": [[g, f, 0, "  "]]}
                yield {"tokens": [a, b], "seps": ["\n \n", " \n\t\n", "\n  \n "],
                       "directives": [[g, f, 0, ""]]}
                for f2 in FORMS:
                    yield {"tokens": [a, b], "seps": ["", " ", ""],
                           "directives": [[g, f, 0, ""], [g, f2, 1, ""]]}


def _run_cases(cases, acc):
    for case in cases:
        fails, info = check_case(case)
        acc["n"] += 1
        acc["model_tokens"] += info["ntok"]
        acc["keys"].add(info["key"])
        if info["pasted"]:
            acc["pasted"] += 1
        if info["three_valued"]:
            acc["three_valued"] += 1
        if info["types"] is not None:
            acc["outcomes"].add(hash(info["types"]))
            acc["types"].update(info["types"])
        if "directives" in case:
            acc["with_directive"] += 1
        for sig, det in fails:
            if len(acc["fails"]) < 40 or sig not in acc["sigs"]:
                acc["fails"].append((sig, dict(case, text=info.get("text")), det))
            acc["sigs"].add(sig)
            acc["nfail"] += 1


def _new_acc():
    return {"n": 0, "model_tokens": 0, "pasted": 0, "three_valued": 0, "with_directive": 0,
            "outcomes": set(), "types": set(), "fails": [], "sigs": set(), "nfail": 0,
            "keys": set()}


def _fin_acc(acc, s0):
    acc["ref_chars"] = lexref.STATS["chars"] - s0[0]
    acc["ref_items"] = lexref.STATS["items"] - s0[1]
    del acc["sigs"]
    acc["distinct"] = len(acc.pop("keys"))  # tasks differ in their first token
    return acc


def _pair_work(task):
    firsts, tier = task
    acc = _new_acc()
    s0 = (lexref.STATS["chars"], lexref.STATS["items"])
    seps = lexvocab.SEPARATORS_QUICK if tier == "quick" else lexvocab.SEPARATORS_THOROUGH
    idents = set(lexvocab.IDENTS + lexvocab.TYPEDEF_NAMES)
    for a in firsts:
        for b in lexvocab.FULL:
            _run_cases(_cases_for_pair(a, b, seps, tier, tier != "quick"), acc)
            if a in idents or b in idents:
                # (c) control: the same pair with a lookup that never says yes
                for s in seps:
                    _run_cases([{"tokens": [a, b], "seps": ["", s, ""], "lookup": "never"}], acc)
        # pragma lines as members of the token stream (every shape: hash gap,
        # indentation, bare) next to every vocabulary token
        for P in lexvocab.PRAGMA_TOKENS:
            for s in seps:
                _run_cases([{"tokens": [a, P], "seps": ["", s, ""]},
                            {"tokens": [P, a], "seps": ["", s, ""]},
                            {"tokens": [a, P], "seps": [s, s, s], "end_newline": False}], acc)
            for b in lexvocab.TRIPLE:
                _run_cases(({"tokens": [a, P, b], "seps": ["", s, s, ""]}
                            for s in lexvocab.SEPARATORS_TRIPLE), acc)
    return _fin_acc(acc, s0)


def _kwvar_work(task):
    """Keyword look-alikes (case variants, keyword+suffix, prefix+keyword): each
    alone and next to every vocabulary token on either side, with every
    separator (the empty one pastes), as plain identifiers and registered as
    typedef names."""
    firsts, tier = task
    acc = _new_acc()
    s0 = (lexref.STATS["chars"], lexref.STATS["items"])
    seps = lexvocab.SEPARATORS_QUICK if tier == "quick" else lexvocab.SEPARATORS_THOROUGH
    for v in firsts:
        for lk in ("T", "variants"):
            _run_cases(({"tokens": [v], "seps": [s, s], "lookup": lk} for s in seps), acc)
            _run_cases([{"tokens": [v], "seps": ["", ""], "lookup": lk,
                         "directives": [[g, f, 0, ""]]} for g in (0, 1) for f in FORMS], acc)
            pair_seps = seps[:4] if tier == "quick" else seps
            for b in lexvocab.FULL:
                _run_cases(({"tokens": t, "seps": ["", s, ""], "lookup": lk}
                            for s in pair_seps for t in ([v, b], [b, v])), acc)
    return _fin_acc(acc, s0)


def _name_work(task):
    """#line directives / linemarkers whose file name contains escaped quotes,
    escaped backslashes, blanks: every vocabulary token before and after the
    directive, every gap, with and without flags, with and without a final
    newline; thorough: every token x the triple vocabulary."""
    firsts, tier = task
    acc = _new_acc()
    s0 = (lexref.STATS["chars"], lexref.STATS["items"])
    n = len(lexvocab.FULL)
    for a in firsts:
        i = lexvocab.FULL.index(a)
        others = [lexvocab.FULL[(i + 1) % n]] + (lexvocab.TRIPLE if tier != "quick" else [])
        for b in others:
            for f in NAME_FORMS:
                _run_cases(({"tokens": [a, b], "seps": ["", " ", ""], "directives": [[g, f, 0, ""]]}
                            for g in range(3)), acc)
                _run_cases([{"tokens": [a, b], "seps": ["", " ", ""], "directives": [[2, f, 0, ""]],
                             "end_newline": False},
                            {"tokens": [a, b], "seps": [" ", "\n", "\t"],
                             "directives": [[1, f, 0, " \t", "\t"], [1, "marker-bare", 1, ""]]}], acc)
    return _fin_acc(acc, s0)


def _triple_work(task):
    firsts = task
    acc = _new_acc()
    s0 = (lexref.STATS["chars"], lexref.STATS["items"])
    S = lexvocab.SEPARATORS_TRIPLE
    for a in firsts:
        for b in lexvocab.TRIPLE:
            for c in lexvocab.TRIPLE:
                _run_cases(({"tokens": [a, b, c], "seps": ["", s1, s2, ""]}
                            for s1 in S for s2 in S), acc)
    return _fin_acc(acc, s0)


# ---------------------------------------------------------------------------
# (b') what directly follows the directive keyword
# ---------------------------------------------------------------------------
# `#pragma` / `#line` are directives exactly when the keyword does not run on
# into a longer word: every ASCII character class directly after the keyword,
# with and without blanks between '#' and the keyword, alone and between
# ordinary token lines.  '$' (an identifier character only by pycparser's
# extension) and a `#line` that ends the input without a newline are left out:
# the property does not decide them.
BOUNDARY_HASH_PARTS = ["#", "# ", "#\t", "  #", " \t# \t"]
BOUNDARY_CHARS = [chr(c) for c in range(0x20, 0x7F) if chr(c) != "$"] + ["\t", "\n", "EOF"]
BOUNDARY_FRAMES = [("", "\n"), ("", "\n  b\n"), ("a\n", "\n"), ("a\n", "\n  b\n"), ("a\n", "\n\n b")]


def boundary_case(kw, hashpart, c, frame):
    """-> (text, expected tokens [(type, value, line, col, file)], kind) with
    kind 'tokens' (compare everything), 'error' (a malformed #line: an error
    report and no token from the line; later line numbers are not judged) or
    None (case does not exist)."""
    pre, post = frame
    if c == "EOF":
        if kw == "line":
            return None
        post = ""
        tail = ""
    elif c == "\n":
        tail = ""
    elif c in " \t":
        tail = c + ("a 1" if kw == "pragma" else '40 "f.h"')
    else:
        tail = c + "a 1"
    line = hashpart + kw + tail
    text = pre + line + post
    ln = 2 if pre else 1
    exp = []
    if pre:
        exp.append(("ID", "a", 1, 1, FILENAME))
    kwcol = len(hashpart) + 1
    kind = "tokens"
    nline, nfile = ln + 1, FILENAME
    idchar = c not in ("EOF", "\n") and c in lexref.IDCHAR
    if idchar:
        # the keyword runs on into a longer word: a lone '#' and ordinary tokens
        exp.append(("PPHASH", "#", ln, hashpart.index("#") + 1, FILENAME))
        for it in lexref.scan(kw + tail):
            exp.append((it.type, it.value, ln, kwcol + it.start, FILENAME))
    elif kw == "pragma":
        exp.append(("PPPRAGMA", "pragma", ln, kwcol, FILENAME))
        body = tail.lstrip(" \t")
        if body:
            exp.append(("PPPRAGMASTR", body, ln, kwcol + 6 + len(tail) - len(body), FILENAME))
    elif c in (" ", "\t"):
        nline, nfile = 40, "f.h"       # a well-formed #line 40 "f.h"
    else:
        kind = "error"                 # `#line(`, `#line"f"`, `#line` + newline
    if "b" in post:
        at = post.index("b")
        nlb = post.count("\n", 0, at)      # newlines between the directive and b (>= 1)
        exp.append(("ID", "b", nline + nlb - 1, at - post.rindex("\n", 0, at), nfile))
    return text, exp, kind


def check_boundary(kw, hashpart, c, frame):
    bc = boundary_case(kw, hashpart, c, frame)
    if bc is None:
        return None
    text, exp, kind = bc
    r = run_lexer(text, FILENAME, None)
    if r.exc is not None:
        return [("lexer:exception:" + r.exc, f"{text!r}: {r.exc_repr}")], text
    fails = []
    if not r.terminated:
        fails.append(("no-termination", f"{r.calls} token() calls on {len(text)} characters"))
    cls = "idchar" if (c not in ("EOF", "\n") and c in lexref.IDCHAR) else \
        "blank" if c in (" ", "\t") else "end" if c in ("\n", "EOF") else "punctuator"
    if kind == "error":
        if not r.errs:
            fails.append((f"line-directive:malformed-not-reported@{cls}",
                          f"{text!r}: no error report; tokens {r.toks!r}"))
        got = [(t[0], t[1], t[3]) for t in r.toks]
        want = [(t[0], t[1], t[3]) for t in exp]
        if got != want:
            fails.append((f"line-directive:malformed-tokenised@{cls}",
                          f"{text!r}: reference {want!r} lexer {got!r}"))
        return fails, text
    if r.toks != exp:
        i = 0
        while i < min(len(exp), len(r.toks)) and exp[i] == r.toks[i]:
            i += 1
        e = exp[i] if i < len(exp) else None
        g = r.toks[i] if i < len(r.toks) else None
        what = "type" if (e and g and e[0] != g[0]) else "value" if (e and g and e[1] != g[1]) \
            else "position" if (e and g) else "missing" if g is None else "extra-token"
        fails.append((f"{e[0] if e else 'end'}:{what}@after-{kw}-keyword-{cls}",
                      f"{text!r}: token #{i}: reference {e!r} lexer {g!r}"))
    if r.errs:
        fails.append((f"spurious-error@after-{kw}-keyword-{cls}", f"{text!r}: {r.errs[0]!r}"))
    return fails, text


def _boundary_work(task):
    kw, hashpart = task
    n = 0
    fails = []
    sigs = set()
    classes = set()
    for c in BOUNDARY_CHARS:
        for frame in BOUNDARY_FRAMES:
            res = check_boundary(kw, hashpart, c, frame)
            if res is None:
                continue
            n += 1
            fl, text = res
            for sig, det in fl:
                if sig not in sigs or len(fails) < 20:
                    fails.append((sig, {"kind": "boundary", "kw": kw, "hashpart": hashpart, "char": c,
                                        "frame": list(frame), "text": text}, det))
                sigs.add(sig)
    return n, fails


# ---------------------------------------------------------------------------
# (d) CharEx: model-free invariants
# ---------------------------------------------------------------------------
def _hash_kind(text, p):
    """What the '#' at p starts: 'line' (# followed by blanks and a digit, or
    by the word line), 'pragma' (the word pragma), else 'hash' (a lone #)."""
    q = p + 1
    n = len(text)
    while q < n and text[q] in " \t":
        q += 1
    if q < n and text[q] in lexref.DIGIT:
        return "line"
    for w in ("line", "pragma"):
        if text.startswith(w, q) and text[q + len(w):q + len(w) + 1] not in tuple(lexref.IDCHAR):
            return w
    return "hash"


def char_invariants(text):
    """-> (list of (sig, detail), nontrivial?)."""
    r = run_lexer(text, "")
    fails = []
    if r.exc is not None:
        return [("lexer:exception:" + r.exc, f"{text!r}: {r.exc_repr} after {len(r.toks)} tokens")], True
    if not r.terminated:
        fails.append(("chars:no-termination", f"{r.calls} token() calls on {len(text)} characters"))
        return fails, True
    ls = line_starts(text)
    n = len(text)
    cur = 0       # end offset of the previous token
    delta = 0     # claimed line = physical line + delta
    evs = r.events + [("end",)]
    i = 0
    while i < len(evs):
        ev = evs[i]
        # walk over blanks and directive lines from cur to the next non-blank
        rebased = False
        p = cur
        while p < n:
            ch = text[p]
            if ch in " \t\n":
                p += 1
            elif ch == "#":
                kind = _hash_kind(text, p)
                if kind == "line":
                    # a line directive / linemarker: skipped to its end, may
                    # re-base the line numbers (what it must do: part (b))
                    q = text.find("\n", p)
                    p = n if q < 0 else q + 1
                    rebased = True
                elif kind == "pragma":
                    p += 1
                    while p < n and text[p] in " \t":
                        p += 1
                    break
                else:
                    break
            else:
                break
        if ev[0] == "err":
            # first gap holding an error report: the report must sit in the gap
            # on a non-blank character; nothing is evaluated beyond it
            if not rebased:
                _, msg, line, col = ev
                pl = line - delta
                if not (1 <= pl <= len(ls)):
                    fails.append(("chars:error-position", f"error {ev!r}: no such line"))
                else:
                    off = ls[pl - 1] + col - 1
                    if not (cur <= off < n) or text[off] in " \t\n":
                        fails.append(("chars:error-position",
                                      f"error {ev!r} -> offset {off}, gap starts at {cur}"))
            return fails, True
        if ev[0] == "end":
            if p < n:
                fails.append(("chars:silently-skipped",
                              f"{text[p:]!r} at offset {p} neither tokenised nor reported"))
            return fails, bool(r.toks)
        _, typ, val, line, col, _fn = ev
        pl = p and (text.count("\n", 0, p) + 1) or 1
        want_col = p - ls[pl - 1] + 1
        if p >= n or text[p:p + len(val)] != val or not val:
            # where does the lexer say it is?
            cl = line - delta
            claimed = ls[cl - 1] + col - 1 if 1 <= cl <= len(ls) else None
            if claimed is not None and claimed < cur and text[claimed:claimed + len(val)] == val:
                fails.append(("chars:position-not-increasing", f"token {ev[1:5]!r} before offset {cur}"))
            elif claimed is not None and claimed > p and text[claimed:claimed + len(val)] == val:
                fails.append(("chars:silently-skipped",
                              f"{text[p:claimed]!r} at offset {p} skipped without a report before {ev[1:5]!r}"))
            else:
                fails.append(("chars:spelling", f"token {ev[1:5]!r}: text at offset {p} is {text[p:p + len(val)]!r}"))
            return fails, True
        if col != want_col:
            fails.append(("chars:column", f"token {ev[1:5]!r} starts at column {want_col}"))
            return fails, True
        if rebased:
            delta = line - pl
        elif line != pl + delta:
            fails.append(("chars:line", f"token {ev[1:5]!r} is on line {pl + delta}"))
            return fails, True
        cur = p + len(val)
        if typ == "PPPRAGMASTR" or (typ == "PPPRAGMA" and not (
                i + 1 < len(evs) and evs[i + 1][0] == "tok" and evs[i + 1][1] == "PPPRAGMASTR")):
            # the rest of a pragma line belongs to the pragma
            q = text.find("\n", cur)
            rest = text[cur:(n if q < 0 else q)]
            if rest.strip(" \t"):
                fails.append(("chars:silently-skipped", f"pragma line tail {rest!r} dropped"))
                return fails, True
        i += 1
    return fails, True


def _char_work(task):
    firsts, L = task
    n = nontrivial = 0
    fails = []
    seen = set()
    hist = {"tokens": 0, "errors": 0}
    A = lexvocab.CHAREX
    for fc in firsts:
        for l in range(0, L):
            for rest in itertools.product(A, repeat=l):
                s = fc + "".join(rest)
                fl, nt = char_invariants(s)
                n += 1
                nontrivial += 1 if nt else 0
                for sig, det in fl:
                    if sig not in seen or len(fails) < 20:
                        fails.append((sig, {"kind": "chars", "text": s}, det))
                    seen.add(sig)
    return n, nontrivial, fails


# ---------------------------------------------------------------------------
def run(tier):
    R = core.Run(PID, tier, "model_checking")
    quick = tier == "quick"
    tot = _new_acc()
    del tot["sigs"], tot["keys"]
    tot["ref_chars"] = tot["ref_items"] = tot["distinct"] = 0

    def merge(acc):
        for k in ("n", "model_tokens", "pasted", "three_valued", "with_directive",
                  "ref_chars", "ref_items", "nfail", "distinct"):
            tot[k] += acc[k]
        tot["outcomes"] |= acc["outcomes"]
        tot["types"] |= acc["types"]
        R.fail_many(acc["fails"])

    # every vocabulary entry must be one well-formed token for the reference
    for sp in lexvocab.FULL + lexvocab.TRIPLE:
        lexref.token_type(sp, lexvocab.is_type)
    for sp in lexvocab.KEYWORD_VARIANTS:
        if lexref.token_type(sp, lexvocab.is_type) != "ID" or \
                lexref.token_type(sp, lexvocab.is_type_variants) != "TYPEID":
            raise SystemExit(f"keyword look-alike {sp!r} is not an identifier for the reference")

    pair_tasks = [([a], tier) for a in lexvocab.FULL]
    for acc in core.pmap(_pair_work, pair_tasks, chunksize=1):
        merge(acc)
    pairs_n = tot["n"]
    for acc in core.pmap(_kwvar_work, [([v], tier) for v in lexvocab.KEYWORD_VARIANTS], chunksize=4):
        merge(acc)
    kwvar_n = tot["n"] - pairs_n
    before = tot["n"]
    for acc in core.pmap(_name_work, [([a], tier) for a in lexvocab.FULL], chunksize=4):
        merge(acc)
    names_n = tot["n"] - before
    kwvar_n += names_n          # (kept out of the plain pair count below)
    if names_n < len(lexvocab.FULL) * len(NAME_FORMS) * 5:
        R.fail("vacuous:directive-file-names", {"cases": names_n}, "file-name directive part not explored")
    R.set("directive_file_name_cases", names_n)
    pairs_n = tot["n"]
    triples_n = 0
    if not quick:
        for acc in core.pmap(_triple_work, [[a] for a in lexvocab.TRIPLE], chunksize=1):
            merge(acc)
        triples_n = tot["n"] - pairs_n

    boundary_n = 0
    for n, fl in core.pmap(_boundary_work, [(kw, h) for kw in ("pragma", "line") for h in BOUNDARY_HASH_PARTS],
                           chunksize=1):
        boundary_n += n
        R.fail_many(fl)
    if boundary_n < 2 * len(BOUNDARY_HASH_PARTS) * 90 * len(BOUNDARY_FRAMES):
        R.fail("vacuous:keyword-boundary", {"cases": boundary_n}, "directive keyword boundary part not explored")

    L = 4 if quick else 5
    ctasks = [([c], L) for c in lexvocab.CHAREX] + [([""], 1)]
    chars_n = chars_nt = 0
    for n, nt, fl in core.pmap(_char_work, ctasks, chunksize=1):
        chars_n += n
        chars_nt += nt
        R.fail_many(fl)

    # vacuity guards
    V = len(lexvocab.FULL)
    if pairs_n - kwvar_n < V * V * (7 + 18 * 4 + 6) or chars_n < 20 ** L:
        R.fail("vacuous:too-few-cases", {"pairs": pairs_n, "chars": chars_n}, "explored less than the stated bound")
    if len(tot["types"]) < 100 or "TYPEID" not in tot["types"] or "PPPRAGMASTR" not in tot["types"]:
        R.fail("vacuous:comparison-dead", {"types": sorted(tot["types"])}, "too few distinct expected token types")
    if tot["pasted"] == 0 or tot["with_directive"] == 0:
        R.fail("vacuous:no-paste-or-directive", {}, "no pasted / directive case generated")

    R.set("states", tot["ref_items"] + tot["model_tokens"])
    R.set("transitions", tot["ref_chars"] + tot["model_tokens"])
    R.set("traces_validated_against_impl", tot["n"] + chars_n + boundary_n)
    R.set("evaluations", tot["n"] + chars_n + boundary_n)
    R.set("directive_keyword_boundary_cases", boundary_n)
    R.set("distinct_nontrivial", tot["distinct"] + chars_nt)
    R.set("distinct_outcomes", len(tot["outcomes"]))
    R.set("distinct_expected_token_types", len(tot["types"]))
    R.set("pair_cases", pairs_n - kwvar_n)
    R.set("keyword_lookalike_cases", kwvar_n - names_n)
    R.set("keyword_lookalikes", len(lexvocab.KEYWORD_VARIANTS))
    if kwvar_n - names_n < len(lexvocab.KEYWORD_VARIANTS) * len(lexvocab.FULL) * 2 * 2 * 4:
        R.fail("vacuous:keyword-lookalikes", {"cases": kwvar_n}, "keyword look-alike part not explored")
    R.set("triple_cases", triples_n)
    R.set("cases_with_directives", tot["with_directive"])
    R.set("cases_pasted_retokenised", tot["pasted"])
    R.set("cases_pasted_three_valued", tot["three_valued"])
    R.set("char_strings", chars_n)
    R.set("char_strings_nonblank", chars_nt)
    R.set("bounds", {
        "vocabulary": V, "separators": lexvocab.SEPARATORS_QUICK if quick else lexvocab.SEPARATORS_THOROUGH,
        "directive_forms": FORMS + TRAILING_FORMS,
        "directive_file_names": lexvocab.DIRECTIVE_FILE_NAMES, "directive_file_name_styles": NAME_STYLES, "directive_sequences": 1 if quick else 2,
        "directive_shapes(hash_gap,indent)": [["", ""]] + [[h, i] for h, i in DIRECTIVE_SHAPES],
        "pragma_tokens_in_stream": lexvocab.PRAGMA_TOKENS,
        "triple_vocabulary": 0 if quick else len(lexvocab.TRIPLE),
        "triple_separators": lexvocab.SEPARATORS_TRIPLE, "chars<=": L,
        "char_alphabet": lexvocab.CHAREX})
    R.assumptions += [
        "positions after the first lexer error report are outside the property (an unmatched quote swallows its newline uncounted)",
        "a '#' for which no PPHASH token is returned starts a directive line (CharEx part); what directive lines do is checked by the layout part",
        "pasted concatenations the reference classifies DONT-CARE / MUST-REJECT are judged three-valued, not token by token",
    ]
    samples = [
        {"tokens": [">>", "="], "seps": ["", "", ""]},
        {"tokens": ["u8", "'c'"], "seps": ["", "", ""]},
        {"tokens": ["T", "a"], "seps": ["", "\n", ""], "directives": [[1, "line-kw-file", 0, ""]]},
        {"tokens": ["1.5", "."], "seps": ["", "\t", ""], "directives": [[2, "pragma-text", 0, ""]], "end_newline": False},
        {"kind": "chars", "text": "'a\n1"},
        {"tokens": ["09.5", "#\tpragma pack(1)", "a"], "seps": ["", " ", " ", ""]},
        {"tokens": ["a", "b"], "seps": ["", " ", ""], "directives": [[1, "pragma-text", 0, "", "\t"]]},
    ]
    return R.finish(
        samples,
        "every ordered pair of the full vocabulary x separators (empty one included), x every gap x "
        "directive forms, with a T-only and a never type lookup; triples (thorough); every character "
        "string <= L. states = reference-lexer items + layout position records, transitions = characters "
        "consumed by the reference scanner + tokens placed by the layout model, traces = lexer runs "
        "compared. non-trivial = distinct (text, lookup) layout cases (>= 2 expected tokens each) + character strings on "
        "which the lexer returned a token or reported an error",
    )


def replay(rep):
    c = rep["case"]
    if c.get("kind") == "boundary":
        fl, text = check_boundary(c["kw"], c["hashpart"], c["char"], tuple(c["frame"]))
        print("input:", repr(text))
        print("model:", boundary_case(c["kw"], c["hashpart"], c["char"], tuple(c["frame"]))[1:])
        rr = run_lexer(text, FILENAME)
        print("lexer:", rr.events, "exception:", rr.exc)
    elif c.get("kind") == "chars":
        fl, _ = char_invariants(c["text"])
        print("input:", repr(c["text"]))
        r = run_lexer(c["text"], "")
        print("events:", r.events, "exception:", r.exc, r.exc_repr)
    else:
        fl, info = check_case(c)
        lay = _build(c)
        print("input:", repr(lay.text))
        rr = run_lexer(lay.text, FILENAME, _lookup(c.get("lookup", "T")))
        print("lexer:", rr.events, "exception:", rr.exc, rr.exc_repr)
        if not info["pasted"]:
            print("model:", layout.expected_tokens(lay, _lookup(c.get("lookup", "T"))))
    for sig, det in fl:
        print("FAIL", sig, det)
    print("oracle:", "violated" if fl else "fine")
    return 1 if fl else 0

"""C12 - a parser's result depends only on (text, filename), never on its
history; the same for a reused CLexer after input() and a reused CGenerator
after successful visits; ASTs from different calls share no nodes.

History explorer (mc/hist.py): every sequence of operations up to the depth
bound is replayed on a fresh real object and compared, call by call, with
brand-new instances.
"""
from __future__ import annotations

import itertools

from mc import core, hist, obs as O

PID = "C12"

# ---------------------------------------------------------------------------
# (1) one CParser, operations parse(p_i, f_j)
# ---------------------------------------------------------------------------
# one program per way of leaving state behind
PROGRAMS = [
    ("declares-typedef", "typedef int T; T a;"),
    ("declares-variable-of-same-name", "int T; int y = T * 2;"),
    ("probes-name-implicit-int", "f(void){ T * x; }"),
    ("fails-in-two-nested-scopes-after-typedef", "typedef int T; void f(void){ { T x; x y; } }"),
    ("fails-in-lexer", "typedef char T; int a = 1 @ 2;"),
    ("changes-file-and-line", 'int before;\n#line 100 "inc.h"\ntypedef int U;\nU v;'),
    ("fails-with-pragma-string-pending", "int a\n#pragma keep this pending\n"),
    ("fails-at-eof-inside-struct", "typedef int T; struct S { T a;"),
    ("empty", ""),
    ("k-and-r-definition", "int f(a, T) int a; int T; { return T * a; }"),
    ("result-depends-on-filename", "int a = ;"),
    ("fails-in-scope-shadowing-a-typedef", "typedef int T; int g(void){ int T; { T x; } }"),
]
FILENAMES = ["a.c", "dir/b.h"]


class ParserSpec:
    """variant 'real': CParser(); variant 'control': CParser(lexer=StickyLexer)
    where StickyLexer (harness code, public seams only) keeps the file name of
    its first input() - a planted history dependence the explorer must find."""

    def __init__(self, variant="real"):
        from pycparser.c_parser import CParser
        from pycparser.c_lexer import CLexer

        self.name = "CParser" if variant == "real" else "control-parser"
        self.variant = variant
        self.ops = [{"what": w, "text": t, "filename": f}
                    for (w, t) in PROGRAMS for f in FILENAMES]
        if variant != "real":
            self.ops = [o for o in self.ops if o["what"] in
                        ("declares-typedef", "result-depends-on-filename")]

        class StickyLexer(CLexer):
            _first = None

            def input(self, text, filename=""):
                if self._first is None:
                    self._first = filename
                super().input(text, self._first)

        self._mk = (lambda: CParser()) if variant == "real" else (lambda: CParser(lexer=StickyLexer))

    def fresh(self):
        return self._mk()

    def apply(self, obj, i):
        op = self.ops[i]
        return O.parse_obs(obj, op["text"], op["filename"])

    def invariants(self, obj, h, obs, keep):
        # ASTs returned by different calls share no nodes
        last = keep[-1]
        if last is None:
            return []
        mine = O.node_ids(last)
        out = []
        for m in range(len(keep) - 1):
            if keep[m] is None:
                continue
            if keep[m] is last:
                out.append(("shared-nodes:same-FileAST-object", f"calls {m} and {len(keep)-1} returned the same object"))
                break
            common = mine.keys() & O.node_ids(keep[m]).keys()
            if common:
                cls = sorted({mine[c] for c in common})
                out.append((f"shared-nodes:{cls[0]}", f"calls {m} and {len(keep)-1} share {len(common)} nodes of classes {cls}"))
                break
        return out


def parser_spec(variant="real"):
    return ParserSpec(variant)


# ---------------------------------------------------------------------------
# (2) one CLexer: input(t_i), k x token(), input(t_j), full drain
# ---------------------------------------------------------------------------
LEX_TEXTS = [
    ("pragma-string-pending", "int a;\n#pragma pack ( 1 )\nint b;", "p.c"),
    ("mid-line-directive", 'int x;\n#line 50 "other.h"\nint y;\n  T z;', "l.c"),
    ("errors-with-non-raising-callback", "a @ b $ 'ab\n c \"open\n d", "e.c"),
    ("brace-callbacks", "{ T { a } } }", "b.c"),
    ("many-lines-and-columns", "x\n\n\n   y\tz\n", "m.c"),
    ("bare-and-double-pragma", "#pragma\n#pragma z\n# 7 \"q.c\" 1 3\nfoo", "g.c"),
    ("bad-line-directive-then-tokens", '#line "f.h"\nu\n#line 9\nv', "d.c"),
    ("empty", "", ""),
]


class LexHarness:
    """A CLexer with recording, non-raising callbacks (public constructor)."""

    def __init__(self):
        from pycparser.c_lexer import CLexer

        self.log = []
        self.lex = CLexer(
            error_func=lambda msg, line, col: self.log.append(("error", msg, line, col)),
            on_lbrace_func=lambda: self.log.append(("lbrace",)),
            on_rbrace_func=lambda: self.log.append(("rbrace",)),
            type_lookup_func=self._lookup,
        )

    def _lookup(self, name):
        self.log.append(("lookup", name))
        return name == "T"

    def input(self, i):
        _, text, fn = LEX_TEXTS[i]
        del self.log[:]
        self.lex.input(text, fn)

    def pull(self):
        t = self.lex.token()
        o = None if t is None else (t.type, t.value, t.lineno, t.column)
        return (o, self.lex.filename)

    def drain(self, limit=10_000):
        """Everything observable from here to end of input: tokens with the
        file name in force after each, the callback log, one extra token()
        after the end."""
        toks = []
        for _ in range(limit):
            p = self.pull()
            toks.append(p)
            if p[0] is None:
                break
        else:
            return ("runaway",)
        after = self.pull()
        return ("drain", tuple(toks), tuple(self.log), after)


def _lex_expected():
    exp = []
    for i in range(len(LEX_TEXTS)):
        h = LexHarness()
        h.input(i)
        exp.append(h.drain())
    return exp


def _lex_sig(e, g):
    if g[0] != "drain" or e[0] != "drain":
        return "runaway"
    if [t[0] for t in e[1]] != [t[0] for t in g[1]]:
        et, gt = [t[0] for t in e[1]], [t[0] for t in g[1]]
        for a, b in zip(et, gt):
            if a != b:
                if a is None or b is None or (a[0], a[1]) != (b[0], b[1]):
                    return "tokens"
                if a[2] != b[2]:
                    return "token-line"
                return "token-column"
        return "tokens"
    if [t[1] for t in e[1]] != [t[1] for t in g[1]]:
        return "filename"
    if e[2] != g[2]:
        return "callbacks"
    return "after-end"


def _lex_work(task):
    """All chains input(t_i0), k0 x token(), input(t_i1), k1 x token(), ...,
    input(t_j), drain - for one first text."""
    first, chain = task
    exp = _lex_expected()
    npulls = [len(e[1]) + 1 for e in exp]  # token() calls until None, +1 beyond
    histories = applied = 0
    states = set()
    fails = []
    dirty_kinds = set()
    nt = len(LEX_TEXTS)
    for rest in itertools.product(range(nt), repeat=chain - 1):
        dirty = (first,) + rest[:-1]
        j = rest[-1] if rest else None
        if j is None:
            continue
        for ks in itertools.product(*[range(npulls[i] + 1) for i in dirty]):
            h = LexHarness()
            for i, k in zip(dirty, ks):
                h.input(i)
                for _ in range(k):
                    h.pull()
                applied += 1 + k
            states.add(hist.state_digest(h.lex))
            lx = h.lex
            dirty_kinds.add((getattr(lx, "_pending_tok", None) is not None,
                             getattr(lx, "_filename", None) != LEX_TEXTS[dirty[-1]][2],
                             bool(h.log and any(e[0] == "error" for e in h.log))))
            h.input(j)
            got = h.drain()
            applied += 1 + len(got[1]) if got[0] == "drain" else 1
            histories += 1
            states.add(hist.state_digest(h.lex))
            if got != exp[j]:
                if len(fails) < 20:
                    fails.append((f"CLexer:reuse:{_lex_sig(exp[j], got)}",
                                  {"part": "lexer", "dirty": [[LEX_TEXTS[i][0], k] for i, k in zip(dirty, ks)],
                                   "dirty_idx": [[i, k] for i, k in zip(dirty, ks)], "then": j},
                                  f"expected {str(exp[j])[:200]} got {str(got)[:200]}"))
    return histories, applied, states, fails, dirty_kinds


# ---------------------------------------------------------------------------
# (3) one CGenerator: visit(ast_i)
# ---------------------------------------------------------------------------
GEN_SOURCES = {
    "nested": "void f(int a){ { { int b; } {} } if (a) { a; } else { { a++; } } while (a) {} }",
    "bodies": "struct S { int a; struct { int b; union { char c; } u; } in; } s; enum E { A, B = 2 } e; struct Z {} z;",
    "funcs": "int g(void){ return 1; }\nint h(a, b) int a; char b; { return a + b; }\nstatic void k(void){}",
    "stmts": "int m(int x){ switch (x) { case 1: x++; break; case 2: { x--; } default: ; } for (;;) { if (x) continue; else break; } do x++; while (x); L: return x; }",
}
GEN_ASTS = [
    ("file:nested-compounds", "nested", ""),
    ("file:struct-enum-bodies", "bodies", ""),
    ("file:function-definitions", "funcs", ""),
    ("file:statements", "stmts", ""),
    ("bare:Decl-with-struct-body", "bodies", "ext[0]"),
    ("bare:Struct", "bodies", "ext[0].type.type"),
    ("bare:Enum", "bodies", "ext[1].type.type"),
    ("bare:Compound", "nested", "ext[0].body"),
    ("bare:empty-Compound", "funcs", "ext[2].body"),
    ("bare:FuncDef-K&R", "funcs", "ext[1]"),
    ("bare:Switch", "stmts", "ext[0].body.block_items[0]"),
    ("bare:If-inside-For", "stmts", "ext[0].body.block_items[1].stmt.block_items[0]"),
]


def _resolve(root, path):
    x = root
    if path:
        x = eval("x." + path, {"x": root})  # noqa: S307 - fixed strings above
    return x


class GenSpec:
    def __init__(self, reduce_parentheses=0):
        from pycparser.c_parser import CParser
        from pycparser.c_generator import CGenerator

        self.name = "CGenerator"
        self.rp = bool(reduce_parentheses)
        self._G = CGenerator
        roots = {k: CParser().parse(v, k + ".c") for k, v in GEN_SOURCES.items()}
        self.ops, self.nodes, self.dropped = [], [], []
        for what, src, path in GEN_ASTS:
            node = _resolve(roots[src], path)
            # the property speaks of *successful* visits: an AST that a fresh
            # generator cannot print is not an operation
            if O.visit_obs(CGenerator(reduce_parentheses=self.rp), node)[0] != "text":
                self.dropped.append(what)
                continue
            self.ops.append({"what": what, "source": GEN_SOURCES[src], "path": path,
                             "node": type(node).__name__, "reduce_parentheses": self.rp})
            self.nodes.append(node)

    def fresh(self):
        return self._G(reduce_parentheses=self.rp)

    def apply(self, obj, i):
        return O.visit_obs(obj, self.nodes[i]), None

    def invariants(self, obj, h, obs, keep):
        if obs[-1][0] == "text" and obj.indent_level != 0:
            return [("indent_level!=0", f"indent_level == {obj.indent_level} after a successful top-level visit of {self.ops[h[-1]]['what']}")]
        return []


def gen_spec(rp=0):
    return GenSpec(rp)


# ---------------------------------------------------------------------------
def run(tier):
    R = core.Run(PID, tier, "model_checking")
    quick = tier == "quick"
    core.pool()
    samples = []
    states = set()
    transitions = traces = 0

    if not hist.selfcheck():
        R.fail("harness:history-explorer-selfcheck", {"part": "selfcheck"},
               "the explorer did not find the planted history dependence of the toy object / was not silent on the clean toy / replay not deterministic")

    # (0) positive control on the real parser through public seams only
    ctl = hist.explore(("checks.c12", "parser_spec", ("control",)), 2, plen=1)
    ctl_sigs = sorted({f[0] for f in ctl["fails"]})
    R.set("control_planted_dependence_signatures", ctl_sigs)
    if not any("coord.file" in s or "message" in s for s in ctl_sigs):
        R.fail("harness:control-not-detected", {"part": "control"},
               "a lexer that keeps its first file name was not flagged by the history explorer")

    # (1) CParser
    depth = 3 if quick else 4
    ref = ("checks.c12", "parser_spec", ("real",))
    r = hist.explore(ref, depth, plen=2)
    R.fail_many(r["fails"])
    states |= {"P" + s for s in r["states"]}
    transitions += r["applied"]
    traces += r["histories"]
    R.set("parser_histories", r["histories"])
    R.set("parser_operations", r["nops"])
    R.set("parser_distinct_end_states", len(r["states"]))
    R.set("parser_distinct_expected_results", r["expected_distinct"])
    R.set("parser_outcome_kinds_of_last_call", r["outcome_kinds"])
    R.set("parser_same_op_twice_histories", r["same_twice"])
    # evidence only (not a verdict): is the end state a function of the last op?
    R.set("parser_end_state_determined_by_last_op",
          all(len(v) == 1 for v in r["last_state"].values()))
    spec = hist.get_spec(ref)
    # how dirty were the states that parse() started from (evidence, tolerant
    # of renamed private attributes)
    dirty = {}
    for i, op in enumerate(spec.ops):
        if op["filename"] != FILENAMES[0]:
            continue
        p = spec.fresh()
        spec.apply(p, i)
        cl = getattr(p, "clex", None)
        ts = getattr(p, "_tokens", None)
        dirty[op["what"]] = {
            "open_scopes": len(getattr(p, "_scope_stack", [None])) - 1,
            "names_left": sorted(k for s in getattr(p, "_scope_stack", []) for k in s),
            "pending_token": getattr(cl, "_pending_tok", None) is not None,
            "lexer_filename": getattr(cl, "filename", None),
            "unread_buffered_tokens": (len(getattr(ts, "_buffer", [])) - getattr(ts, "_index", 0)) if ts is not None else None,
        }
    R.set("parser_state_left_behind_per_program", dirty)
    if r["histories"] < sum(len(spec.ops) ** l for l in range(1, depth + 1)):
        R.fail("harness:parser-histories-missing", {"part": "parser"}, str(r["histories"]))
    if r["expected_distinct"] < len(spec.ops) - 2 or len(r["states"]) < 8 or len(r["outcome_kinds"]) < 2:
        R.fail("harness:parser-part-vacuous", {"part": "parser"},
               f"distinct expected={r['expected_distinct']} states={len(r['states'])}")
    samples += [[spec.ops[i]["what"] + "@" + spec.ops[i]["filename"] for i in h]
                for h in ((0, 4, 1), (7, 2), (12, 13, 12), (6, 0), (21, 5, 4))]

    # (2) CLexer
    chain = 2 if quick else 3
    lres = core.pmap(_lex_work, [(i, chain) for i in range(len(LEX_TEXTS))], chunksize=1)
    lex_hist = lex_applied = 0
    lex_states = set()
    dirty_kinds = set()
    for hcount, ap, st, fl, dk in lres:
        lex_hist += hcount
        lex_applied += ap
        lex_states |= st
        dirty_kinds |= dk
        R.fail_many(fl)
    states |= {"L" + s for s in lex_states}
    transitions += lex_applied
    traces += lex_hist
    R.set("lexer_histories", lex_hist)
    R.set("lexer_distinct_states", len(lex_states))
    R.set("lexer_dirty_kinds(pending,filename-changed,after-error)", sorted(map(list, dirty_kinds)))
    exp = _lex_expected()
    if lex_hist < len(LEX_TEXTS) ** 2 * 3 or len({O.digest(e) for e in exp}) < len(LEX_TEXTS) \
            or not any(k[0] for k in dirty_kinds) or not any(k[1] for k in dirty_kinds) \
            or not any(k[2] for k in dirty_kinds):
        R.fail("harness:lexer-part-vacuous", {"part": "lexer"},
               f"histories={lex_hist} dirty kinds={sorted(dirty_kinds)}")
    samples.append({"lexer": [LEX_TEXTS[0][0], 6, LEX_TEXTS[3][0]]})

    # (3) CGenerator
    gdepth = 3 if quick else 4
    gen_hist = 0
    gen_states = set()
    for rp in (0, 1):
        gref = ("checks.c12", "gen_spec", (rp,))
        g = hist.explore(gref, gdepth, plen=2)
        R.fail_many(g["fails"])
        gen_hist += g["histories"]
        transitions += g["applied"]
        traces += g["histories"]
        gen_states |= g["states"]
        gs = hist.get_spec(gref)
        if gs.dropped:
            R.notes.append(f"generator ASTs dropped (fresh visit fails, rp={rp}): {gs.dropped}")
        if len(gs.ops) < 8 or g["expected_distinct"] < len(gs.ops) or g["outcome_kinds"].get("text", 0) != g["histories"]:
            R.fail("harness:generator-part-vacuous", {"part": "generator"},
                   f"ops={len(gs.ops)} distinct texts={g['expected_distinct']} kinds={g['outcome_kinds']}")
        R.set(f"generator_operations_rp{rp}", len(gs.ops))
    states |= {"G" + s for s in gen_states}
    R.set("generator_histories", gen_hist)
    R.set("generator_distinct_states", len(gen_states))
    samples.append({"generator": [GEN_ASTS[7][0], GEN_ASTS[0][0], GEN_ASTS[4][0]]})

    R.set("states", len(states))
    R.set("transitions", transitions)
    R.set("traces_validated_against_impl", traces)
    R.set("evaluations", traces + ctl["histories"])
    # non-trivial = histories of length >= 2 (the compared call really ran on a used object)
    nontriv = (r["histories"] - r["nops"]) + lex_hist + (gen_hist - sum(
        len(hist.get_spec(("checks.c12", "gen_spec", (rp,))).ops) for rp in (0, 1)))
    R.set("distinct_nontrivial", nontriv)
    R.set("distinct_outcomes", r["expected_distinct"])
    R.set("bounds", {"parser_sequences<=": depth, "parser_ops": r["nops"],
                     "lexer_chain_inputs": chain, "lexer_texts": len(LEX_TEXTS),
                     "generator_sequences<=": gdepth, "generator_asts": len(GEN_ASTS),
                     "generator_variants": ["reduce_parentheses=False", "reduce_parentheses=True"]})
    R.assumptions += [
        "histories consist of the listed operations only (12 programs x 2 file names; 8 lexer texts; 12 ASTs)",
        "generator histories contain successful visits only, as the property states",
    ]
    return R.finish(
        samples,
        "every sequence <= depth of parse(p_i, f_j) on one CParser, every input(t_i)/k token() calls/"
        "input(t_j)/drain chain on one CLexer, every sequence <= depth of visit(ast_i) on one CGenerator; "
        "each history is replayed from scratch on a fresh real object and the n-th observation "
        "(canon AST with coords / exception type+message / token stream+callback log / text) is compared "
        "with a brand-new instance's; node-identity sets of ASTs of different calls must be disjoint; "
        "indent_level must be 0 after each visit. states = distinct deep canonical object states "
        "(obj.__dict__ incl. lexer and token stream) reached, transitions = operations applied, "
        "traces = histories executed. non-trivial = histories in which the compared call ran on an "
        "already used object (length >= 2)",
    )


def replay(rep):
    c = rep["case"]
    part = c.get("part")
    if part == "lexer":
        exp = _lex_expected()
        h = LexHarness()
        for i, k in c["dirty_idx"]:
            h.input(i)
            for _ in range(k):
                h.pull()
        h.input(c["then"])
        got = h.drain()
        print("history:", c["dirty"], "then input", LEX_TEXTS[c["then"]][0])
        print("expected:", exp[c["then"]])
        print("observed:", got)
        return 0 if got == exp[c["then"]] else 1
    if part in ("selfcheck", "control", "parser", "generator"):
        print("harness-level failure; re-run the check")
        return 1
    spec = hist.get_spec(tuple(c["spec"][:2]) + (tuple(c["spec"][2]),))
    h = tuple(c["history"])
    obj, obs, keep, viol = hist.build(spec, h)
    for n, i in enumerate(h):
        e = hist.expected(spec, i)
        print(f"call {n}: {spec.ops[i]}")
        print("   fresh instance:", "FileAST" if e[0] == "ok" else e)
        print("   this instance :", ("FileAST" + ("" if obs[n] == e else " (differs: " + O.obs_detail(e, obs[n]) + ")")) if obs[n][0] == "ok" else obs[n])
    for n, sig, detail in viol:
        print(f"violation at call {n}: {sig}: {detail}")
    return 1 if viol else 0

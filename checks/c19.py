"""C19 - every fake libc header preprocesses and parses via parse_file.

Grid (both tiers): every *.h found by walking utils/fake_libc_include x
{-std=c99, -std=c11, -std=gnu99, -std=gnu11} x both cpp_args forms of
pycparser.parse_file(use_cpp=True):
  list form    cpp_path='cpp', cpp_args=['-I', <dir>, '-std=...']
  string form  cpp_args='-I<dir>' as ONE string (preprocess_file must hand it
               to cpp as one argv element: <dir> is reached through a symlink
               whose name contains a space, so a split string cannot work);
               the dialect flag comes from a two-line wrapper script used as
               cpp_path (`exec cpp -std=... "$@"`).
plus, per dialect and form: all headers in one file in directory order and
reversed; and the typedef sweep: all headers, then `NAME v_i;` for every
typedef name that an own small reader finds in _fake_typedefs.h (and any other
*_fake_typedefs.h): every v_i must be a Decl of type NAME and NAME must be a
Typedef of the AST.  Thorough adds every ordered pair of headers (c99, list).
Oracle: parse_file returns a FileAST that is canon_coord-equal to
CParser().parse(<output of the same cpp command run by hand>, filename).
"""
from __future__ import annotations

import contextlib
import os
import re
import shutil
import stat
import subprocess
import sys
import tempfile

from mc import core

PID = "C19"
STDS = ["c99", "c11", "gnu99", "gnu11"]
FORMS = ["list", "string"]
SPACED = "fake libc include"


def fake_dir():
    return os.path.join(core.REPO, "utils", "fake_libc_include")


def headers():
    """Relative paths of all *.h below the fake include directory, in
    directory order (top directory first, names sorted, then sub-directories)."""
    root = fake_dir()
    out = []
    for dp, dns, fns in os.walk(root):
        dns.sort()
        for fn in sorted(fns):
            if fn.endswith(".h"):
                out.append(os.path.relpath(os.path.join(dp, fn), root))
    return out


def typedef_names(path):
    """Own small reader: [(name, condition-macro-or-None)] for every
    `typedef ... NAME;` of a header (comments removed, brace bodies skipped,
    #ifdef nesting tracked; the file's own include guard is not a condition)."""
    with open(path, encoding="utf-8") as f:
        src = f.read()
    src = re.sub(r"/\*.*?\*/", " ", src, flags=re.S)
    src = re.sub(r"//[^\n]*", " ", src)
    names = []
    conds = []
    stmt = ""
    depth = 0
    first_guard = True
    for line in src.split("\n"):
        s = line.strip()
        if s.startswith("#"):
            m = re.match(r"#\s*(ifdef|ifndef|if|endif|else|elif)\b\s*(.*)", s)
            if m:
                d, rest = m.group(1), m.group(2).strip()
                if d in ("ifdef", "ifndef", "if"):
                    if d == "ifndef" and first_guard and not names:
                        conds.append(None)  # include guard
                    else:
                        conds.append((d, rest))
                    first_guard = False
                elif d == "endif":
                    conds.pop()
            continue
        for ch in line + "\n":
            if ch == "{":
                depth += 1
            elif ch == "}":
                depth -= 1
            if ch == ";" and depth == 0:
                st = stmt.strip()
                stmt = ""
                if re.match(r"typedef\b", st):
                    st = re.sub(r"\{.*\}", " ", st, flags=re.S)
                    m = re.search(r"\(\s*\*\s*([A-Za-z_]\w*)\s*\)\s*\(", st)
                    if m:
                        nm = m.group(1)
                    else:
                        ids = re.findall(r"[A-Za-z_]\w*", re.sub(r"\[[^\]]*\]", " ", st))
                        nm = ids[-1]
                    active = [c for c in conds if c is not None]
                    names.append((nm, active[-1] if active else None))
            else:
                stmt += ch
    return names


def predefined_macros(std):
    r = subprocess.run(["cpp", "-dM", f"-std={std}", "-x", "c", "/dev/null"], capture_output=True, text=True)
    return set(re.findall(r"^#define (\w+)", r.stdout, flags=re.M))


# ---------------------------------------------------------------------------
# scratch directory
# ---------------------------------------------------------------------------
class Scratch:
    def __init__(self):
        self.dir = tempfile.mkdtemp(prefix="verif-c19-")
        self.inc = fake_dir()
        self.spaced = os.path.join(self.dir, SPACED)
        os.symlink(self.inc, self.spaced)
        self.wrappers = {}
        for std in STDS:
            p = os.path.join(self.dir, f"cpp-{std}")
            with open(p, "w") as f:
                f.write(f'#!/bin/sh\nexec cpp -std={std} "$@"\n')
            os.chmod(p, os.stat(p).st_mode | stat.S_IXUSR | stat.S_IXGRP | stat.S_IXOTH)
            self.wrappers[std] = p
        self.n = 0

    def cfile(self, name, hdrs, tail=""):
        p = os.path.join(self.dir, name)
        with open(p, "w") as f:
            f.write("".join(f"#include <{h}>\n" for h in hdrs) + tail)
        return p

    def info(self):
        return {"dir": self.dir, "inc": self.inc, "spaced": self.spaced, "wrappers": self.wrappers}

    def remove(self):
        shutil.rmtree(self.dir, ignore_errors=True)


@contextlib.contextmanager
def quiet_stderr():
    """cpp writes its diagnostics to our stderr when parse_file runs it."""
    sys.stderr.flush()
    saved = os.dup(2)
    dn = os.open(os.devnull, os.O_WRONLY)
    try:
        os.dup2(dn, 2)
        yield
    finally:
        os.dup2(saved, 2)
        os.close(saved)
        os.close(dn)


def anonymise(msg, sc):
    return (str(msg).replace(sc["spaced"], "<inc>").replace(sc["inc"], "<inc>")
            .replace(os.path.realpath(sc["inc"]), "<inc>").replace(sc["dir"], "<tmp>"))


def run_cell(cfile, std, form, sc, reference=True):
    """-> (problem or None, info).  problem = (signature, detail).
    reference=False (ordered pairs): the by-hand pipeline is run only when
    parse_file raised, to name the root cause; the oracle is 'returns a FileAST'."""
    from pycparser import parse_file

    if form == "list":
        cpp_path, cpp_args = "cpp", ["-I", sc["inc"], f"-std={std}"]
        manual = ["cpp", "-I", sc["inc"], f"-std={std}", cfile]
    else:
        cpp_path, cpp_args = sc["wrappers"][std], "-I" + sc["spaced"]
        manual = ["cpp", f"-std={std}", "-I" + sc["spaced"], cfile]
    try:
        with quiet_stderr():
            ast = parse_file(cfile, use_cpp=True, cpp_path=cpp_path, cpp_args=cpp_args)
        got = ("ok", ast)
    except RecursionError:
        got = ("rec",)
    except Exception as e:  # noqa
        got = ("exc", type(e).__name__, anonymise(e, sc))
    if got[0] == "ok" and not reference:
        info = {"ast": got[1] if hasattr(got[1], "ext") else None}
        if info["ast"] is None:
            return (f"parse_file:returned-{type(got[1]).__name__}", f"-std={std} {form} form"), info
        return None, info
    r = subprocess.run(manual, capture_output=True, text=True)
    if r.returncode != 0:
        ref = ("cpp-failed", anonymise(r.stderr.strip(), sc))
    else:
        ref = core.parse_outcome(r.stdout, cfile)
    info = {"ast": got[1] if got[0] == "ok" and hasattr(got[1], "ext") else None}
    if got[0] != "ok":
        how = got[1] if len(got) > 1 else got[0]
        if ref[0] == "ok":
            # by hand the same command line works: the defect is in parse_file / preprocess_file
            return (f"differs-from-manual:{form}:parse_file-raises-{how}",
                    f"-std={std}: {got[-1][:300]} (the same cpp command run by hand parses)"), info
        if ref[0] == "cpp-failed":
            first = next((l for l in ref[1].split("\n") if "error" in l), ref[1].split("\n")[0])
            first = re.sub(r":\d+:\d+:", ":", first)
            first = re.sub(r"<tmp>/[\w.]+", "<tmp>/FILE", first)
            return (f"cpp-failed:{first[:120]}", f"-std={std} {form} form: {ref[1][:300]}"), info
        if ref[0] == "perr":
            m = re.sub(r":\d+(:\d+)?: ", ": ", anonymise(ref[1], sc))
            m = re.sub(r"<tmp>/[\w.]+", "<tmp>/FILE", m)
            return (f"parse-error:{m[:120]}", f"-std={std} {form} form: {got[-1][:300]}"), info
        return (f"parser-failure:{ref[1] if len(ref) > 1 else ref[0]}", f"-std={std} {form} form: {got[-1][:300]}"), info
    if not hasattr(ast, "ext"):
        return (f"parse_file:returned-{type(ast).__name__}", f"-std={std} {form} form"), info
    if ref[0] != "ok":
        return (f"differs-from-manual:{form}:outcome", f"-std={std}: parse_file returned an AST, by hand: {str(ref[1:])[:200]}"), info
    a, b = core.canon(ast), core.canon(ref[1])
    if a != b:
        return (f"differs-from-manual:{form}:{core.diff_sig(a, b)}",
                f"-std={std}: first difference {anonymise(core.first_diff(a, b), sc)}"[:400]), info
    a, b = core.canon_coord(ast), core.canon_coord(ref[1])
    if a != b:
        return (f"differs-from-manual:{form}:coordinates",
                f"-std={std}: same structure, first coordinate difference {anonymise(core.first_diff(a, b), sc)}"[:400]), info
    return None, info


def _grid_work(task):
    sc, cells = task
    fails = []
    n = 0
    nontrivial = 0
    hashes = set()
    ext_counts = {}
    compared = 0
    for hdrs, cfile, std, form, ref in cells:
        prob, info = run_cell(cfile, std, form, sc, reference=ref)
        n += 1
        compared += ref and info["ast"] is not None
        if info["ast"] is not None:
            k = len(info["ast"].ext)
            if k:
                nontrivial += 1
            hashes.add(hash(core.canon(info["ast"])))
            if len(hdrs) == 1 and std == "c99" and form == "list":
                ext_counts[hdrs[0]] = k
        if prob:
            fails.append((prob[0], {"headers": hdrs, "std": std, "form": form}, prob[1]))
    return n, fails, nontrivial, hashes, ext_counts, compared


def sweep_problems(ast, names, std_macros):
    """The typedef sweep's own oracle on the AST parse_file returned."""
    from pycparser import c_ast

    probs = []
    tdefs = {e.name for e in ast.ext if isinstance(e, c_ast.Typedef)}
    decls = {e.name: e for e in ast.ext if isinstance(e, c_ast.Decl)}
    used = 0
    for i, (nm, cond) in enumerate(names):
        if cond is not None and not condition_holds(cond, std_macros):
            continue
        used += 1
        d = decls.get(f"v_{i}")
        ok = (
            d is not None
            and isinstance(d.type, c_ast.TypeDecl)
            and isinstance(d.type.type, c_ast.IdentifierType)
            and d.type.type.names == [nm]
        )
        if not ok:
            probs.append((f"typedef-not-usable:{nm}", f"`{nm} v_{i};` did not become a Decl of type {nm}"))
        if nm not in tdefs:
            probs.append((f"typedef-missing:{nm}", f"no Typedef named {nm} in the AST after including every header"))
    return probs, used


def condition_holds(cond, macros):
    d, rest = cond
    if d == "ifdef":
        return rest.split()[0] in macros
    if d == "ifndef":
        return rest.split()[0] not in macros
    return False  # '#if expr': not understood -> the name is not required


def sweep_tail(names, std_macros):
    return "".join(
        f"{nm} v_{i};\n" for i, (nm, cond) in enumerate(names)
        if cond is None or condition_holds(cond, std_macros)
    )


def _sweep_work(task):
    sc, hdrs, cfile, std, form, names, macros = task
    prob, info = run_cell(cfile, std, form, sc)
    fails = []
    used = 0
    if prob:
        fails.append((prob[0], {"headers": "all", "std": std, "form": form, "typedef_sweep": True}, prob[1]))
    if info["ast"] is not None:
        ps, used = sweep_problems(info["ast"], names, set(macros))
        for sig, det in ps:
            fails.append((sig, {"headers": "all", "std": std, "form": form, "typedef_sweep": True}, f"-std={std} {form} form: {det}"))
    return fails, used, info["ast"] is not None


def typedef_files():
    root = fake_dir()
    return [h for h in headers() if os.path.basename(h).endswith("_fake_typedefs.h")]


def run(tier):
    R = core.Run(PID, tier, "exploration")
    hs = headers()
    S = Scratch()
    try:
        return _run(R, tier, hs, S)
    finally:
        core.close_pool()
        S.remove()


def _run(R, tier, hs, S):
    sc = S.info()
    names = []
    per_file = {}
    for tf in typedef_files():
        got = typedef_names(os.path.join(fake_dir(), tf))
        per_file[tf] = len(got)
        names += got
    # de-duplicate names, keep order
    seen = set()
    names = [(n, c) for n, c in names if not (n in seen or seen.add(n))]
    macros = {std: sorted(predefined_macros(std)) for std in STDS}

    # ---- grid ----------------------------------------------------------------
    cells = []
    for i, h in enumerate(hs):
        cf = S.cfile(f"one_{i}.c", [h])
        for std in STDS:
            for form in FORMS:
                cells.append(([h], cf, std, form, True))
    all_fwd = S.cfile("all_forward.c", hs)
    all_rev = S.cfile("all_reversed.c", list(reversed(hs)))
    multi = []
    for std in STDS:
        for form in FORMS:
            multi.append((["<all, directory order>"], all_fwd, std, form, True))
            multi.append((["<all, reversed>"], all_rev, std, form, True))
    pairs = []
    if tier == "thorough":
        for i, a in enumerate(hs):
            for j, b in enumerate(hs):
                cf = S.cfile(f"pair_{i}_{j}.c", [a, b])
                pairs.append(([a, b], cf, "c99", "list", False))
    n_total = 0
    nontriv = 0
    hashes = set()
    ext_counts = {}
    tasks = [(sc, ch) for ch in core.chunked(cells, 12)] + [(sc, [m]) for m in multi] + [(sc, ch) for ch in core.chunked(pairs, 40)]
    compared = 0
    for n, fl, nt, hsh, ec, cmpd in core.pmap(_grid_work, tasks, chunksize=1):
        n_total += n
        compared += cmpd
        nontriv += nt
        hashes |= hsh
        ext_counts.update(ec)
        R.fail_many(fl)

    # ---- typedef sweep -------------------------------------------------------
    sweep_tasks = []
    for std in STDS:
        cf = S.cfile(f"sweep_{std}.c", hs, sweep_tail(names, set(macros[std])))
        for form in FORMS:
            sweep_tasks.append((sc, hs, cf, std, form, names, macros[std]))
    used_names = []
    sweeps_ok = 0
    for fl, used, ok in core.pmap(_sweep_work, sweep_tasks, chunksize=1):
        R.fail_many(fl)
        if ok:
            used_names.append(used)
        sweeps_ok += ok
    n_total += len(sweep_tasks)

    # ---- vacuity guards ------------------------------------------------------
    main_td = per_file.get("_fake_typedefs.h", 0)
    if (len(hs) < 100 or main_td < 150 or n_total < len(hs) * len(STDS) * len(FORMS)
            or nontriv < len(hs) * 4 or len(hashes) < 3 or (sweeps_ok and min(used_names) < 150)):
        R.fail("vacuous", {"headers": len(hs), "typedef_names": main_td, "runs": n_total,
                           "nontrivial": nontriv, "distinct_asts": len(hashes), "used_names": used_names},
               "too few headers / typedef names / runs, or the ASTs are empty")
    R.set("evaluations", n_total)
    R.set("distinct_nontrivial", nontriv)
    R.set("states", len(hs))
    R.set("transitions", n_total)
    R.set("traces_validated_against_impl", compared + sweeps_ok)
    R.set("distinct_outcomes", len(hashes))
    R.set("results_compared_with_by_hand_pipeline", compared + sweeps_ok)
    R.set("headers_found", len(hs))
    R.set("typedef_names_per_file", per_file)
    R.set("typedef_names_distinct", len(names))
    R.set("typedef_names_conditional", [f"{n} ({c[0]} {c[1]})" for n, c in names if c])
    R.set("typedef_names_declared_per_sweep", used_names)
    R.set("single_header_cells", len(cells))
    R.set("all_in_one_cells", len(multi))
    R.set("ordered_pair_cells", len(pairs))
    R.set("typedef_sweep_cells", len(sweep_tasks))
    R.set("headers_with_empty_ast", sorted(h for h, k in ext_counts.items() if k == 0))
    R.set("top_level_nodes_per_header_min_max", [min(ext_counts.values() or [0]), max(ext_counts.values() or [0])])
    R.set("bounds", {"headers": len(hs), "dialects": STDS, "cpp_args_forms": FORMS,
                     "orders": ["single", "all forward", "all reversed"] + (["all ordered pairs (c99, list)"] if pairs else []),
                     "string_form_include_dir": "symlink whose name contains a space"})
    R.assumptions += [
        "cpp is the system's GNU cpp; without -nostdinc, as the property states (-I only)",
        "typedef names guarded by #ifdef M are required only under dialects where cpp predefines M",
    ]
    samples = [{"header": c[0][0], "std": c[2], "form": c[3]} for c in core.pick_samples(cells, 9)]
    samples += [{"headers": m[0][0], "std": m[2], "form": m[3]} for m in multi[:2]]
    samples += [{"typedef_sweep": f"{names[0][0]} v_0; ... {names[-1][0]} v_{len(names) - 1};"}]
    return R.finish(
        samples,
        "every header x 4 dialects x 2 cpp_args forms through parse_file(use_cpp=True); all headers in one file "
        "forward and reversed x 4 x 2; the typedef sweep x 4 x 2; thorough: every ordered pair of headers (c99, list form; "
        "oracle: returns a FileAST). Each grid / all-in-one / sweep result compared (canon with coordinates) with "
        "CParser().parse(output of the same cpp command run by hand). non-trivial = runs whose AST has at least "
        "one top-level node",
    )


def replay(rep):
    c = rep["case"]
    hs = headers()
    S = Scratch()
    try:
        sc = S.info()
        if c.get("typedef_sweep"):
            names = []
            for tf in typedef_files():
                names += typedef_names(os.path.join(fake_dir(), tf))
            seen = set()
            names = [(n, k) for n, k in names if not (n in seen or seen.add(n))]
            macros = predefined_macros(c["std"])
            cf = S.cfile("sweep.c", hs, sweep_tail(names, macros))
            fails, used, ok = _sweep_work((sc, hs, cf, c["std"], c["form"], names, sorted(macros)))
            for f in fails[:10]:
                print("problem:", f[0], "|", f[2])
            if not fails:
                print(f"typedef sweep fine: {used} names declared and found, -std={c['std']} {c['form']} form")
            return 1 if fails else 0
        sel = c["headers"]
        if sel == ["<all, directory order>"]:
            sel = hs
        elif sel == ["<all, reversed>"]:
            sel = list(reversed(hs))
        cf = S.cfile("replay.c", sel)
        prob, info = run_cell(cf, c["std"], c["form"], sc)
        print("file:", "".join(f"#include <{h}> " for h in sel[:6]), "..." if len(sel) > 6 else "")
        print("dialect:", c["std"], "cpp_args form:", c["form"])
        print("problem:", prob or "none")
        return 1 if prob else 0
    finally:
        S.remove()

"""C16 - parsing work grows linearly with input size (no backtracking blow-up).

Family sweep (engine F): every construct of a catalogue is scaled by
repetition or by nesting, and every ordered pair of nestable constructs is
nested alternately; the cost of a member is the deterministic number of Python
call events inside c_parser.py / c_lexer.py / ast_transforms.py during
parse().  Oracle on every window (k, 2k, 4k) of the doubling sizes of a family,
smallest window first:

    s(4k) - s(2k) <= 2.5 * (s(2k) - s(k))

(exact for affine cost, tolerant of a log factor, violated by quadratic (4x)
and exponential growth whatever the constant terms).  The lexer's regular
expressions do their work inside `re`, invisible to call counts, so adversarial
literal families are timed on the stand-alone lexer (the only clock in the
framework; CPU time of the process where that is less than the wall time, so
that waiting for a CPU on a loaded machine is not counted): t(n) <= 50 x the
linear extrapolation from n = 2^10, and < 2 s.
"""
from __future__ import annotations

from mc import core
from mc import family as F

PID = "C16"
FACTOR_NUM, FACTOR_DEN = 5, 2  # 2.5
STEP_CAP = 1_000_000  # call events; no linear family of the sweep gets near
REPORT_CAP = 6_000_000  # for the exact numbers quoted in a failure report
LEX_SIZES = [1 << e for e in range(10, 15)]
LEX_MARGIN = 50.0
LEX_ABS = 2.0
LEX_FLOOR = 0.005  # a run below 5 ms is never "slow", whatever the ratio
ESC_STEP_FACTOR = 6.0  # four more repetitions may not cost 6 x more (2^n: 16 x) ...
ESC_STEP_FLOOR = 0.002  # ... once a run takes 2 ms (a 300-character literal: ~0.05 ms)
ESC_NOISE = 0.00005
GROWTH_MIN = 0.020  # growth-ratio rule: both times at least 20 ms ...
GROWTH_MAX = 8.0  # ... then t(4n) <= 8 t(n)  (linear 4, n log n < 5, quadratic 16)
# (parse() of a big file builds an AST of tens of MB; before the timings moved
# into the time server - see mc/family.py - first-touch page faults made such
# runs read 8-14 x for 4 x the input and this limit had to be looser)
GROWTH_MAX_BIG_AST = 8.0
CLEAR_EXCESS = 10.0  # a measurement this far over its limit is not contention


# ---------------------------------------------------------------------------
# one family
# ---------------------------------------------------------------------------
def family_text(kind, key, size):
    if kind == "rep":
        return F.repeat_text(key, size)
    if kind == "nest":
        seq = F.single_seq(key, size)
        return None if seq is None else F.nest_text(seq)
    mode, seq = F.pair_seq(key[0], key[1], size)
    return None if seq is None else F.nest_text(seq)


def family_name(kind, key):
    return f"{kind}:{key}" if kind != "pair" else f"pair:{key[0]}({key[1]}(..))"


def oracle_violated(s1, s2, s3):
    """s3 - s2 > 2.5 (s2 - s1), in integers."""
    return FACTOR_DEN * (s3 - s2) > FACTOR_NUM * (s2 - s1)


COUNTERS = ("parser-calls", "all-python-calls", "calls-of-one-function", "bulk-container-items",
            "lines-of-one-function")
LINE_EXCESS_MIN = 100  # executed lines over the allowance before one function's count matters
# Looking a name up walks the open scopes innermost-first: O(open scopes) per
# identifier by design, so a family that puts one identifier into each of k
# nested brace scopes executes k^2/2 iterations of that 3-line loop (struct
# nesting to depth 32: ~1500 lines of 60000).  Not exempted: recorded as an
# open known finding narrowed to the families it was seen on (lead).
LINE_EXEMPT = set()
FUNC_EXCESS_MIN = 24  # calls over the oracle's allowance before one function's count matters
BULK_EXCESS_MIN = 64  # container items over the allowance


def eval_family(kind, key, sizes, exact=False):
    """Measure the family at `sizes` (each the double of the one before),
    smallest first, with two counters - call events inside the three parser
    files ('parser-calls') and function entries of all Python code running
    during parse() ('all-python-calls': c_ast constructors, and any library
    code doing work on the parser's behalf) - and apply the oracle to every
    window of three, for each counter.  From the third member on, a run is
    given the oracle's bounds as its caps: exceeding one *is* the violation,
    so a blow-up is caught at the smallest window that shows it and costs no
    more than 3.5 x the member before.
    -> dict(status, sizes/steps/totals/outcomes of what was measured, window,
    decided_by)."""
    steps, totals, outs = [], [], []
    runs = 0
    res = {"kind": kind, "key": key, "status": "linear", "window": None, "decided_by": None}
    detail = kind != "pair"  # single-construct families: per-function counts and bulk items too
    # the 360 generated compound-literal constructs differ only in which
    # '( type-name )' site they enter: call counters yes, bulk / line passes no
    generated = kind == "nest" and key.startswith("cl/") and key not in F.CL_PAIRED
    per_funcs = []
    for i, size in enumerate(sizes):
        text = family_text(kind, key, size)
        pf = {} if detail else None
        per_funcs.append(pf)
        if i < 2:
            o, s, t = F.measure_both(text, cap=STEP_CAP, cap_total=2 * STEP_CAP, per_func=pf)
            runs += 1
            if i == 0 and o == "ok":
                # both counters must be functions of the text: once more; for
                # the single-construct families the reference observer
                # (sys.setprofile) must also see the same number of parser calls
                runs += 1
                if F.measure_both(text, cap=STEP_CAP, cap_total=2 * STEP_CAP) != (o, s, t):
                    res["status"] = "nondeterministic"
                if kind != "pair" and not (kind == "nest" and key.startswith("cl/")):
                    runs += 1
                    if F.measure(text, cap=STEP_CAP, method="setprofile") != (o, s):
                        res["status"] = "nondeterministic"
        else:
            b1 = steps[-1] + (FACTOR_NUM * (steps[-1] - steps[-2])) // FACTOR_DEN
            b2 = totals[-1] + (FACTOR_NUM * (totals[-1] - totals[-2])) // FACTOR_DEN
            o, s, t = F.measure_both(text, cap=b1, cap_total=b2, per_func=pf)
            runs += 1
            if o == "cap":
                res["decided_by"] = COUNTERS[0] if s > b1 else COUNTERS[1]
                if exact:
                    o, s, t = F.measure_both(text, cap=REPORT_CAP, cap_total=REPORT_CAP)
                    runs += 1
                    if o == "ok":
                        o = "ok>bound"
        steps.append(s)
        totals.append(t)
        outs.append(o if o in ("ok", "cap", "rec", "ok>bound") else o[:90])
        if res["status"] == "nondeterministic":
            break
        if o == "rec":
            res["status"] = "rec"
            break
        if o == "cap" and i < 2:
            res["status"] = "cap-undecided"
            break
        if o in ("cap", "ok>bound"):
            res["status"] = "superlinear"
            res["window"] = i - 2
            break
        if o != "ok":
            res["status"] = "rejected"
            break
        if i >= 1 and not steps[-2] < steps[-1]:
            res["status"] = "flat"
            break
        if i >= 2:
            for name, ser in zip(COUNTERS, (steps, totals)):
                if oracle_violated(ser[-3], ser[-2], ser[-1]):
                    res["status"] = "superlinear"
                    res["window"] = i - 2
                    res["decided_by"] = name
                    break
            if res["status"] == "superlinear":
                break
    if detail and res["status"] == "linear" and len(steps) >= 3:
        # (3) every single function's own call count must obey the oracle: a
        # quadratic term with a small coefficient (one extra call per name per
        # closing brace, one extra walk per nesting level) disappears in the
        # total at these sizes but not in the count of the function that loops
        worst = None
        for w in range(len(steps) - 2):
            a, b, c = per_funcs[w], per_funcs[w + 1], per_funcs[w + 2]
            for fn, c3 in c.items():
                c1, c2 = a.get(fn, 0), b.get(fn, 0)
                excess = (c3 - c2) - FACTOR_NUM * (c2 - c1) / FACTOR_DEN
                if excess >= FUNC_EXCESS_MIN and (worst is None or excess > worst[0]):
                    worst = (excess, fn, w, [c1, c2, c3])
            if worst:
                break
        if worst:
            res.update(status="superlinear", window=worst[2], decided_by=COUNTERS[2],
                       function=worst[1], function_calls=worst[3], origin=[worst[1]])
    if detail and not generated and res["status"] == "linear" and len(steps) >= 3:
        # (4) items moved by builtin bulk container operations called from
        # parser code (dict(x), x.copy(), x.clear(), sorted(x), ...)
        bulk, callers = [], []
        for size in sizes[: len(steps)]:
            o, n, by = F.measure_bulk(family_text(kind, key, size))
            runs += 1
            bulk.append(n)
            callers.append(by)
        res["bulk"] = bulk
        for w in range(len(bulk) - 2):
            c1, c2, c3 = bulk[w : w + 3]
            if (c3 - c2) - FACTOR_NUM * (c2 - c1) / FACTOR_DEN >= BULK_EXCESS_MIN:
                by = callers[w + 2]
                top = max(by, key=lambda k: by[k]) if by else "?"
                res.update(status="superlinear", window=w, decided_by=COUNTERS[3], origin=[top],
                           bulk_callers=by)
                break
    if detail and not generated and res["status"] == "linear" and len(steps) >= 3:
        # (5) source lines executed per parser function (LINE events): sees a
        # loop that calls nothing - e.g. re-walking a declarator chain for
        # every suffix
        per_lines = []
        for size in sizes[: len(steps)]:
            o, ln = F.measure_lines(family_text(kind, key, size))
            runs += 1
            per_lines.append(ln)
        worst = None
        for w in range(len(per_lines) - 2):
            a, b, c = per_lines[w : w + 3]
            for fn, c3 in c.items():
                if fn in LINE_EXEMPT:
                    continue
                c1, c2 = a.get(fn, 0), b.get(fn, 0)
                excess = (c3 - c2) - FACTOR_NUM * (c2 - c1) / FACTOR_DEN
                if excess >= LINE_EXCESS_MIN and (worst is None or excess > worst[0]):
                    worst = (excess, fn, w, [c1, c2, c3])
            if worst:
                break
        if worst:
            res.update(status="superlinear", window=worst[2], decided_by=COUNTERS[4],
                       function=worst[1], function_lines=worst[3], origin=[worst[1]])
    res["sizes"] = list(sizes[: len(steps)])
    res["steps"] = steps
    res["totals"] = totals
    res["outcomes"] = outs
    res["runs"] = runs
    res["accepted"] = sum(1 for o in outs if o in ("ok", "ok>bound"))
    return res


def origin_functions(kind, key, sizes3, decided_by=None):
    """Which function is the blow-up's origin?  A parser function whose
    *incoming* call count stays within the oracle while the work it causes does
    not: the calls it makes itself (a loop or scan whose length grows with the
    input, e.g. a declarator-name lookahead) or - when only the all-python
    counter fired - the calls made by library code running directly on its
    behalf (e.g. a deep copy).  Exponential re-parsing has no such function
    (everything below the re-parse point is entered super-linearly often) ->
    []."""
    per = []
    for size in sizes3:
        e = {}
        text = family_text(kind, key, size)
        if decided_by == COUNTERS[1]:
            o = F.foreign_attribution(text, e, cap=REPORT_CAP)
        else:
            o, _ = F.measure(text, cap=REPORT_CAP, edges=e)
        if o != "ok":
            return []
        per.append(e)
    cands = []
    for fn in per[2]["out"]:
        o = [p["out"].get(fn, 0) for p in per]
        i = [p["in"].get(fn, 0) for p in per]
        if oracle_violated(*o) and not oracle_violated(*i):
            excess = FACTOR_DEN * (o[2] - o[1]) - FACTOR_NUM * (o[1] - o[0])
            cands.append((excess, fn))
    if not cands:
        return []
    top = max(c[0] for c in cands)
    return sorted(fn for ex, fn in cands if 5 * ex >= top)


def _work(task):
    """task = list of (kind, key, sizes, want_funcs, want_origin) -> list of
    result dicts."""
    out = []
    for kind, key, sizes, want_funcs, want_origin in task:
        r = eval_family(kind, key, sizes)
        if want_funcs and r["accepted"]:
            funcs = {}
            F.measure(family_text(kind, key, r["sizes"][0]), cap=STEP_CAP, funcs=funcs)
            r["funcs"] = sorted(funcs)
        if r["status"] == "superlinear" and want_origin and not r.get("origin"):
            w = r["window"]
            r["origin"] = origin_functions(kind, key, r["sizes"][w : w + 3], r["decided_by"])
        out.append(r)
    return out


# ---------------------------------------------------------------------------
# lexer families (the clock, wide margins)
# ---------------------------------------------------------------------------
def growth_violation(rows, limit=None):
    """rows = [[n, len, seconds, ...], ...] measured so far, sizes ascending.
    The last member against the one a quarter of its size: when both took at
    least 20 ms (clear of timer noise and fixed costs), four times the input
    may cost at most 8 times as much - quadratic growth (16 x) is caught
    without waiting for the absolute limit."""
    limit = limit or GROWTH_MAX
    n, _, t = rows[-1][:3]
    for m, _, tm in (r[:3] for r in rows[:-1]):
        if m * 4 == n and tm is not None and tm >= GROWTH_MIN and t >= GROWTH_MIN and t > limit * tm:
            return (f"n={n}: {t:.4f} s is {t / tm:.1f} x the {tm:.4f} s at n={m} "
                    f"(limit {limit:g} x for 4 x the input)")
    return ""


def eval_run_family(name, embedded):
    """A long run that almost matches a longer rule (RUN_FAMILIES), bare on the
    stand-alone lexer (ending at the first error, as parse() does) or embedded
    as `int x = <run>;` through parse().  Sizes 2^10, 2^12, 2^14, 2^16."""
    rows = []
    t0 = None
    for n in F.RUN_SIZES:
        text = F.run_text(name, n, embedded)
        if embedded:
            r = F.parse_time(text, repeat=3)
        else:
            r = F.lex_time(text, repeat=3, stop_at_error=True)
        if r[0] == "timeout":
            rows.append([n, len(text), None, None, None])
            return {"name": name, "embedded": embedded, "status": "slow", "rows": rows,
                    "why": f"n={n}: {r[1]} did not finish within {r[2]} s"}
        t, a, b = r
        rows.append([n, len(text), round(t, 6), a, b])
        if t0 is None:
            t0 = t
        bound = max(LEX_MARGIN * t0 * n / F.RUN_SIZES[0], LEX_FLOOR)
        why = ""
        if t > bound or t >= LEX_ABS:
            why = (f"n={n}: {t:.4f} s; linear extrapolation from n={F.RUN_SIZES[0]} "
                   f"({t0:.6f} s) x {LEX_MARGIN:g} = {bound:.4f} s; absolute limit {LEX_ABS} s")
        why = why or growth_violation(rows)
        if why:
            return {"name": name, "embedded": embedded, "status": "slow", "rows": rows, "why": why}
    return {"name": name, "embedded": embedded, "status": "linear", "rows": rows, "why": ""}


def eval_directive_time(name, through_parse):
    """Directive-heavy input timed on the stand-alone lexer (2^13 .. 2^19
    characters) or through parse() (2^11 .. 2^17): < 2 s on the lexer (through
    parse() only the ratios count), <= 50 x the
    linear extrapolation from the smallest size, and t(4n) <= 8 t(n) (12 t(n)
    through parse(), see GROWTH_MAX_BIG_AST) once both
    are >= 20 ms."""
    fn = F.DIRECTIVE_FAMILIES[name][1]
    rows = []
    t0 = None
    for n in (F.DIRECTIVE_PARSE_TIME_SIZES if through_parse else F.DIRECTIVE_TIME_SIZES):
        text = fn(n)
        if through_parse:
            r = F.parse_time(text, repeat=2, run_limit=60.0)
        else:
            r = F.lex_time(text, repeat=2, stop_at_error=True, run_limit=60.0)
        if r[0] == "timeout":
            rows.append([n, len(text), None, None, None])
            return {"name": name, "parse": through_parse, "status": "slow", "rows": rows,
                    "why": f"n={n}: {r[1]} did not finish within {r[2]} s"}
        t, a, b = r
        rows.append([n, len(text), round(t, 6), a, b])
        if t0 is None:
            t0, l0 = t, len(text)
        bound = max(LEX_MARGIN * t0 * len(text) / l0, LEX_FLOOR)
        why = ""
        if t > bound:
            why = (f"n={n}: {t:.4f} s > {bound:.4f} s = {LEX_MARGIN:g} x linear extrapolation from "
                   f"{l0} characters ({t0:.6f} s)")
        elif not through_parse and t >= LEX_ABS:
            why = f"n={n}: {t:.4f} s >= absolute limit {LEX_ABS} s"
        why = why or growth_violation(rows, GROWTH_MAX_BIG_AST if through_parse else None)
        if why:
            return {"name": name, "parse": through_parse, "status": "slow", "rows": rows, "why": why}
    return {"name": name, "parse": through_parse, "status": "linear", "rows": rows, "why": ""}


def eval_directive_copy(name):
    """Deterministic: characters copied out of the input (a counting str
    subclass) during parse(), at doubling sizes; the 2.5 oracle on every
    window of three."""
    fn = F.DIRECTIVE_FAMILIES[name][1]
    rows = []
    for n in F.DIRECTIVE_COPY_SIZES:
        text = fn(n)
        out, c = F.copied_chars(text)
        rows.append([n, len(text), c, out if out == "ok" else out[:60]])
        if out != "ok":
            return {"name": name, "status": "rejected", "rows": rows, "why": out}
        if len(rows) >= 3:
            (l1, c1), (l2, c2), (l3, c3) = [(r[1], r[2]) for r in rows[-3:]]
            # sizes are targets and the real lengths double only roughly, so the
            # oracle is applied to the marginal rate: copied characters per
            # additional input character (d2 <= 2.5 d1 for exact doubling)
            per1 = (c2 - c1) / (l2 - l1)
            per2 = (c3 - c2) / (l3 - l2)
            if per2 > 1.25 * per1 and per2 > 0.01:
                return {"name": name, "status": "superlinear", "rows": rows,
                        "why": (f"characters copied per additional input character grew from {per1:.2f} "
                                f"(between {l1} and {l2} characters) to {per2:.2f} (between {l2} and {l3}); "
                                "affine cost keeps it constant, allowed +25%")}
    if not rows[-1][2] > rows[0][2]:
        return {"name": name, "status": "flat", "rows": rows, "why": "the counter did not grow"}
    return {"name": name, "status": "linear", "rows": rows, "why": ""}


def _directive_work(task):
    out = []
    for what, name, flag in task:
        out.append((what, eval_directive_copy(name) if what == "copy" else eval_directive_time(name, flag)))
    return out


def eval_timed_repeat(name):
    """A repetition family timed through parse() at large k (work that is
    neither a Python call nor a builtin container call - string slicing and
    concatenation, a while loop over a chain - shows only here): 50 x the linear
    extrapolation from the smallest k, and t(4k) <= 8 t(k) once both >= 20 ms."""
    rows = []
    t0 = None
    for k in F.timed_repeat_sizes(name):
        text = F.repeat_text(name, k)
        try:
            r = F.parse_time(text, repeat=2, run_limit=60.0)
        except RecursionError:
            rows.append([k, len(text), None, "rec"])
            return {"name": name, "status": "rec", "rows": rows, "why": "recursion limit"}
        if r[0] == "timeout" and r[1] == "recursion limit":
            rows.append([k, len(text), None, "rec"])
            return {"name": name, "status": "rec", "rows": rows, "why": "recursion limit"}
        if r[0] == "timeout":
            rows.append([k, len(text), None, None])
            return {"name": name, "status": "slow", "rows": rows,
                    "why": f"k={k}: {r[1]} did not finish within {r[2]} s"}
        t, ok, _ = r
        rows.append([k, len(text), round(t, 6), ok])
        if not ok:
            return {"name": name, "status": "rejected", "rows": rows, "why": f"k={k}: not accepted"}
        if t0 is None:
            t0, l0 = t, len(text)
        bound = max(LEX_MARGIN * t0 * len(text) / l0, LEX_FLOOR)
        why = ""
        if t > bound:
            why = (f"k={k}: {t:.4f} s > {bound:.4f} s = {LEX_MARGIN:g} x linear extrapolation from "
                   f"k={rows[0][0]} ({t0:.6f} s)")
        why = why or growth_violation(rows, GROWTH_MAX_BIG_AST)
        if why:
            return {"name": name, "status": "slow", "rows": rows, "why": why}
    return {"name": name, "status": "linear", "rows": rows, "why": ""}


def _timed_repeat_work(names):
    return [eval_timed_repeat(n) for n in names]


def _run_work(task):
    return [eval_run_family(name, emb) for name, emb in task]


def eval_lexer_family(name):
    fn = F.LEXER_FAMILIES[name]
    rows = []
    t0 = None
    status = "linear"
    why = ""
    for n in LEX_SIZES:
        text = fn(n)
        r = F.lex_time(text, repeat=5)
        if r[0] == "timeout":
            rows.append([n, len(text), None, None, None])
            status = "slow"
            why = f"n={n}: {r[1]} did not finish within {r[2]} s"
            break
        t, ntok, nerr = r
        rows.append([n, len(text), round(t, 6), ntok, nerr])
        if t0 is None:
            t0 = t
        bound = max(LEX_MARGIN * t0 * n / LEX_SIZES[0], LEX_FLOOR)
        if t > bound or t >= LEX_ABS:
            status = "slow"
            why = (f"n={n}: {t:.4f} s; linear extrapolation from n={LEX_SIZES[0]} "
                   f"({t0:.6f} s) x {LEX_MARGIN:g} = {bound:.4f} s; absolute limit {LEX_ABS} s")
            break
        g = growth_violation(rows)
        if g:
            status, why = "slow", g
            break
    return {"name": name, "status": status, "rows": rows, "why": why}


def escape_family_name(desc):
    kinds, quote, prefix, shape = desc[:4]
    lit = "char" if quote == "'" else "string"
    return f"{lit}:{'+'.join(kinds)}:{prefix or 'noprefix'}:{shape}"


def eval_escape_family(desc):
    """n repetitions of an escape (or of two alternating escapes) inside one
    literal.  Small ladder (8..28 repetitions; a 2^n regex shows here, long
    before 2^10 characters): t(n) < 2 s, t(n) <= 50 x linear extrapolation from
    n = 8 (or 5 ms), and t(n) <= 6 x t(n-4) once t(n) > 2 ms.  Medium ladder
    (64, 256, 1024 repetitions): 50 x linear extrapolation from 64 (or 5 ms)
    and < 2 s.  Stops at the first slow member.
    -> (status, why, excess, rows, runs, nontrivial)."""
    kinds, quote, prefix, shape, sizes = desc
    rows = []
    base = {}
    prev = None
    runs = nontrivial = 0
    for n in sizes:
        text = F.escape_text(kinds, quote, prefix, shape, n)
        small = 0 < n <= F.ESCAPE_SMALL[-1]
        # The property speaks of parse(): the parser's error callback raises, so
        # lexing ends at the first lexer error.  (The stand-alone lexer with a
        # non-raising callback re-scans the rest of the text after every error
        # - quadratic, but outside the property; lead's triage of a thorough-tier
        # alarm on the unchanged tree.)
        if small:
            r = F.lex_time_small(text, stop_at_error=True)
        else:
            r = F.lex_time(text, repeat=3, stop_at_error=True)
        if r[0] == "timeout":
            rows.append([n, len(text), None])
            return ("slow", f"size {n} ({len(text)} characters): no result within {r[2]} s",
                    1e9, rows, runs, nontrivial)
        t, ntok, nerr = r
        runs += 1
        nontrivial += 1 if (ntok or nerr) else 0
        rows.append([n, len(text), round(t, 6)])
        ladder = "small" if small else "medium" if n > 0 else "large"
        if ladder not in base:
            base[ladder] = (len(text), t)
            prev = None
        l0, t0 = base[ladder]
        limits = [("absolute limit", LEX_ABS),
                  (f"{LEX_MARGIN:g} x linear extrapolation from {l0} characters ({t0:.6f} s)",
                   max(LEX_MARGIN * t0 * len(text) / l0, LEX_FLOOR))]
        if small and prev is not None:
            limits.append((f"{ESC_STEP_FACTOR:g} x the time at {n - 4} repetitions ({prev:.6f} s)",
                           max(ESC_STEP_FACTOR * max(prev, ESC_NOISE), ESC_STEP_FLOOR)))
        for what, lim in limits:
            if t >= lim:
                return ("slow", f"size {n} ({len(text)} characters): {t:.4f} s >= {lim:.4f} s = {what}",
                        t / lim, rows, runs, nontrivial)
        prev = t
    return ("linear", "", 0.0, rows, runs, nontrivial)


def _escape_work(task):
    """-> per family (index, status, why, excess, rows if slow, runs, nontrivial,
    worst ratio to the linear extrapolation)."""
    out = []
    for idx, desc in task:
        st, why, excess, rows, runs, nontriv = eval_escape_family(desc)
        worst = 0.0
        for ladder in (F.ESCAPE_SMALL, F.ESCAPE_MEDIUM, tuple(-c for c in F.ESCAPE_LARGE_CHARS)):
            rr = [r for r in rows if r[0] in ladder and r[2]]
            if len(rr) > 1:
                worst = max(worst, max(r[2] / rr[0][2] / (r[1] / rr[0][1]) for r in rr[1:]))
        out.append((idx, st, why, excess, rows if st != "linear" else None, runs, nontriv,
                    round(worst, 2)))
    return out


def _origin_work(task):
    return [origin_functions(kind, key, sizes3, by) for kind, key, sizes3, by in task]


def _lex_work(names):
    return [eval_lexer_family(n) for n in names]


# ---------------------------------------------------------------------------
# the sweep
# ---------------------------------------------------------------------------
def _self_test():
    """The comparison must be alive: affine and n log n pass; n^2, n^3 and 2^n
    fail, whatever the constant terms."""
    import math

    def v(f, k=8):
        return oracle_violated(f(k), f(2 * k), f(4 * k))

    good = [lambda n: 7 * n + 1000, lambda n: 123, lambda n: int(50 * n * math.log2(n)) + 9 * n]
    bad = [lambda n: n * n + 10 ** 6, lambda n: n ** 3 + 17, lambda n: 2 ** n + 10 ** 9,
           lambda n: 5 * n * n + 3 * n]
    return not any(v(f) for f in good) and all(v(f) for f in bad)


def _doubling(lo, hi):
    out = [lo]
    while out[-1] < hi:
        out.append(out[-1] * 2)
    return out


def plan(tier):
    """Sizes: the windows asked for are (k, 2k, 4k) with k = 8 (quick) / 16
    (thorough) for nesting and 32 / 64 for repetition, pairs at depths (4, 8,
    16) and, thorough, (8, 16, 32).  Every tier starts lower (nesting and
    pairs at 2, repetition at 8) and applies the oracle to every window on the
    way up: smallest-first makes the reported case minimal and stops an
    exponential family long before its big members would be run; thorough
    explores a superset of quick."""
    quick = tier == "quick"
    rep_sizes = _doubling(8, 128 if quick else 256)
    nest_sizes = _doubling(2, 32 if quick else 64)
    pair_sizes = _doubling(2, 16 if quick else 32)
    fams = []
    for name in F.repeat_names():
        fams.append(("rep", name, rep_sizes, True, True))
    systematic = set(F.CL_SYSTEMATIC)
    for name in F.NESTABLE:
        if F.self_nests(name):
            if name in systematic and name not in F.CL_PAIRED:
                # 360 generated constructs: every one alone, no function census
                fams.append(("nest", name, _doubling(2, 16 if quick else 32), False, True))
            else:
                fams.append(("nest", name, nest_sizes, True, True))
    pair_names = F.PAIR_NAMES_QUICK if quick else F.PAIR_NAMES
    seen = {}
    pairs = []
    incomposable = []
    dup = 0
    modes = {"alt": 0, "stack": 0}
    for x in pair_names:
        for y in pair_names:
            mode, seq = F.pair_seq(x, y, 4)
            if seq is None:
                incomposable.append(f"{x}+{y}")
                continue
            sig = tuple(seq)
            if sig in seen:
                dup += 1
                continue
            seen[sig] = (x, y)
            modes[mode] += 1
            pairs.append(("pair", (x, y), pair_sizes, False, True))
    bounds = {
        "repeat_sizes": rep_sizes,
        "nest_sizes": nest_sizes,
        "pair_depths": pair_sizes,
        "safety_step_cap_first_two_members": STEP_CAP,
        "factor": FACTOR_NUM / FACTOR_DEN,
        "lexer_lengths": LEX_SIZES,
        "lexer_margin_x_linear": LEX_MARGIN,
        "lexer_abs_seconds": LEX_ABS,
        "run_lengths": list(F.RUN_SIZES),
        "directive_time_lengths": list(F.DIRECTIVE_TIME_SIZES),
        "directive_copy_lengths": list(F.DIRECTIVE_COPY_SIZES),
        "growth_rule": f"t(4n) <= {GROWTH_MAX:g} t(n) when both >= {GROWTH_MIN} s",
        "escape_repetitions": list(F.ESCAPE_SMALL + F.ESCAPE_MEDIUM),
        "escape_step_factor_per_4_repetitions": ESC_STEP_FACTOR,
    }
    info = {
        "repeatable_constructs": len(F.repeat_names()),
        "nestable_constructs": len(F.NESTABLE),
        "nestable_self_nesting": sum(1 for n in F.NESTABLE if F.self_nests(n)),
        "nestable_constructs_taking_part_in_pairs": len(pair_names),
        "systematic_compound_literal_constructs": len(F.CL_SYSTEMATIC),
        "ordered_pairs": len(pair_names) ** 2,
        "pair_families_alternating": modes["alt"],
        "pair_families_stacked": modes["stack"],
        "ordered_pairs_with_the_same_text_as_their_mirror": dup,
        "ordered_pairs_not_composable_in_C": incomposable,
    }
    return fams, pairs, bounds, info


def signature(r, single_sig):
    """Superlinear family -> root-cause signature:
    origin:<function> when one function's own loop explains the growth (same
    for every construct that reaches it), else the minimal bad sub-family: a
    pair (X, Y) is attributed to X (or Y) when that construct alone is already
    super-linear, otherwise pair:X+Y."""
    kind, key, st = r["kind"], r["key"], r["status"]
    if st == "superlinear":
        if kind == "pair":
            for c in key:
                if c in single_sig:
                    return single_sig[c]
        if r.get("decided_by") == COUNTERS[3]:
            return "bulk-copy:" + "+".join(r["origin"])
        if r.get("origin"):
            return "origin:" + "+".join(r["origin"])
        if kind == "rep":
            return f"repeat:{key}"
        if kind == "nest":
            if key.startswith("cl/"):
                # generated constructs: the prefix operator decides which
                # speculative '( type-name )' site is entered
                return "nest:" + "/".join(key.split("/")[:2]) + "/*"
            return f"nest:{key}"
        a, b = sorted(key)
        return f"pair:{a}+{b}"
    if st == "nondeterministic":
        return "nondeterministic-steps"
    return f"{st}:{family_name(kind, key)}"


def describe(r):
    d = {"family": family_name(r["kind"], r["key"]), "sizes": r["sizes"],
         "parser_calls": r["steps"], "all_python_calls": r["totals"],
         "outcomes": r["outcomes"], "status": r["status"]}
    if r["status"] == "superlinear":
        w = r["window"]
        d["decided_by_counter"] = r["decided_by"]
        if r["decided_by"] == COUNTERS[2]:
            d["function"] = r.get("function")
            s = r.get("function_calls") or r["steps"][w : w + 3]
        elif r["decided_by"] == COUNTERS[4]:
            d["function"] = r.get("function")
            s = r.get("function_lines") or r["steps"][w : w + 3]
        elif r["decided_by"] == COUNTERS[3]:
            d["bulk_container_items"] = r.get("bulk")
            d["bulk_items_by_calling_function_at_largest_size"] = r.get("bulk_callers")
            s = r["bulk"][w : w + 3]
        else:
            s = (r["totals"] if r["decided_by"] == COUNTERS[1] else r["steps"])[w : w + 3]
        d["violating_window_sizes"] = r["sizes"][w : w + 3]
        d["marginal_costs"] = [s[1] - s[0], s[2] - s[1]]
        d["allowed_last_marginal"] = FACTOR_NUM * (s[1] - s[0]) / FACTOR_DEN
        d["origin_functions"] = r.get("origin", [])
        if r["outcomes"][-1] == "cap":
            d["note"] = "last member stopped at the oracle bound: its step count is a lower bound"
    return d


def run(tier):
    R = core.Run(PID, tier, "exploration")
    fams, pairs, bounds, info = plan(tier)
    if not _self_test():
        R.fail("oracle-self-test", {}, "the marginal-cost comparison does not separate affine from quadratic")

    # every construct alone and every pair in one ordered parallel map; the
    # origin analysis of a bad pair is done afterwards, and only when neither
    # of its constructs is super-linear on its own (such a pair is attributed
    # to that construct)
    import time

    t_ph = [time.time()]
    tasks = [[f] for f in fams] + core.chunked([p[:4] + (False,) for p in pairs], 8)
    results = []
    for part in core.pmap(_work, tasks, chunksize=1):
        results.extend(part)
    t_ph.append(time.time())
    single_sig = {}
    for r in results:
        if r["kind"] == "nest" and r["status"] == "superlinear":
            single_sig[r["key"]] = signature(r, {})
    need = [i for i, r in enumerate(results)
            if r["kind"] == "pair" and r["status"] == "superlinear"
            and not (r["key"][0] in single_sig or r["key"][1] in single_sig)]
    todo = [(results[i]["kind"], results[i]["key"],
             results[i]["sizes"][results[i]["window"]:results[i]["window"] + 3],
             results[i]["decided_by"]) for i in need]
    got = []
    for part in core.pmap(_origin_work, core.chunked(todo, 8), chunksize=1):
        got.extend(part)
    for i, o in zip(need, got):
        results[i]["origin"] = o
    t_ph.append(time.time())

    lex_names = list(F.LEXER_FAMILIES)
    lex_results = []
    for part in core.pmap(_lex_work, [[n] for n in lex_names], chunksize=1):
        lex_results.extend(part)
    run_tasks = [(n, emb) for n in F.RUN_FAMILIES for emb in (False, True)]
    run_res = []
    for part in core.pmap(_run_work, core.chunked(run_tasks, 4), chunksize=1):
        run_res.extend(part)
    t_ph.append(time.time())
    timed_names = list(F.TIMED_REPEAT_QUICK) if tier == "quick" else F.repeat_names()
    timed_res = []
    for part in core.pmap(_timed_repeat_work, [[n] for n in timed_names], chunksize=1):
        timed_res.extend(part)
    t_ph.append(time.time())
    dir_tasks = []
    for n in F.DIRECTIVE_FAMILIES:
        dir_tasks += [("time", n, True), ("time", n, False), ("copy", n, None)]
    # the big parse() timings first: they are the longest tasks
    dir_tasks.sort(key=lambda t: (t[0] != "time", t[2] is not True))
    dir_res = []
    for part in core.pmap(_directive_work, [[t] for t in dir_tasks], chunksize=1):
        dir_res.extend(part)
    t_ph.append(time.time())
    esc = F.escape_families(tier)
    esc_res = [None] * len(esc)
    for part in core.pmap(_escape_work, core.chunked(list(enumerate(esc)), 24), chunksize=1):
        for row in part:
            esc_res[row[0]] = row
    # a family that looked slow while the workers competed is measured again
    # alone before it counts (DESIGN 2: same rule as for watchdog timeouts) -
    # unless it is so far over its limit that contention cannot be the reason
    core.close_pool()
    lex_rerun = []
    for i, r in enumerate(lex_results):
        if r["status"] != "linear":
            lex_rerun.append(r["name"])
            lex_results[i] = eval_lexer_family(r["name"])
    for i, r in enumerate(run_res):
        if r["status"] != "linear":
            lex_rerun.append(("parse:" if r["embedded"] else "lexer:") + r["name"])
            run_res[i] = eval_run_family(r["name"], r["embedded"])
    for i, r in enumerate(timed_res):
        if r["status"] == "slow":
            lex_rerun.append("timed-repeat:" + r["name"])
            timed_res[i] = eval_timed_repeat(r["name"])
    for i, (what, r) in enumerate(dir_res):
        if what == "time" and r["status"] != "linear":
            lex_rerun.append(("parse:" if r["parse"] else "lexer:") + r["name"])
            dir_res[i] = (what, eval_directive_time(r["name"], r["parse"]))
    for i, row in enumerate(esc_res):
        if row[1] != "linear":  # always: a single spike under load must never count
            lex_rerun.append(escape_family_name(esc[i]))
            esc_res[i] = _escape_work([(i, esc[i])])[0]
    t_ph.append(time.time())
    hist = {}
    members = accepted = nontrivial = 0
    funcs = set()
    step_values = set()
    ratios = []
    not_measurable = []
    fails = []
    reported = set()
    by_sig = {}
    for r in results:
        hist[r["status"]] = hist.get(r["status"], 0) + 1
        members += r["runs"]
        accepted += r["accepted"]
        funcs.update(r.get("funcs", ()))
        step_values.update(r["steps"])
        s = r["steps"]
        if r["status"] in ("linear", "superlinear") and len(s) >= 3:
            nontrivial += r["accepted"]
        if r["status"] == "linear":
            # how close the families that pass come to the limit of 2.5
            worst = max((s[i + 2] - s[i + 1]) / (s[i + 1] - s[i]) for i in range(len(s) - 2))
            ratios.append((round(worst, 3), family_name(r["kind"], r["key"]), r["sizes"], s))
        if r["status"] == "rec":
            not_measurable.append([family_name(r["kind"], r["key"]), r["sizes"]])
            continue
        if r["status"] == "rejected" and r["kind"] == "rep" and r["key"] in F.MAY_BE_REJECTED:
            # not C99 (rejected by the pinned tree): only measured where a tree accepts it
            not_measurable.append([family_name(r["kind"], r["key"]), "rejected"])
            continue
        if r["status"] != "linear":
            sig = signature(r, single_sig)
            by_sig.setdefault(sig, []).append(family_name(r["kind"], r["key"]))
            if sig not in reported and r["status"] == "superlinear":
                reported.add(sig)
                # exact numbers for the first (smallest) case of a signature
                origin = r.get("origin")
                r = eval_family(r["kind"], r["key"], r["sizes"], exact=True)
                r["origin"] = origin
            case = {"kind": r["kind"], "key": r["key"], "sizes": r["sizes"],
                    "family": family_name(r["kind"], r["key"]),
                    "text_at_smallest_size": family_text(r["kind"], r["key"], r["sizes"][0])}
            fails.append((sig, case, describe(r)))
    R.fail_many(fails)

    lex_runs = lex_nontrivial = 0
    lex_hist = {}
    lex_worst = []
    for r in lex_results:
        lex_hist[r["status"]] = lex_hist.get(r["status"], 0) + 1
        lex_runs += sum(1 for row in r["rows"] if row[2] is not None)
        lex_nontrivial += sum(1 for row in r["rows"] if row[2] is not None and (row[3] or row[4]))
        t0 = r["rows"][0][2]
        if t0:
            lex_worst.append((round(max(row[2] / t0 / (row[0] / LEX_SIZES[0])
                                        for row in r["rows"] if row[2] is not None), 2), r["name"]))
        if r["status"] != "linear":
            R.fail(f"lexer:{r['name']}", {"lexer": r["name"]}, {"why": r["why"], "rows": r["rows"]})

    # run families: one signature per regex class (hex / bin / dec / oct /
    # float / ident), whichever member and whichever way (bare or embedded)
    run_hist = {}
    run_runs = run_nontrivial = 0
    run_worst = []
    run_by_sig = {}
    for r in run_res:
        run_hist[r["status"]] = run_hist.get(r["status"], 0) + 1
        ok_rows = [row for row in r["rows"] if row[2] is not None]
        run_runs += len(ok_rows)
        run_nontrivial += sum(1 for row in ok_rows if row[3] or row[4])
        if len(ok_rows) > 1 and ok_rows[0][2]:
            run_worst.append((round(max(row[2] / ok_rows[0][2] / (row[0] / ok_rows[0][0])
                                        for row in ok_rows[1:]), 2),
                              ("parse:" if r["embedded"] else "lexer:") + r["name"]))
        if r["status"] != "linear":
            sig = "lexer-run:" + F.RUN_FAMILIES[r["name"]][0]
            run_by_sig.setdefault(sig, []).append(("parse:" if r["embedded"] else "lexer:") + r["name"])
            R.fail(sig, {"run_family": r["name"], "embedded": r["embedded"],
                         "text_at_16": F.run_text(r["name"], 16, r["embedded"])},
                   {"family": r["name"], "through": "parse()" if r["embedded"] else "stand-alone lexer",
                    "why": r["why"], "rows[n,len,seconds,..]": r["rows"]})
    run_worst.sort(reverse=True)

    # timed repetition families
    timed_hist = {}
    timed_runs = 0
    timed_worst = []
    for r in timed_res:
        timed_hist[r["status"]] = timed_hist.get(r["status"], 0) + 1
        ok_rows = [row for row in r["rows"] if row[2] is not None]
        timed_runs += len(ok_rows)
        if len(ok_rows) > 1 and ok_rows[0][2]:
            timed_worst.append((round(max(b[2] / a[2] for a, b in zip(ok_rows, ok_rows[1:])), 2), r["name"]))
        if r["status"] == "rejected" and r["name"] in F.MAY_BE_REJECTED:
            continue  # not C99: rejected by the pinned tree, only measured where a tree accepts it
        if r["status"] not in ("linear", "rec"):
            group = "adjacent_string_literals" if "string_concat" in r["name"] else r["name"]
            R.fail(f"repeat-time:{group}" if r["status"] == "slow" else f"{r['status']}:timed:{r['name']}",
                   {"timed_repeat": r["name"]},
                   {"family": r["name"], "why": r["why"], "rows[k,len,seconds,accepted]": r["rows"]})
    timed_worst.sort(reverse=True)

    # directive families: one signature per directive class and measure
    dir_hist = {}
    dir_runs = 0
    dir_worst = []
    dir_by_sig = {}
    for what, r in dir_res:
        key = f"{what}:{r['status']}"
        dir_hist[key] = dir_hist.get(key, 0) + 1
        ok_rows = [row for row in r["rows"] if row[2] is not None]
        dir_runs += len(ok_rows)
        cls = F.DIRECTIVE_FAMILIES[r["name"]][0]
        if what == "time":
            label = ("parse:" if r["parse"] else "lexer:") + r["name"]
            if len(ok_rows) > 1 and ok_rows[0][2]:
                dir_worst.append((round(max(row[2] / ok_rows[0][2] / (row[1] / ok_rows[0][1])
                                            for row in ok_rows[1:]), 2), label))
            if r["status"] != "linear":
                sig = f"directive-time:{cls}"
                dir_by_sig.setdefault(sig, []).append(label)
                R.fail(sig, {"directive_family": r["name"], "measure": "time", "parse": r["parse"]},
                       {"family": label, "why": r["why"], "rows[n,len,seconds,..]": r["rows"]})
        elif r["status"] != "linear":
            sig = f"directive-copy:{cls}" if r["status"] == "superlinear" else f"{r['status']}:directive:{r['name']}"
            dir_by_sig.setdefault(sig, []).append(r["name"])
            R.fail(sig, {"directive_family": r["name"], "measure": "copy"},
                   {"family": r["name"], "why": r["why"], "rows[n,len,copied_chars,outcome]": r["rows"]})
    dir_worst.sort(reverse=True)

    # escape families: one signature per (char|string, escape kind); an
    # alternation of two kinds is attributed to a kind that is slow on its own
    esc_hist = {}
    esc_runs = esc_nontrivial = 0
    esc_worst = []
    slow_single = set()
    for d, row in zip(esc, esc_res):
        esc_hist[row[1]] = esc_hist.get(row[1], 0) + 1
        esc_runs += row[5]
        esc_nontrivial += row[6]
        esc_worst.append((row[7], escape_family_name(d)))
        if row[1] != "linear" and len(d[0]) == 1:
            slow_single.add((d[1], d[0][0]))
    esc_by_sig = {}
    for i, (d, row) in enumerate(zip(esc, esc_res)):
        if row[1] == "linear":
            continue
        kinds, quote = d[0], d[1]
        lit = "char" if quote == "'" else "string"
        own = [k for k in kinds if (quote, k) in slow_single]
        sig = f"lexer-escape:{lit}:{own[0] if own else '+'.join(kinds)}"
        esc_by_sig.setdefault(sig, []).append(escape_family_name(d))
        R.fail(sig, {"escape_family": [list(kinds), quote, d[2], d[3], list(d[4])],
                     "text_at_8": F.escape_text(kinds, quote, d[2], d[3], 8)},
               {"family": escape_family_name(d), "why": row[2],
                "rows[repetitions,len,seconds]": row[4]})
    esc_worst.sort(reverse=True)

    # ---- vacuity guards ---------------------------------------------------
    n_rep = sum(1 for f in fams if f[0] == "rep")
    n_nest = sum(1 for f in fams if f[0] == "nest")
    decided = hist.get("linear", 0) + hist.get("superlinear", 0)
    full = sum(len(f[2]) for f in fams) + sum(len(f[2]) for f in pairs)
    if (n_rep < 12 or n_nest < 16 or len(pairs) < 256 or len(lex_names) < 20
            or decided < 0.95 * len(results) or 2 * len(step_values) < len(results)
            or accepted < 0.8 * full or len(funcs) < 100
            or lex_runs < 0.9 * len(LEX_SIZES) * len(lex_names)
            or len(run_res) < 100 or run_runs < 0.9 * len(F.RUN_SIZES) * len(run_res)
            or len(timed_res) < 20 or timed_runs < 2.5 * len(timed_res)
            or len(dir_res) < 30 or dir_runs < 0.9 * (
                2 * len(F.DIRECTIVE_TIME_SIZES) + len(F.DIRECTIVE_COPY_SIZES)) * len(F.DIRECTIVE_FAMILIES)
            or len(esc) < 1000 or esc_runs < 0.9 * sum(len(d[4]) for d in esc)
            or esc_nontrivial < 0.9 * esc_runs):
        R.fail("vacuous", {"families": len(results), "decided": decided, "accepted": accepted,
                           "members_planned": full, "distinct_step_values": len(step_values),
                           "functions": len(funcs), "lexer_runs": lex_runs},
               "too little was explored for the verdict to mean anything")

    ratios.sort(reverse=True)
    lex_worst.sort(reverse=True)
    R.set("states", len(results) + len(lex_results) + len(esc) + len(run_res) + len(dir_res) + len(timed_res))
    R.set("transitions", members + lex_runs + esc_runs + run_runs + dir_runs + timed_runs)
    R.set("traces_validated_against_impl", accepted + lex_runs + esc_runs + run_runs + dir_runs + timed_runs)
    R.set("evaluations", members + lex_runs + esc_runs + run_runs + dir_runs + timed_runs)
    R.set("distinct_nontrivial", nontrivial + lex_nontrivial + esc_nontrivial + run_nontrivial + dir_runs)
    R.set("directive_families", {"constructs": len(F.DIRECTIVE_FAMILIES),
                                 "families_parse_lexer_copy": len(dir_res),
                                 "lexer_time_sizes": list(F.DIRECTIVE_TIME_SIZES),
                                 "parse_time_sizes": list(F.DIRECTIVE_PARSE_TIME_SIZES),
                                 "copy_sizes": list(F.DIRECTIVE_COPY_SIZES), "measurements": dir_runs})
    R.set("timed_repeat_families", {"families": len(timed_res), "timings": timed_runs,
                                    "k": list(F.TIMED_REPEAT_SIZES),
                                    "k_for_long_items": list(F.TIMED_REPEAT_SIZES_LONG_ITEMS)})
    R.set("timed_repeat_status_histogram", timed_hist)
    R.set("largest_timed_repeat_growth_per_4x", timed_worst[:8])
    R.set("directive_status_histogram", dir_hist)
    R.set("directive_bad_by_signature", {k: [len(v), v[:6]] for k, v in sorted(dir_by_sig.items())})
    R.set("largest_directive_ratio_vs_linear", dir_worst[:8])
    R.set("run_families", {"constructs": len(F.RUN_FAMILIES), "families_bare_and_embedded": len(run_res),
                           "sizes": list(F.RUN_SIZES), "timings": run_runs,
                           "classes": sorted({v[0] for v in F.RUN_FAMILIES.values()})})
    R.set("run_status_histogram", run_hist)
    R.set("run_slow_by_signature", {k: [len(v), v[:6]] for k, v in sorted(run_by_sig.items())})
    R.set("largest_run_ratio_vs_linear", run_worst[:10])
    by_counter = {}
    for r in results:
        if r["status"] == "superlinear":
            by_counter[r["decided_by"]] = by_counter.get(r["decided_by"], 0) + 1
    R.set("counters", list(COUNTERS))
    R.set("superlinear_decided_by_counter", by_counter)
    R.set("families", {"repeat": n_rep, "nest": n_nest, "pair": len(pairs), "lexer": len(lex_names),
                       "lexer_escape": len(esc),
                       "lexer_escape_single_kind": sum(1 for d in esc if len(d[0]) == 1)})
    R.set("escape_catalogue", {"kinds": list(F.ESCAPE_KINDS), "prefixes": list(F.ESCAPE_PREFIXES),
                               "shapes": list(F.ESCAPE_SHAPES), "literals": ["char", "string"],
                               "repetitions_small": list(F.ESCAPE_SMALL),
                               "repetitions_medium": list(F.ESCAPE_MEDIUM),
                               "characters_large_first_error_only": list(F.ESCAPE_LARGE_CHARS)})
    R.set("escape_runs", esc_runs)
    R.set("escape_status_histogram", esc_hist)
    R.set("escape_slow_by_signature", {k: [len(v), v[:5]] for k, v in sorted(esc_by_sig.items())})
    R.set("largest_escape_ratio_vs_linear", esc_worst[:10])
    R.set("catalogue", info)
    R.set("accepted_members", accepted)
    R.set("members_planned", full)
    R.set("parse_runs", members)
    R.set("lexer_runs", lex_runs)
    R.set("status_histogram", hist)
    R.set("lexer_status_histogram", lex_hist)
    R.set("distinct_outcomes", len(hist) + len(lex_hist) + len(esc_hist) + len(run_hist) + len(dir_hist)
          + len(timed_hist))
    R.set("distinct_step_values", len(step_values))
    R.set("superlinear_single_constructs", single_sig)
    R.set("superlinear_families_by_signature", {k: [len(v), v[:40]] for k, v in sorted(by_sig.items())})
    R.set("not_measurable_recursion", not_measurable)
    R.set("largest_marginal_ratios_among_linear", ratios[:15])
    R.set("largest_lexer_ratio_vs_linear", lex_worst[:10])
    R.set("lexer_families_remeasured_alone", lex_rerun)
    R.set("productions_reached", len([f for f in funcs if f.startswith("_parse_")]))
    R.set("functions_reached", len(funcs))
    R.set("bounds", bounds)
    R.set("phase_seconds", dict(zip(("families", "origin_analysis", "lexer_and_runs", "timed_repeats", "directives", "lexer_escape"),
                                    (round(b - a, 1) for a, b in zip(t_ph, t_ph[1:])))))
    R.assumptions += [
        "work = number of Python call events inside c_parser.py, c_lexer.py and ast_transforms.py, and, "
        "as a second counter with the same oracle, the function entries of all Python code running during "
        "parse() (c_ast constructors, library code such as copy.deepcopy working on the parser's behalf; "
        "the `re` package and the harness excluded); `superlinear_decided_by_counter` says which counter "
        "decided each bad family (both exactly reproducible; re-measured once per family); loops that make no calls (scope-stack "
        "lookup, _type_modify_decl's chain walk) and the time spent inside `re` are invisible to it - "
        "the latter is covered by the timed lexer families",
        "all timings run in a child interpreter with PYTHONMALLOC=malloc (the time server), "
        "after an untimed warm-up run and with malloc told to keep freed memory, "
        "so that first-touch page faults (tens of MB of regex mark stack for a 16 KB unterminated "
        "character constant) are not mistaken for work",
        "a timed lexer run under 5 ms is never counted as slow",
        "directive families: string slicing is invisible to call counts, so they are timed (growth rule) and "
        "measured with a deterministic counter of the characters copied out of the input object (a str "
        "subclass; sees slicing of the input itself only)",
        "escape families: the step rule (4 more repetitions <= 6 x the time) only applies to runs over 2 ms",
    ]
    samples = []
    for r in core.pick_samples([r for r in results if r["status"] == "linear"], 10):
        samples.append({"family": family_name(r["kind"], r["key"]), "sizes": r["sizes"],
                        "steps": r["steps"],
                        "text_at_smallest_size": family_text(r["kind"], r["key"], r["sizes"][0])[:200]})
    for r in core.pick_samples(lex_results, 2):
        samples.append({"lexer_family": r["name"], "rows[n,len,seconds,tokens,errors]": r["rows"]})
    return R.finish(
        samples,
        "every catalogue construct alone (k-fold repetition; depth-k nesting) and every ordered pair of "
        "nestable constructs nested alternately X(Y(X(Y..))) (stacked X^d(Y^d) where C gives no way to put "
        "one inside the other; categories are glued by neutral coercions such as sizeof(T), int[e], `e;`), "
        "at doubling sizes, smallest first; oracle on every window of three consecutive sizes: "
        "s(4k)-s(2k) <= 2.5 (s(2k)-s(k)) on call-event counts; every member must be accepted by the parser. "
        "From the third member on a run is capped at the oracle bound (exceeding it is the violation). "
        "Lexer families at 2^10..2^14 characters on the stand-alone lexer: best-of-5 time <= 50 x "
        "linear extrapolation from 2^10 and < 2 s. evaluations = parser runs + lexer sizes timed; "
        "distinct_nontrivial = accepted members of families whose step count strictly grew with the size "
        "parameter (the size really drove the parser) + lexer members that produced at least one token or "
        "error. Timed repetition families: repetition constructs through parse() at k = 512, 2048, 8192 "
        "(256, 1024, 4096 for 2 KB items), t(4k) <= 8 t(k) once both >= 20 ms. Run families: for every constant kind and identifier-like prefix a long run that almost "
        "matches a longer rule (0x+hex*n, ..+'.', ..+'p', 0b.., digits+'e+', every integer-suffix prefix, "
        "L*n, u8.., _*n, $*n ...), bare on the lexer and embedded as `int x = <run>;` through parse(), at "
        "2^10, 2^12, 2^14, 2^16 characters: the 50 x / 2 s rules plus the growth rule t(4n) <= 8 t(n) once "
        "both are >= 20 ms (also applied to the 2^10..2^14 families). Directive families: n characters of "
        "repeated line markers (with / without flags, number only, #line, many flags, escaped / long file "
        "names, inside a function body, one marker on top of a big file, markers in the first / last 1%) and "
        "pragmas, timed on the lexer at 2^13..2^19 characters and through parse() at 2^11..2^17 (50 x / growth rule; 2 s on the "
        "lexer), and 2^11..2^15 with the copied-characters counter (marginal rate may grow by 25% per "
        "doubling = the 2.5 oracle). Escape families: every escape kind (and every unordered pair of kinds, alternating) x char "
        "constant / string x prefix x shape (terminated = over-long for a char constant, unterminated at "
        "end of line / of input, bad escape at the end / start / end-unterminated), n = 8..28 repetitions "
        "(step 4), 64, 256, 1024 repetitions, and (single kinds) 4096 / 16384 characters lexed up to the first "
        "error as parse() does: < 2 s, <= 50 x linear extrapolation from the smallest n of the ladder, "
        "and (small ladder) <= 6 x the time of n-4 once over 2 ms. Signature of a bad family = origin:<function> if one function's own loop explains the growth, "
        "else nest:<X> / pair:<X>+<Y> (a pair is attributed to X when X alone is already super-linear).",
        exhaustive=True,
    )


def replay(rep):
    c = rep["case"]
    if "lexer" in c:
        r = eval_lexer_family(c["lexer"])
        print("lexer family:", c["lexer"])
        for row in r["rows"]:
            print("  n=%s len=%s seconds=%s tokens=%s errors=%s" % tuple(row))
        print("verdict:", r["status"], r["why"])
        return 1 if r["status"] != "linear" else 0
    if "timed_repeat" in c:
        r = eval_timed_repeat(c["timed_repeat"])
        print("timed repetition family:", c["timed_repeat"])
        print("member at k=3:", repr(F.repeat_text(c["timed_repeat"], 3))[:200])
        for row in r["rows"]:
            print("  k=%s len=%s seconds=%s" % tuple(row[:3]))
        print("verdict:", r["status"], r["why"])
        return 1 if r["status"] == "slow" else 0
    if "directive_family" in c:
        if c["measure"] == "copy":
            r = eval_directive_copy(c["directive_family"])
        else:
            r = eval_directive_time(c["directive_family"], c["parse"])
        print("directive family:", c["directive_family"], "measure:", c["measure"],
              "through parse()" if c.get("parse") or c["measure"] == "copy" else "on the stand-alone lexer")
        print("member of ~200 characters:", repr(F.DIRECTIVE_FAMILIES[c["directive_family"]][1](200)))
        for row in r["rows"]:
            print("  n=%s len=%s %s=%s" % (row[0], row[1], "copied" if c["measure"] == "copy" else "seconds", row[2]))
        print("verdict:", r["status"], r["why"])
        return 1 if r["status"] != "linear" else 0
    if "run_family" in c:
        r = eval_run_family(c["run_family"], c["embedded"])
        print("run family:", c["run_family"], "through", "parse()" if c["embedded"] else "the stand-alone lexer")
        print("member at n=16:", repr(F.run_text(c["run_family"], 16, c["embedded"])))
        for row in r["rows"]:
            print("  n=%s len=%s seconds=%s" % tuple(row[:3]))
        print("verdict:", r["status"], r["why"])
        return 1 if r["status"] != "linear" else 0
    if "escape_family" in c:
        kinds, quote, prefix, shape, sizes = c["escape_family"]
        desc = (tuple(kinds), quote, prefix, shape, tuple(sizes))
        st, why, excess, rows, runs, nontriv = eval_escape_family(desc)
        print("escape family:", escape_family_name(desc))
        print("member at 8 repetitions:", repr(F.escape_text(desc[0], quote, prefix, shape, 8)))
        for row in rows:
            print("  repetitions=%s len=%s seconds=%s" % tuple(row))
        print("verdict:", st, why)
        return 1 if st != "linear" else 0
    if "kind" not in c:
        print("nothing to replay for this signature:", rep.get("detail"))
        return 1
    kind = c["kind"]
    key = tuple(c["key"]) if kind == "pair" else c["key"]
    r = eval_family(kind, key, c["sizes"], exact=True)
    print("family:", family_name(kind, key))
    print("member at the smallest size:", family_text(kind, key, r["sizes"][0]))
    print("sizes:", r["sizes"])
    print("parser calls:", r["steps"], "all python calls:", r["totals"], "outcomes:", r["outcomes"])
    if r["status"] == "superlinear":
        w = r["window"]
        print("decided by counter:", r["decided_by"])
        if r["decided_by"] == COUNTERS[2]:
            print("function:", r["function"])
            s = r["function_calls"]
        elif r["decided_by"] == COUNTERS[4]:
            print("function:", r["function"], "(source lines executed)")
            s = r["function_lines"]
        elif r["decided_by"] == COUNTERS[3]:
            print("bulk container items:", r["bulk"], "by calling function:", r.get("bulk_callers"))
            s = r["bulk"][w : w + 3]
        else:
            s = (r["totals"] if r["decided_by"] == COUNTERS[1] else r["steps"])[w : w + 3]
        print(f"expected: s({r['sizes'][w + 2]})-s({r['sizes'][w + 1]}) <= 2.5*(s({r['sizes'][w + 1]})"
              f"-s({r['sizes'][w]})) = {2.5 * (s[1] - s[0]):.0f}; observed: {s[2] - s[1]}")
        print("origin functions:", r.get("origin") or origin_functions(kind, key, r["sizes"][w : w + 3], r["decided_by"]))
    print("verdict:", r["status"])
    return 0 if r["status"] in ("linear", "rec") else 1
